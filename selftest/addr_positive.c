/* Self-test input of rule R10.5 (no address arithmetic on integers in copyable-state code).  Not bee2 code.
   `aligned_part` manufactures a pointer from the numeric value of an address and must be matched on every run;
   `offset_part` uses offsets only and must not be. */
typedef unsigned long uptr_t;
struct st { char otp[10]; unsigned char stack[64]; };

unsigned char* aligned_part(struct st* s)
{
	return (unsigned char*)(((uptr_t)s->stack + 15) & ~(uptr_t)15);
}

unsigned char* offset_part(struct st* s)
{
	return s->stack + 16;
}
