/* Self-test input of rule SD.f (fixed-extent arrays).  Not bee2 code: three tiny functions whose verdicts are known.
   The check parses this file on every run; `bad_*` must be reported, `good_*` must be proved, `sentinel` must stay
   undecided.  If not, the analysis is broken (exit 2). */
typedef unsigned long word_t;
typedef unsigned char octet_t;

void bad_carry(octet_t block[32])
{
	unsigned long i = 0;
	word_t* w = (word_t*)block;
	do
		++w[i];
	while (w[i] == 0 && i++ < 4);
}

void good_carry(octet_t block[32])
{
	unsigned long i = 0;
	word_t* w = (word_t*)block;
	do
		++w[i];
	while (w[i] == 0 && ++i < 4);
}

struct st { octet_t buf[16]; unsigned long fill; };

void bad_fill(struct st* s, const octet_t* src)
{
	unsigned long i;
	for (i = 0; i <= 16; ++i)
		s->buf[i] = src[i];
}

void good_fill(struct st* s, const octet_t* src)
{
	unsigned long i;
	for (i = 0; i < sizeof(s->buf); ++i)
		s->buf[i] = src[i];
}

unsigned long sentinel(const unsigned long chain[20])
{
	unsigned long i, n = 0;
	for (i = 1; chain[i] > 32; ++i)
		n += chain[i];
	return n;
}

/* a length computed from an unvalidated parameter by an unsigned subtraction (wraps for in_len < 8), then tested and used */
typedef unsigned int err_t;

err_t bad_wrap_len(const octet_t in[], unsigned long in_len, octet_t* out)
{
	unsigned long y_len = in_len - 8;
	if (y_len <= 4)
		return 1;
	*out = in[y_len - 1];
	return 0;
}

err_t good_wrap_len(const octet_t in[], unsigned long in_len, octet_t* out)
{
	unsigned long y_len;
	if (in_len <= 12)
		return 1;
	y_len = in_len - 8;
	*out = in[y_len - 1];
	return 0;
}

/* the same wrapped difference passed directly as a length, before in_len is tested */
void fx_sink(const octet_t buf[], unsigned long count);

err_t bad_wrap_arg(const octet_t in[], unsigned long in_len)
{
	fx_sink(in, in_len - 8);
	if (in_len < 8)
		return 1;
	return 0;
}

err_t good_wrap_arg(const octet_t in[], unsigned long in_len)
{
	if (in_len < 8)
		return 1;
	fx_sink(in, in_len - 8);
	return 0;
}
