"""Blob typestate (shared by C15 R15.4/R15.5 and C09(b)).

Per tracked variable: 'U' allocation result not yet null-tested, 'L' live,
'N0' null (never allocated), 'NF' null because an allocation failed, 'C' closed,
'E' escaped (stored to a global / out-parameter / returned), ('RU',) result of
v = blobResize(v, ..) with a live old block not yet tested, ('IF', codevar) live
iff the err_t variable is ERR_OK (creator wrappers such as g12sEcCreate)."""
from . import ir
from .ir import strip, show, walk, root_ref, is_int, AnalysisBroken

BLOB_API = {"blobClose", "blobSize", "blobResize", "blobIsValid", "blobWipe", "blobCopy", "blobEq", "blobCmp"}
CREATE = {"blobCreate"}


def _callee(e):
    e = strip(e)
    if isinstance(e, dict) and e.get("k") == "Call":
        return e.get("callee")
    return None


def tracked_vars(func, summaries):
    """ids of variables that receive a blob somewhere in func"""
    out = {}
    pending_copies = []
    for n in walk(func.body):
        k = n.get("k")
        lhs = rhs = None
        if k == "Bin" and n["op"] == "=":
            lhs, rhs = strip(n["x"]), n["y"]
        elif k == "Decl" and n.get("init") is not None:
            lhs, rhs = {"k": "Ref", "id": n["id"], "n": n["n"], "rk": "local", "t": n.get("t")}, n["init"]
        if lhs is not None and lhs.get("k") == "Ref":
            c = _callee(rhs)
            if c in CREATE or c in ("blobResize", "blobCopy"):
                out[lhs["id"]] = (lhs["n"], lhs.get("rk", "local"))
        if lhs is not None and lhs.get("k") == "Ref" and rhs is not None:
            pending_copies.append((lhs, strip(rhs)))
        if k == "Call":
            s = summaries.get("creator", {}).get(n.get("callee"))
            if s is not None and s < len(n["a"]):
                a = strip(n["a"][s])
                if a.get("k") == "Un" and a["op"] == "&" and strip(a["e"]).get("k") == "Ref":
                    r = strip(a["e"])
                    out[r["id"]] = (r["n"], r.get("rk", "local"))
    # blob_t-typed variables that take over a blob from another tracked variable (v = t)
    changed = True
    while changed:
        changed = False
        for lhs, rhs in pending_copies:
            if lhs["id"] not in out and rhs.get("k") == "Ref" and rhs["id"] in out and \
                    (lhs.get("t") or "").replace("const ", "") == "blob_t":
                out[lhs["id"]] = (lhs["n"], lhs.get("rk", "local"))
                changed = True
    return out


class BlobClient(ir.Client):
    def __init__(self, func, summaries, param_live=None):
        self.func = func
        self.summ = summaries
        self.tracked = tracked_vars(func, summaries)
        self.param_live = param_live      # param id treated as a live blob on entry (closer summaries)
        if param_live is not None:
            p = [p for p in func.params if p["id"] == param_live][0]
            self.tracked[param_live] = (p["n"], "param")
        self.viol = {}        # key -> dict
        self.sites = {}       # creation sites seen: (line, var) -> callee
        self.returns = []     # (retclass, {var: state}, escaped_via, line)
        self.resize_sites = set()

    # ---- state helpers
    def init(self, func):
        b = {}
        if self.param_live is not None:
            b[self.param_live] = "L"
        return (tuple(sorted(b.items())), ())

    @staticmethod
    def _get(st):
        return dict(st[0]), dict(st[1])

    @staticmethod
    def _mk(b, d):
        return (tuple(sorted(b.items(), key=lambda x: x[0])), tuple(sorted(d.items())))

    def _v(self, rule, node, construct, detail, st=None, rc=None):
        key = (rule, construct, node.line)
        if key not in self.viol:
            self.viol[key] = dict(rule=rule, line=node.line, construct=construct, detail=detail, node=node, st=st, rc=rc)

    def _resolve(self, b, env):
        for v, s in list(b.items()):
            if isinstance(s, tuple) and s[0] == "IF":
                val = env.get(s[1])
                if val is not ir.TOP:
                    b[v] = "L" if val == ("c", 0) else "N0"
        return b

    # ---- scanning uses
    def _scan(self, e, ctx, out):
        if not isinstance(e, dict):
            return
        k = e.get("k")
        if k == "Ref":
            out.append((e, ctx))
            return
        if k == "Cast":
            self._scan(e["e"], ctx, out)
            return
        if k == "Bin" and e["op"] == "=":
            l = strip(e["x"])
            if l.get("k") == "Ref":
                out.append((l, "assigned"))
            else:
                self._scan(e["x"], "other", out)
            self._scan(e["y"], "rhs", out)
            return
        if k == "Bin" and e["op"] in ("==", "!="):
            if is_int(e["y"], 0):
                self._scan(e["x"], "nullcmp", out)
                return
            if is_int(e["x"], 0):
                self._scan(e["y"], "nullcmp", out)
                return
        if k == "Un" and e["op"] == "!":
            self._scan(e["e"], "nullcmp", out)
            return
        if k == "Un" and e["op"] == "&":
            self._scan(e["e"], "addr", out)
            return
        if k == "Call":
            c = e.get("callee")
            for i, a in enumerate(e["a"]):
                if c in BLOB_API:
                    self._scan(a, "api:" + c, out)
                elif c in self.summ.get("closer", {}) and i == self.summ["closer"][c]:
                    self._scan(a, "api:closer", out)
                elif c == "utilAssert":
                    pass        # ASSERT arguments are not executed in release builds
                else:
                    self._scan(a, "other", out)
            if e.get("fn"):
                self._scan(e["fn"], "other", out)
            return
        for c in ir.kids(e):
            self._scan(c, "other" if ctx not in ("nullcmp",) or k not in ("Bin",) else "other", out)

    def _root_blob(self, e, b, d):
        r = root_ref(e)
        if r is None:
            return None
        if r["id"] in b or r["id"] in self.tracked:
            return r["id"]
        v = d.get(r["id"])
        return v[0] if v else None

    def _exact(self, e, d):
        """is e (after casts) the blob base itself or an exact alias of it?"""
        e = strip(e)
        if e.get("k") != "Ref":
            return False
        if e["id"] in self.tracked:
            return True
        v = d.get(e["id"])
        return bool(v and v[1])

    # ---- transfer
    def eval(self, e, st, env, node):
        b, d = self._get(st)
        b = self._resolve(b, env)
        # 1. uses
        uses = []
        self._scan(e, "nullcmp" if node.kind == "cond" and strip(e).get("k") == "Ref" else "top", uses)
        for r, ctx in uses:
            vid = r["id"]
            if vid in self.tracked:
                s = b.get(vid, "N0" if self.tracked[vid][1] != "global" else "L")
                if ctx in ("assigned", "nullcmp", "addr") or ctx.startswith("api:"):
                    if s == "C" and ctx.startswith("api:") and ctx not in ("api:blobClose", "api:closer"):
                        self._v("use-after-close", node, "%s after blobClose" % r["n"],
                                "%s is passed to %s after it was closed" % (r["n"], ctx[4:]))
                    continue
                if s == "U" or (isinstance(s, tuple) and s[0] in ("RU", "RS")):
                    self._v("unchecked-use", node, "%s used before null test" % r["n"],
                            "allocation result %s is used in `%s` before it is compared with 0" % (r["n"], show(e)[:70]))
                elif s in ("C", "M"):
                    self._v("use-after-close", node, "%s after blobClose" % r["n"],
                            "%s is used in `%s` after %s" % (r["n"], show(e)[:70], "blobClose" if s == "C" else "its block was moved by blobResize"))
                elif s == "NF":
                    self._v("null-use", node, "%s used on the allocation-failure path" % r["n"],
                            "%s is null here (allocation failed) and used in `%s`" % (r["n"], show(e)[:70]))
            elif vid in d and ctx != "assigned":
                root = d[vid][0]
                if b.get(root) == "C":
                    self._v("use-after-close", node, "%s (derived from %s) after blobClose" % (r["n"], self.tracked[root][0]),
                            "%s points into %s, which was closed, and is used in `%s`" % (r["n"], self.tracked[root][0], show(e)[:70]))
        # 2. effects in evaluation order (approximation: pre-order, assignments after their rhs)
        b, d = self._effects(e, b, d, env, node)
        return self._mk(b, d)

    def _effects(self, e, b, d, env, node):
        if not isinstance(e, dict):
            return b, d
        k = e.get("k")
        if k == "Bin" and e["op"] == "=":
            b, d = self._effects(e["y"], b, d, env, node)
            lhs = strip(e["x"])
            rhs = strip(e["y"])
            if lhs.get("k") == "Ref":
                vid = lhs["id"]
                c = _callee(rhs)
                if vid in self.tracked:
                    if c in CREATE:
                        old = b.get(vid)
                        if old in ("L", "U") and self.tracked[vid][1] != "global":
                            self._v("leak", node, "%s overwritten while live" % lhs["n"],
                                    "%s still owns a block when it is assigned a new blobCreate result" % lhs["n"])
                        b[vid] = "U"
                        self.sites[(node.line, lhs["n"])] = c
                    elif c in ("blobResize", "blobCopy"):
                        arg0 = strip(strip(rhs)["a"][0])
                        self.sites[(node.line, lhs["n"])] = c
                        self.resize_sites.add((node.line, lhs["n"], show(arg0)))
                        if arg0.get("k") == "Ref" and arg0["id"] == vid:
                            old = b.get(vid, "N0")
                            b[vid] = ("RU",) if old in ("L", "U") else "U"
                        elif arg0.get("k") == "Ref" and arg0["id"] in self.tracked and \
                                self.tracked[arg0["id"]][1] != "global":
                            # t = blobResize(v, ..): on success the block of v has moved into t
                            b[vid] = ("RS", arg0["id"])
                        else:
                            b[vid] = "U"
                    elif is_int(rhs, 0):
                        old = b.get(vid)
                        if old in ("L", "U") and self.tracked[vid][1] != "global":
                            self._v("leak", node, "%s zeroed while live" % lhs["n"],
                                    "%s is set to 0 while it still owns a block" % lhs["n"])
                        b[vid] = "N0"
                    else:
                        rb = self._root_blob(rhs, b, d)
                        if rb is not None and rb != vid and strip(rhs).get("k") == "Ref" and rb in self.tracked and \
                                strip(rhs)["id"] == rb:
                            # v = t : ownership moves from t to v
                            oldv = b.get(vid)
                            if oldv in ("L", "U") and self.tracked[vid][1] != "global":
                                self._v("leak", node, "%s overwritten while live" % lhs["n"],
                                        "%s still owns a block when it is assigned %s" % (lhs["n"], show(rhs)[:30]))
                            b[vid] = b.get(rb, "N0")
                            b[rb] = "M"
                        elif rb is not None and rb != vid:
                            # ownership moves to vid's name: treat as alias of root
                            d[vid] = (rb, self._exact(rhs, d))
                        elif rb is None:
                            old = b.get(vid)
                            if old in ("L", "U") and self.tracked[vid][1] != "global":
                                self._v("leak", node, "%s overwritten while live" % lhs["n"],
                                        "%s is overwritten by `%s` while it still owns a block" % (lhs["n"], show(rhs)[:50]))
                            b.pop(vid, None)
                            if self.tracked[vid][1] == "global":
                                b[vid] = "L"
                else:
                    rb = self._root_blob(rhs, b, d) if rhs.get("k") != "Call" else None
                    if rb is not None and lhs.get("rk") in ("local", "param"):
                        d[vid] = (rb, self._exact(rhs, d))
                    elif rb is not None and lhs.get("rk") in ("global", "static_local"):
                        b[rb] = "E"
                    else:
                        d.pop(vid, None)
            else:
                # store through pointer / member: escape if rhs derives from a blob
                rb = self._root_blob(rhs, b, d) if rhs.get("k") not in ("Call", "Int") else None
                lr = root_ref(lhs)
                if rb is not None and lhs.get("k") in ("Un", "Member", "Index") and lhs.get("p"):
                    # pointer-typed store into memory not owned by this frame
                    lroot_blob = self._root_blob(lhs, b, d)
                    if lroot_blob is None and lr is not None and lr.get("rk") in ("param", "global"):
                        b[rb] = "E"
                        self._escaped_via = lr.get("n")
                b, d = self._effects(lhs, b, d, env, node)
            return b, d
        if k == "Call":
            c = e.get("callee")
            for a in e["a"]:
                b, d = self._effects(a, b, d, env, node)
            if c == "blobClose" or (c in self.summ.get("closer", {})):
                idx = 0 if c == "blobClose" else self.summ["closer"][c]
                if idx < len(e["a"]):
                    r = strip(e["a"][idx])
                    rb = None
                    if r.get("k") == "Ref":
                        if r["id"] in self.tracked:
                            rb = r["id"]
                        elif r["id"] in d:
                            rb = d[r["id"]][0]
                            if not d[r["id"]][1]:
                                self._v("interior-close", node, "%s(%s): interior pointer of %s" % (c, r["n"], self.tracked[rb][0]),
                                        "%s points into the blob %s at a non-zero offset; %s reads the size header in front of "
                                        "its argument, so this frees/wipes the wrong address" % (r["n"], self.tracked[rb][0], c))
                    elif r.get("k") != "Int":
                        rb0 = self._root_blob(r, b, d)
                        if rb0 is not None:
                            rb = rb0
                            self._v("interior-close", node, "%s(%s): interior pointer of %s" % (c, show(r)[:30], self.tracked[rb][0]),
                                    "the argument is an offset into the blob %s, not its base" % self.tracked[rb][0])
                    if rb is not None:
                        if b.get(rb) == "C":
                            self._v("double-close", node, "%s closed twice" % self.tracked[rb][0],
                                    "%s is passed to %s a second time on this path" % (self.tracked[rb][0], c))
                        b[rb] = "C"
            s = self.summ.get("creator", {}).get(c)
            if s is not None and s < len(e["a"]):
                a = strip(e["a"][s])
                if a.get("k") == "Un" and a["op"] == "&" and strip(a["e"]).get("k") == "Ref":
                    r = strip(a["e"])
                    b[r["id"]] = ("PEND",)
                    self.sites[(node.line, r["n"])] = c
            return b, d
        if k == "Decl":
            return b, d
        for c in ir.kids(e):
            b, d = self._effects(c, b, d, env, node)
        return b, d

    def decl(self, dcl, st, env, node):
        if dcl.get("init") is None:
            return st
        asg = {"k": "Bin", "op": "=", "l": dcl.get("l"), "t": dcl.get("t"),
               "x": {"k": "Ref", "n": dcl["n"], "id": dcl["id"], "t": dcl.get("t"), "p": dcl.get("p"), "rk": "local",
                     "l": dcl.get("l")},
               "y": dcl["init"]}
        return self.eval(asg, st, env, node)

    def _bind_pending(self, e, b):
        """`code = creator(&v, ..)` : v is live iff code == ERR_OK"""
        e = strip(e)
        if e.get("k") == "Bin" and e["op"] == "=" and strip(e["x"]).get("k") == "Ref":
            rhs = strip(e["y"])
            if rhs.get("k") == "Call" and rhs.get("callee") in self.summ.get("creator", {}):
                for v, s in list(b.items()):
                    if s == ("PEND",):
                        b[v] = ("IF", strip(e["x"])["id"])

    def assume(self, c, pol, st, env, node):
        b, d = self._get(st)
        c = strip(c)
        # conditions of the form v, !v (handled by CFG), v == 0, v != 0, (v = f()) == 0
        target = None
        is_null = None
        if c.get("k") == "Bin" and c["op"] in ("==", "!=") and (is_int(c["y"], 0) or is_int(c["x"], 0)):
            side = c["x"] if is_int(c["y"], 0) else c["y"]
            side = strip(side)
            if side.get("k") == "Bin" and side["op"] == "=":
                side = strip(side["x"])
            if side.get("k") == "Ref":
                target = side["id"]
                is_null = pol if c["op"] == "==" else (not pol)
        elif c.get("k") == "Ref":
            target = c["id"]
            is_null = not pol
        elif c.get("k") == "Bin" and c["op"] == "=" and strip(c["x"]).get("k") == "Ref":
            target = strip(c["x"])["id"]
            is_null = not pol
        if target is not None:
            root = target if target in self.tracked else None
            if root is not None:
                s = b.get(root, "N0")
                if is_null:
                    if s == "L":
                        return None
                    if isinstance(s, tuple) and s[0] == "RU":
                        self._v("resize-loses-block", node, "%s = blobResize(%s, ..)" % (self.tracked[root][0], self.tracked[root][0]),
                                "when blobResize fails it returns 0 and the old block is still allocated, but its only "
                                "pointer %s has just been overwritten: the block is neither wiped nor freed" % self.tracked[root][0])
                        b[root] = "NF"
                    elif s == "U":
                        b[root] = "NF"
                    elif isinstance(s, tuple) and s[0] == "RS":
                        b[root] = "NF"
                    elif s in ("C", "E", "M"):
                        pass
                    else:
                        b[root] = s if s in ("N0", "NF") else "N0"
                else:
                    if s in ("N0", "NF"):
                        return None
                    if s == "U" or (isinstance(s, tuple) and s[0] in ("RU",)):
                        b[root] = "L"
                    elif isinstance(s, tuple) and s[0] == "RS":
                        b[root] = "L"
                        if b.get(s[1]) in ("L", "U"):
                            b[s[1]] = "M"
        b = self._resolve(b, ir.refine(c, pol, env))
        return self._mk(b, d)

    def ret(self, e, st, env, node):
        b, d = self._get(st)
        b = self._resolve(b, env)
        # returned blob escapes
        if e is not None:
            rb = self._root_blob(e, b, d) if strip(e).get("k") in ("Ref", "Cast") else None
            if rb is not None and b.get(rb) in ("L", "U"):
                b[rb] = "E"
        rv = ir.eval_abs(e, env) if e is not None else "void"
        if rv == "void":
            rc = "void"
        elif rv is ir.TOP:
            rc = "unknown"
        elif rv == ("c", 0):
            rc = "zero"
        else:
            rc = "nonzero"
        rett = self.func.ret.get("t")
        for v, s in b.items():
            name, rk = self.tracked.get(v, ("?", "local"))
            if rk == "global":
                if s == "NF" and ((rett == "err_t" and rc == "zero") or (rett == "bool_t" and rc == "nonzero")):
                    self._v("oom-reported-as-success", node, "%s allocation failed" % name,
                            "return reports success although the allocation of %s failed" % name)
                continue
            if s in ("L", "U") or (isinstance(s, tuple) and s[0] in ("RU", "PEND", "RS")):
                if v == self.param_live:
                    continue
                self._v("leak", node, "%s not closed" % name,
                        "return at line %d with %s still allocated (not passed to blobClose on this path)" % (node.line, name), st=(st, env), rc=rc)
            elif isinstance(s, tuple) and s[0] == "IF":
                self._v("leak", node, "%s not closed" % name,
                        "return at line %d: %s may be allocated (creator result not tested)" % (node.line, name), st=(st, env))
            elif s == "NF":
                ok = True
                if rett == "err_t" and rc == "zero":
                    ok = False
                if rett == "bool_t" and rc == "nonzero":
                    ok = False
                if not ok:
                    self._v("oom-reported-as-success", node, "%s allocation failed" % name,
                            "return reports success although the allocation of %s failed" % name, st=(st, env))
        self.returns.append((rc, dict(b), node.line))
        return self._mk(b, d)

    def eval_post(self, e, st):
        return st


def analyse(func, summaries, param_live=None):
    cl = BlobClient(func, summaries, param_live)
    if not cl.tracked or func.relfile == "src/core/blob.c":
        return cl, None
    # bind PEND -> IF needs the assignment context: wrap eval
    orig_eval = cl.eval

    def eval2(e, st, env, node):
        st2 = orig_eval(e, st, env, node)
        b, d = cl._get(st2)
        if any(s == ("PEND",) for s in b.values()):
            cl._bind_pending(e, b)
            # a creator called without storing its code: stays PEND (reported at return)
            st2 = cl._mk(b, d)
        return st2
    cl.eval = eval2
    res = ir.run_paths(func, cl)
    if res.truncated:
        raise AnalysisBroken("blob typestate: state space truncated in %s" % func.name)
    return cl, res


def compute_summaries(prog):
    """closer: callee name -> param index that is always passed to blobClose;
       creator: callee name -> index of the out-parameter that receives a live blob exactly on ERR_OK returns"""
    summ = {"closer": {}, "creator": {}}
    for rnd in range(2):
        for f in prog.all_funcs():
            if f.body is None:
                continue
            # closer candidates
            for i, p in enumerate(f.params):
                if not p.get("p"):
                    continue
                hit = False
                for c in ir.calls(f.body):
                    cn = c.get("callee")
                    idx = 0 if cn == "blobClose" else summ["closer"].get(cn)
                    if idx is not None and idx < len(c["a"]):
                        a = strip(c["a"][idx])
                        if a.get("k") == "Ref" and a["id"] == p["id"]:
                            hit = True
                if hit and f.name not in summ["closer"] and f.name not in BLOB_API:
                    cl, res = analyse(f, summ, param_live=p["id"])
                    if cl.returns and all(b.get(p["id"]) == "C" for rc, b, ln in cl.returns):
                        summ["closer"][f.name] = i
            # creator candidates: *param = <blob-derived>
            if f.name in summ["creator"] or f.ret.get("t") != "err_t":
                continue
            cands = [i for i, p in enumerate(f.params) if p.get("ct", "").count("*") >= 2]
            if not cands:
                continue
            if not tracked_vars(f, summ):
                continue
            cl, res = analyse(f, summ)
            if res is None:
                continue
            okret = [(rc, b) for rc, b, ln in cl.returns if rc == "zero"]
            failret = [(rc, b) for rc, b, ln in cl.returns if rc == "nonzero"]
            unk = [(rc, b) for rc, b, ln in cl.returns if rc not in ("zero", "nonzero")]
            if okret and not unk and all("E" in b.values() for rc, b in okret) and \
                    all("E" not in b.values() for rc, b in failret) and len(cands) == 1:
                summ["creator"][f.name] = cands[0]
    return summ
