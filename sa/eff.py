"""EFF: bottom-up effect summaries over the call graph.
Per function: the set of pointer-parameter indices it may write through, whether it may write a global /
file-scope object, and whether it performs an externally visible action (allocation, lock, I/O, exit)."""
from . import ir
from .ir import strip, walk, root_ref

IMPURE_EXTERNALS = {"malloc", "calloc", "realloc", "free", "pthread_mutex_lock", "pthread_mutex_unlock",
                    "pthread_mutex_init", "pthread_mutex_destroy", "abort", "exit", "atexit", "fopen", "fclose",
                    "fread", "fwrite", "printf", "fprintf", "nanosleep", "dlopen", "dlsym", "dlclose", "open", "read",
                    "close", "time", "clock_gettime", "getenv", "memset", "memcpy", "memmove"}
# libc routines that only read their arguments
PURE_EXTERNALS = {"memcmp", "strlen", "strcmp", "memchr", "strchr", "__builtin_expect"}
LIBC_WRITES = {"memset": [0], "memcpy": [0], "memmove": [0], "strcpy": [0]}


class Effects:
    def __init__(self, prog):
        self.prog = prog
        self.summ = {}      # (unit or None, name) -> dict(writes=set(idx), glob=bool, impure=bool)
        self._compute()

    def key(self, f):
        return (f.unit if f.static else None, f.name)

    def get(self, name, unit=None):
        f = self.prog.resolve(name, unit)
        if f is not None:
            return self.summ.get(self.key(f))
        return None

    def _local_aliases(self, f):
        """pointer locals -> set of origins {('param', i) | 'global' | 'local'} (flow-insensitive)"""
        pidx = {p["id"]: i for i, p in enumerate(f.params)}
        orig = {}
        changed = True
        assigns = []
        for n in walk(f.body):
            if n.get("k") == "Decl" and n.get("init") is not None and n.get("p"):
                assigns.append((n["id"], n["init"]))
            elif n.get("k") == "Bin" and n["op"] in ("=", "+=", "-="):
                l = strip(n["x"])
                if l.get("k") == "Ref" and l.get("rk") == "local" and l.get("p"):
                    assigns.append((l["id"], n["y"]))
            elif n.get("k") == "Call" and n.get("callee") != "utilAssert":
                # f(&v, .., buf, ..): the callee may leave in the local pointer v an address inside any buffer it was given
                # (derDec2(&v, &l, der, ..), derTLDec): v takes the origins of the other pointer arguments
                outs = []
                for a in n["a"]:
                    sa = strip(a)
                    if sa.get("k") == "Un" and sa["op"] == "&":
                        t = strip(sa["e"])
                        if t.get("k") == "Ref" and t.get("rk") == "local" and t.get("p"):
                            outs.append((t["id"], a))
                for vid, self_arg in outs:
                    for a in n["a"]:
                        if a is not self_arg and strip(a).get("k") != "Un":
                            assigns.append((vid, a))
        while changed:
            changed = False
            for vid, rhs in assigns:
                o = self._origins(rhs, pidx, orig)
                if not o <= orig.get(vid, set()):
                    orig[vid] = orig.get(vid, set()) | o
                    changed = True
        return pidx, orig

    def _origins(self, e, pidx, orig):
        e = strip(e)
        if not isinstance(e, dict):
            return set()
        k = e.get("k")
        if k == "Bin" and e["op"] == "=":
            return self._origins(e["y"], pidx, orig)
        if k == "Cond":
            return self._origins(e["x"], pidx, orig) | self._origins(e["y"], pidx, orig)
        if k == "Bin" and e["op"] == ",":
            return self._origins(e["y"], pidx, orig)
        r = root_ref(e)
        if r is None:
            if k == "Call":
                return {"unknown"}
            return set()
        if r["id"] in pidx:
            # a pointer parameter, or a member reached through one
            return {("param", pidx[r["id"]])}
        if r.get("rk") in ("global", "static_local"):
            return {"global"}
        if r.get("rk") == "local":
            if r.get("p") and r["id"] in orig:
                return set(orig[r["id"]])
            return {"local"}
        return set()

    def _compute(self):
        funcs = [f for f in self.prog.all_funcs(with_headers=True) if f.body is not None]
        for f in funcs:
            self.summ[self.key(f)] = dict(writes=set(), glob=False, impure=False, why={}, calls_param=set())
        info = {}
        for f in funcs:
            info[self.key(f)] = self._local_aliases(f)
        changed = True
        rounds = 0
        while changed and rounds < 30:
            changed = False
            rounds += 1
            for f in funcs:
                s = self.summ[self.key(f)]
                pidx, orig = info[self.key(f)]
                w, g, imp = set(s["writes"]), s["glob"], s["impure"]
                why = s["why"]

                def note_write(target_expr, line, what):
                    nonlocal g
                    for o in self._origins(target_expr, pidx, orig):
                        if isinstance(o, tuple):
                            if o[1] not in w:
                                w.add(o[1])
                                why.setdefault(("w", o[1]), "%s at line %s" % (what, line))
                        elif o in ("global",):
                            if not g:
                                g = True
                                why.setdefault("g", "%s at line %s" % (what, line))
                        elif o == "unknown":
                            pass

                for n in walk(f.body):
                    k = n.get("k")
                    if k == "Bin" and n["op"] in ir.ASSIGN_OPS:
                        l = strip(n["x"])
                        if l.get("k") == "Ref":
                            if l.get("rk") in ("global", "static_local"):
                                if not g:
                                    g = True
                                    why.setdefault("g", "assignment to %s at line %s" % (l["n"], n.get("l")))
                        else:
                            note_write(l, n.get("l"), "store `%s`" % ir.show(l)[:40])
                    elif k == "Un" and n["op"] in ("pre++", "pre--", "post++", "post--"):
                        l = strip(n["e"])
                        if l.get("k") == "Ref":
                            if l.get("rk") in ("global", "static_local") and not g:
                                g = True
                                why.setdefault("g", "update of %s at line %s" % (l["n"], n.get("l")))
                        else:
                            note_write(l, n.get("l"), "update `%s`" % ir.show(l)[:40])
                    elif k == "Asm":
                        imp = True
                        why.setdefault("i", "inline asm")
                    elif k == "Call":
                        cn = n.get("callee")
                        if cn == "utilAssert":
                            continue
                        callee = self.prog.resolve(cn, f.unit) if cn else None
                        if callee is not None and not n.get("indirect"):
                            cs = self.summ.get(self.key(callee))
                            if cs is None:
                                continue
                            if cs["glob"] and not g:
                                g = True
                                why.setdefault("g", "call %s at line %s" % (cn, n.get("l")))
                            if cs["impure"] and not imp:
                                imp = True
                                why.setdefault("i", "call %s at line %s" % (cn, n.get("l")))
                            for i in cs["writes"]:
                                if i < len(n["a"]):
                                    note_write(n["a"][i], n.get("l"), "call %s (writes parameter %d)" % (cn, i))
                            # callee invokes one of its function-pointer parameters: effects of the actual argument
                            for i in cs.get("calls_param", ()):
                                if i >= len(n["a"]):
                                    continue
                                a = strip(n["a"][i])
                                if ir.is_int(a, 0):
                                    continue
                                tgt = self.prog.resolve(a.get("n"), f.unit) if a.get("k") == "Ref" and a.get("rk") == "func" else None
                                if a.get("k") == "Ref" and a.get("rk") == "param" and a["id"] in pidx:
                                    if pidx[a["id"]] not in s["calls_param"]:
                                        s["calls_param"].add(pidx[a["id"]])
                                        changed = True
                                    continue
                                ts = self.summ.get(self.key(tgt)) if tgt is not None else None
                                if ts is None or ts["glob"] or ts["impure"] or ts["writes"]:
                                    if not imp:
                                        imp = True
                                        why.setdefault("i", "call %s invokes its callback argument %s at line %s" %
                                                       (cn, ir.show(a)[:30], n.get("l")))
                        else:
                            # no body: libc / builtin / indirect
                            if cn in PURE_EXTERNALS or (cn or "").startswith("__builtin_") and "sync" not in cn and \
                                    cn not in ("__builtin_memset", "__builtin_memcpy"):
                                continue
                            if cn in IMPURE_EXTERNALS or (cn or "").startswith("__sync") or (cn or "").startswith("pthread_"):
                                if cn in LIBC_WRITES:
                                    for i in LIBC_WRITES[cn]:
                                        if i < len(n["a"]):
                                            note_write(n["a"][i], n.get("l"), "call %s" % cn)
                                    continue
                                if not imp:
                                    imp = True
                                    why.setdefault("i", "call %s at line %s" % (cn, n.get("l")))
                                continue
                            proto = self.prog.protos.get(cn) if cn else None
                            if n.get("indirect") or proto is None:
                                # indirect call through a descriptor / function pointer: writes its non-const pointer args
                                for i, a in enumerate(n["a"]):
                                    sa = strip(a)
                                    if sa.get("p") and not sa.get("pc"):
                                        note_write(a, n.get("l"), "indirect call %s" % (cn or ir.show(n.get("fn"))[:20]))
                                fnref = strip(n["fn"]) if n.get("fn") is not None else None
                                if fnref is not None and fnref.get("k") == "Un" and fnref["op"] == "*":
                                    fnref = strip(fnref["e"])
                                if fnref is not None and fnref.get("k") == "Ref" and fnref.get("rk") == "param" and fnref["id"] in pidx:
                                    if pidx[fnref["id"]] not in s["calls_param"]:
                                        s["calls_param"].add(pidx[fnref["id"]])
                                        changed = True
                                    continue
                                if not n.get("indirect") and not imp:
                                    imp = True
                                    why.setdefault("i", "call through a function pointer at line %s" % n.get("l"))
                                continue
                            for i, p in enumerate(proto.params):
                                if p.get("p") and not p.get("pc") and i < len(n["a"]):
                                    note_write(n["a"][i], n.get("l"), "call %s" % cn)
                if w != s["writes"] or g != s["glob"] or imp != s["impure"]:
                    s["writes"], s["glob"], s["impure"] = w, g, imp
                    changed = True

    def is_pure_call(self, call, unit):
        """(pure?, reason)"""
        cn = call.get("callee")
        if cn is None or call.get("indirect"):
            return False, "indirect call"
        f = self.prog.resolve(cn, unit)
        if f is None:
            if cn in PURE_EXTERNALS or cn.startswith("__builtin_") and "sync" not in cn:
                return True, ""
            return False, "external function %s with unknown effects" % cn
        s = self.summ.get(self.key(f))
        if s is None:
            return False, "no summary for %s" % cn
        if s["glob"]:
            return False, "%s writes a global object (%s)" % (cn, s["why"].get("g"))
        if s["impure"]:
            return False, "%s %s" % (cn, s["why"].get("i"))
        if s["writes"]:
            i = sorted(s["writes"])[0]
            return False, "%s writes through its parameter %d (%s)" % (cn, i, s["why"].get(("w", i)))
        for i in s.get("calls_param", ()):
            if i < len(call["a"]):
                a = strip(call["a"][i])
                if ir.is_int(a, 0):
                    continue
                if a.get("k") == "Ref" and a.get("rk") == "func":
                    ok, why = self.is_pure_call({"callee": a["n"], "a": []}, unit)
                    if ok:
                        continue
                    return False, "%s invokes its callback %s: %s" % (cn, a["n"], why)
                return False, "%s invokes a callback whose identity is unknown here" % cn
        return True, ""
