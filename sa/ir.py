"""Program model over the JSON IR produced by astdump, expression helpers,
control-flow graph construction (short-circuit operators split into branch
edges) and a disjunctive path engine (sets of abstract states, no joins).
"""
import os, sys, json
from collections import defaultdict, deque
from . import frontend
from .frontend import AnalysisBroken, REPO


# --------------------------------------------------------------------------
# expressions

def kids(e):
    """direct sub-expressions / sub-statements of a node"""
    if not isinstance(e, dict):
        return
    k = e.get("k")
    for key in ("b", "i", "e", "x", "y", "c", "fn", "init", "then", "else", "body",
                "inc", "sub", "v", "v2", "s"):
        v = e.get(key)
        if isinstance(v, dict):
            yield v
        elif isinstance(v, list):
            for c in v:
                if isinstance(c, dict):
                    yield c
    for key in ("a", "d"):
        v = e.get(key)
        if isinstance(v, list):
            for c in v:
                if isinstance(c, dict):
                    yield c


def walk(e):
    """pre-order over all nodes"""
    if not isinstance(e, dict):
        return
    stack = [e]
    while stack:
        n = stack.pop()
        yield n
        ks = list(kids(n))
        ks.reverse()
        stack.extend(ks)


def strip(e):
    """remove explicit casts"""
    while isinstance(e, dict) and e.get("k") == "Cast":
        e = e["e"]
    return e


def is_int(e, v=None):
    e = strip(e)
    if not isinstance(e, dict) or e.get("k") != "Int":
        return False
    if v is None:
        return True
    try:
        return int(e["v"]) == v
    except (ValueError, TypeError):
        return False


def int_val(e):
    e = strip(e)
    if isinstance(e, dict) and e.get("k") == "Int":
        try:
            return int(e["v"])
        except (ValueError, TypeError):
            return None
    return None


def is_call(e, name=None):
    e = strip(e)
    if not isinstance(e, dict) or e.get("k") != "Call":
        return False
    if name is None:
        return True
    if isinstance(name, (set, frozenset, tuple, list)):
        return e.get("callee") in name
    return e.get("callee") == name


def calls(e):
    for n in walk(e):
        if n.get("k") == "Call":
            yield n


def show(e, depth=0):
    if e is None:
        return ""
    if not isinstance(e, dict):
        return str(e)
    k = e.get("k")
    if depth > 12:
        return "..."
    d = depth + 1
    if k == "Int":
        if e.get("n"):
            return e["n"]
        m = e.get("m")
        if m and m.isupper() and m not in ("ASSERT",) and not e.get("so") and e.get("mi") in (None, m):
            return m
        return str(e.get("v"))
    if k == "Str":
        return '"%s"' % (e.get("v") or "")[:20]
    if k == "Ref":
        return e["n"]
    if k == "Member":
        return "%s%s%s" % (show(e["b"], d), "->" if e.get("arrow") else ".", e["f"])
    if k == "Index":
        return "%s[%s]" % (show(e["b"], d), show(e["i"], d))
    if k == "Call":
        fn = e.get("callee") or "(%s)" % show(e.get("fn"), d)
        return "%s(%s)" % (fn, ", ".join(show(a, d) for a in e["a"]))
    if k == "Un":
        op = e["op"]
        if op.startswith("post"):
            return "%s%s" % (show(e["e"], d), op[4:])
        if op.startswith("pre"):
            return "%s%s" % (op[3:], show(e["e"], d))
        return "%s%s" % (op, show(e["e"], d))
    if k == "Bin":
        return "(%s %s %s)" % (show(e["x"], d), e["op"], show(e["y"], d))
    if k == "Cond":
        return "(%s ? %s : %s)" % (show(e["c"], d), show(e["x"], d), show(e["y"], d))
    if k == "Cast":
        return "(%s)%s" % (e.get("t"), show(e["e"], d))
    if k == "Decl":
        return "%s %s%s" % (e.get("t"), e["n"], (" = " + show(e["init"], d)) if e.get("init") else "")
    if k == "Return":
        return "return %s" % show(e.get("e"), d)
    if k == "InitList":
        return "{...}"
    return "<%s>" % k


def root_ref(e):
    """the Ref at the root of an lvalue / pointer expression, or None"""
    while isinstance(e, dict):
        k = e.get("k")
        if k == "Ref":
            return e
        if k in ("Member", "Index"):
            e = e["b"]
        elif k == "Cast":
            e = e["e"]
        elif k == "Un" and e["op"] in ("*", "&", "pre++", "pre--", "post++", "post--"):
            e = e["e"]
        elif k == "Bin" and e["op"] in ("+", "-"):
            x, y = e["x"], e["y"]
            if isinstance(x, dict) and x.get("p"):
                e = x
            elif isinstance(y, dict) and y.get("p"):
                e = y
            else:
                e = x
        elif k == "Bin" and e["op"] in ("=", "+=", "-="):
            e = e["x"]
        elif k == "Bin" and e["op"] == ",":
            e = e["y"]
        elif k == "Cond":
            return None
        else:
            return None
    return None


def access_path(e):
    """canonical string for simple lvalues: x, x->f, x->f->g, x.f; else None"""
    e = strip(e)
    if not isinstance(e, dict):
        return None
    k = e.get("k")
    if k == "Ref":
        return e["n"]
    if k == "Member":
        b = access_path(e["b"])
        if b is None:
            return None
        return "%s%s%s" % (b, "->" if e.get("arrow") else ".", e["f"])
    if k == "Un" and e["op"] == "*":
        b = access_path(e["e"])
        return None if b is None else "*" + b
    return None


ASSIGN_OPS = ("=", "+=", "-=", "*=", "/=", "%=", "<<=", ">>=", "&=", "|=", "^=")


def is_assign(e):
    return isinstance(e, dict) and e.get("k") == "Bin" and e["op"] in ASSIGN_OPS


# --------------------------------------------------------------------------
# program

class Func:
    def __init__(self, d, unit):
        self.d = d
        self.name = d["n"]
        self.unit = unit
        self.file = d["file"]
        self.line = d["l"]
        self.static = d.get("static", False)
        self.params = d["params"]
        self.ret = d["ret"]
        self.body = d.get("body")
        self.variadic = d.get("variadic", False)
        self.decls = d.get("decls", [])
        self._cfg = None

    @property
    def relfile(self):
        return os.path.relpath(self.file, REPO)

    @property
    def public(self):
        """declared in a header under include/"""
        return any("/include/bee2/" in x for x in self.decls)

    @property
    def public_header(self):
        for x in self.decls:
            if "/include/bee2/" in x:
                return x.rsplit(":", 1)[0]
        return None

    def cfg(self):
        if self._cfg is None:
            self._cfg = CFG(self)
        return self._cfg

    def __repr__(self):
        return "<Func %s %s:%d>" % (self.name, self.relfile, self.line)


def _name_indirect_calls(body):
    """calls through the ring / curve descriptors (the qrXxx / ecXxx macros) get the macro's name as callee;
    `indirect` and `fn` stay so that analyses that care can tell"""
    if body is None:
        return
    for n in walk(body):
        if n.get("k") == "Call" and "callee" not in n and n.get("fn") is not None:
            fn = strip(n["fn"])
            if fn.get("k") == "Un" and fn["op"] == "*":
                fn = strip(fn["e"])
            if fn.get("k") == "Member" and fn.get("rec") in ("qr_o", "ec_o"):
                pre = "qr" if fn["rec"] == "qr_o" else "ec"
                n["callee"] = pre + fn["f"][0].upper() + fn["f"][1:]
                n["indirect"] = fn["rec"]


PROGRAM_STATS = []


def _load_signatures():
    p = os.path.join(os.path.dirname(os.path.dirname(os.path.abspath(__file__))), "tables", "signatures.json")
    try:
        return json.load(open(p))
    except (OSError, ValueError):
        return {}


_FLIP = {"<": ">", ">": "<", "<=": ">=", ">=": "<=", "==": "==", "!=": "!="}


def _normalise_comparisons(body):
    """one spelling per comparison: a constant operand goes to the right (0 <= f(x)  ->  f(x) >= 0), otherwise `>`/`>=`
    are written as `<`/`<=` with the operands exchanged, and the operands of ==/!= are put in a fixed (textual) order.
    Rules and frozen tables then do not depend on which way round a maintainer wrote the test."""
    if body is None:
        return
    for n in walk(body):
        if n.get("k") != "Bin" or n.get("op") not in _FLIP:
            continue
        x, y = n.get("x"), n.get("y")
        if not isinstance(x, dict) or not isinstance(y, dict):
            continue
        cx, cy = int_val(x) is not None, int_val(y) is not None
        swap = False
        if cx != cy:
            swap = cx
        elif not cx:
            if n["op"] in (">", ">="):
                swap = True
            elif n["op"] in ("==", "!="):
                swap = show(x) > show(y)
        if swap:
            n["x"], n["y"], n["op"] = y, x, _FLIP[n["op"]]


def _const_arm(e):
    while isinstance(e, dict) and e.get("k") in ("Cast", "Paren"):
        e = e["e"]
    return isinstance(e, dict) and e.get("k") == "Int"


def _lower_flag_from_condition(s):
    """`code = c ? K1 : K2;` with constant arms (the `code = ok ? ERR_OK : E; ERR_CALL_HANDLE(code, ..)` spelling of
    `if (!ok) { ..; return E; }`) becomes `if (c) code = K1; else code = K2;`, so that the path engine branches on c
    and the later test of the flag is decided by its constant."""
    if isinstance(s, list):
        return [_lower_flag_from_condition(x) for x in s]
    if not isinstance(s, dict):
        return s
    k = s.get("k")
    if k == "Block":
        s["b"] = [_lower_flag_from_condition(x) for x in s.get("b", [])]
        return s
    if k in ("If", "For", "While", "Do", "Switch", "Label", "Case", "Default"):
        for f_ in ("then", "else", "body", "sub"):
            if isinstance(s.get(f_), dict):
                s[f_] = _lower_flag_from_condition(s[f_])
        return s
    if k == "Bin" and s.get("op") == "=":
        l, r = s.get("x"), s.get("y")
        while isinstance(r, dict) and r.get("k") in ("Cast", "Paren"):
            r = r["e"]
        if isinstance(l, dict) and l.get("k") == "Ref" and l.get("rk") in ("local", "param") and not l.get("p") and \
                isinstance(r, dict) and r.get("k") == "Cond" and _const_arm(r.get("x")) and _const_arm(r.get("y")):
            def asg(v):
                return {"k": "Bin", "op": "=", "l": s.get("l"), "t": s.get("t"), "x": dict(l), "y": v}
            return {"k": "If", "l": s.get("l"), "c": r["c"], "then": asg(r["x"]), "else": asg(r["y"])}
    return s


SIGNATURES = None       # name (or "file:name" for statics) -> reference parameter names; loaded on first use


def _normalise_params(fd, relfile):
    """rename the parameters of a function definition to the names they have on the reference tree (by position), in
    the parameter list and in every reference inside the body: rules are written with the reference names"""
    global SIGNATURES
    if SIGNATURES is None:
        SIGNATURES = _load_signatures()
    ref = SIGNATURES.get(fd["n"]) if not fd.get("static") else SIGNATURES.get("%s:%s" % (relfile, fd["n"]))
    ps = fd.get("params") or []
    if not ref or len(ref) != len(ps) or fd.get("body") is None:
        return
    ren = {p["id"]: r for p, r in zip(ps, ref) if p.get("n") != r and r}
    if not ren:
        return
    # a local that already has the reference name would be captured: leave such functions alone
    taken = {n.get("n") for n in walk(fd["body"]) if n.get("k") == "Decl"}
    if taken & set(ren.values()):
        return
    for p in ps:
        if p["id"] in ren:
            p["n"] = ren[p["id"]]
    for n in walk(fd["body"]):
        if n.get("k") == "Ref" and n.get("id") in ren and n.get("rk") == "param":
            n["n"] = ren[n["id"]]


class Program:
    """all units of one configuration"""

    def __init__(self, config="w64", units=None, extra_flags=None, tag=None):
        self.config = config
        paths = frontend.dump_units(config, units, extra_flags, tag)
        self.units = {}
        self.funcs = {}       # name -> Func (extern) ; statics under (unit, name)
        self.static_funcs = {}
        self.protos = {}
        self.records = {}
        self.enums = {}
        self.typedefs = {}
        self.globals = defaultdict(list)   # name -> [global dicts with unit]
        self.by_unit = defaultdict(list)
        for u, p in sorted(paths.items()):
            d = frontend.load_json(p)
            self.units[u] = d
            self._inline_new_helpers(d, u)
            for fd in d["functions"]:
                _name_indirect_calls(fd.get("body"))
                _normalise_params(fd, relpath(fd.get("file") or u))
                _normalise_comparisons(fd.get("body"))
                if fd.get("body") is not None:
                    fd["body"] = _lower_flag_from_condition(fd["body"])
                f = Func(fd, u)
                self.by_unit[u].append(f)
                if f.static or fd.get("inline"):
                    self.static_funcs[(u, f.name)] = f
                    # header-defined static inline: also reachable by name
                    self.funcs.setdefault(f.name, f)
                else:
                    if f.name in self.funcs and not self.funcs[f.name].static and \
                            self.funcs[f.name].unit != u and self.funcs[f.name].body:
                        pass
                    self.funcs[f.name] = f
            for pd in d["protos"]:
                self.protos.setdefault(pd["n"], Func(pd, u))
            for r in d["records"]:
                if "fields" in r:
                    self.records.setdefault(r["n"], r)
            for en in d["enums"]:
                self.enums.setdefault(en["n"], en)
            for td in d["typedefs"]:
                self.typedefs.setdefault(td["n"], td)
            for g in d["globals"]:
                g = dict(g)
                g["unit"] = u
                self.globals[g["n"]].append(g)
        PROGRAM_STATS.append({"configuration": tag or config, "units": len(self.units),
                              "functions_with_bodies": sum(1 for _ in self.all_funcs()),
                              "flags": " ".join(frontend.BASE_FLAGS[:1] + frontend.CONFIGS[config] + list(extra_flags or []))})

    def _inline_new_helpers(self, d, u):
        """static functions that the reference tree does not have (tables/signatures.json) are expanded at their call
        sites, so that a block moved into a new helper is still seen by the rules of the function it came from"""
        global SIGNATURES
        if SIGNATURES is None:
            SIGNATURES = _load_signatures()
        if not SIGNATURES:
            return
        from . import inline

        def known(fd):
            rel = relpath(fd.get("file") or u)
            return ("%s:%s" % (rel, fd["n"])) in SIGNATURES or fd["n"] in SIGNATURES
        n = inline.inline_unit([fd for fd in d["functions"] if (fd.get("file") or u) == u], known)
        if not hasattr(self, "new_helpers"):
            self.new_helpers = set()
        for nm in inline.LAST_CANDIDATES:
            self.new_helpers.add((u, nm))
        if n:
            self.inlined = getattr(self, "inlined", 0) + n

    def all_funcs(self, with_headers=False):
        """every function definition located in a .c unit (once)"""
        seen = set()
        for u in sorted(self.by_unit):
            for f in self.by_unit[u]:
                if not with_headers and f.file != u:
                    continue
                key = (f.file, f.name, f.line)
                if key in seen:
                    continue
                seen.add(key)
                yield f

    def resolve(self, name, unit=None):
        """Func with a body for a callee name as seen from `unit`"""
        if unit is not None:
            f = self.static_funcs.get((unit, name))
            if f is not None:
                return f
        f = self.funcs.get(name)
        if f is not None and f.body is not None:
            return f
        return None

    def proto(self, name, unit=None):
        f = self.resolve(name, unit)
        if f:
            return f
        return self.protos.get(name)


def relpath(p):
    try:
        return os.path.relpath(p, REPO)
    except ValueError:
        return p


# --------------------------------------------------------------------------
# CFG

class Node:
    __slots__ = ("id", "kind", "e", "succ", "line", "extra")

    def __init__(self, nid, kind, e=None, line=0):
        self.id = nid
        self.kind = kind        # entry, exit, eval, decl, cond, switch, return, nop
        self.e = e
        self.succ = []          # list of (label, node) ; label: None, True, False, ('case', v), 'default'
        self.line = line
        self.extra = None

    def __repr__(self):
        return "<N%d %s l%d %s>" % (self.id, self.kind, self.line, show(self.e)[:60] if self.e else "")


class CFG:
    """Atomic nodes:
       eval   - expression evaluated for its effects
       decl   - local declaration (with optional initialiser)
       cond   - atomic condition; successors labelled True / False
       switch - successors labelled ('case', v) / 'default'
       return - e may be None
    """

    def __init__(self, func):
        self.func = func
        self.nodes = []
        self.entry = self._new("entry", line=func.line)
        self.exit = self._new("exit", line=func.d.get("le", func.line))
        self.labels = {}
        self.pending_gotos = []
        self.unknown = []
        end = self._stmt(func.body, self.entry, None, None)
        if end is not None:
            # falling off the end: implicit return
            r = self._new("return", None, func.d.get("le", func.line))
            self._link(end, r)
            self._link(r, self.exit)
        for node, label in self.pending_gotos:
            tgt = self.labels.get(label)
            if tgt is None:
                raise AnalysisBroken("goto to unknown label %s in %s" % (label, func.name))
            self._link(node, tgt)

    def _new(self, kind, e=None, line=0):
        n = Node(len(self.nodes), kind, e, line)
        self.nodes.append(n)
        return n

    def _link(self, a, b, label=None):
        a.succ.append((label, b))

    # returns the node from which control continues (a 'nop' join) or None if unreachable
    def _stmt(self, s, cur, brk, cont):
        if cur is None:
            # unreachable code may still contain labels
            if s is None or not any(n.get("k") == "Label" for n in walk(s)):
                return None
            cur = self._new("nop")
        if s is None:
            return cur
        k = s.get("k")
        line = s.get("l", 0)
        if k == "Block":
            for c in s["b"]:
                cur = self._stmt(c, cur, brk, cont)
            return cur
        if k == "Decls":
            for d in s["d"]:
                n = self._new("decl", d, d.get("l", line))
                self._link(cur, n)
                cur = n
            return cur
        if k == "If":
            t = self._new("nop", line=line)
            f = self._new("nop", line=line)
            self._cond(s["c"], cur, t, f)
            te = self._stmt(s["then"], t, brk, cont)
            fe = self._stmt(s["else"], f, brk, cont) if s.get("else") else f
            if te is None and fe is None:
                return None
            j = self._new("nop", line=line)
            if te is not None:
                self._link(te, j)
            if fe is not None:
                self._link(fe, j)
            return j
        if k == "While":
            head = self._new("nop", line=line)
            self._link(cur, head)
            body = self._new("nop", line=line)
            out = self._new("nop", line=line)
            self._cond(s["c"], head, body, out)
            be = self._stmt(s["body"], body, out, head)
            if be is not None:
                self._link(be, head)
            return out
        if k == "Do":
            body = self._new("nop", line=line)
            self._link(cur, body)
            out = self._new("nop", line=line)
            test = self._new("nop", line=line)
            be = self._stmt(s["body"], body, out, test)
            if be is not None:
                self._link(be, test)
            self._cond(s["c"], test, body, out)
            return out
        if k == "For":
            if s.get("init"):
                cur = self._stmt(s["init"], cur, None, None)
            head = self._new("nop", line=line)
            self._link(cur, head)
            body = self._new("nop", line=line)
            out = self._new("nop", line=line)
            inc = self._new("nop", line=line)
            if s.get("c"):
                self._cond(s["c"], head, body, out)
            else:
                self._link(head, body)
            be = self._stmt(s["body"], body, out, inc)
            if be is not None:
                self._link(be, inc)
            ie = inc
            if s.get("inc"):
                ie = self._expr_stmt(s["inc"], inc)
            self._link(ie, head)
            return out
        if k == "Switch":
            sw = self._new("switch", s["c"], line)
            self._link(cur, sw)
            out = self._new("nop", line=line)
            sw.extra = {"has_default": False}
            end = self._switch_body(s["body"], sw, out, cont)
            if end is not None:
                self._link(end, out)
            if not sw.extra["has_default"]:
                self._link(sw, out, "default")
            return out
        if k in ("Case", "Default"):
            raise AnalysisBroken("case label outside switch body in %s" % self.func.name)
        if k == "Break":
            if brk is None:
                raise AnalysisBroken("break outside loop in %s" % self.func.name)
            self._link(cur, brk)
            return None
        if k == "Continue":
            self._link(cur, cont)
            return None
        if k == "Return":
            e = s.get("e")
            # split conditions inside return (e.g. return a && b) are kept atomic
            n = self._new("return", e, line)
            self._link(cur, n)
            self._link(n, self.exit)
            return None
        if k == "Goto":
            n = self._new("nop", line=line)
            self._link(cur, n)
            self.pending_gotos.append((n, s["label"]))
            return None
        if k == "Label":
            n = self._new("nop", line=line)
            self.labels[s["label"]] = n
            self._link(cur, n)
            return self._stmt(s["sub"], n, brk, cont)
        if k == "Null":
            return cur
        if k == "Asm":
            n = self._new("eval", s, line)
            self._link(cur, n)
            return n
        if k in ("UnknownStmt",):
            self.unknown.append(s)
            return cur
        # expression statement
        return self._expr_stmt(s, cur)

    def _switch_body(self, body, sw, out, cont):
        """body is normally a Block whose items contain Case/Default labels"""
        cur = None
        items = body["b"] if body.get("k") == "Block" else [body]
        for it in items:
            cur = self._switch_item(it, sw, cur, out, cont)
        return cur

    def _switch_item(self, it, sw, cur, out, cont):
        k = it.get("k")
        if k in ("Case", "Default"):
            n = self._new("nop", line=it.get("l", 0))
            if cur is not None:
                self._link(cur, n)   # fall-through
            if k == "Case":
                self._link(sw, n, ("case", int_val(it["v"]), it["v"].get("n")))
            else:
                self._link(sw, n, "default")
                sw.extra["has_default"] = True
            sub = it.get("sub")
            if sub is None:
                return n
            return self._switch_item(sub, sw, n, out, cont)
        return self._stmt(it, cur, out, cont)

    def _expr_stmt(self, e, cur):
        k = e.get("k")
        if k == "Bin" and e["op"] == ",":
            cur = self._expr_stmt(e["x"], cur)
            return self._expr_stmt(e["y"], cur)
        if k == "Bin" and e["op"] in ("&&", "||"):
            # used for effect: a && b;
            t = self._new("nop", line=e.get("l", 0))
            f = self._new("nop", line=e.get("l", 0))
            self._cond(e, cur, t, f)
            j = self._new("nop", line=e.get("l", 0))
            self._link(t, j)
            self._link(f, j)
            return j
        if k == "Cond" and not e.get("p"):
            # c ? a : b used as a statement or for its value: split when used as statement
            pass
        n = self._new("eval", e, e.get("l", 0))
        self._link(cur, n)
        return n

    def _cond(self, c, cur, t, f):
        """emit branching on c starting after `cur`"""
        c0 = c
        c = strip(c) if c.get("k") == "Cast" and (c.get("t") in ("bool_t", "int", "_Bool")) else c
        k = c.get("k")
        if k == "Un" and c["op"] == "!":
            return self._cond(c["e"], cur, f, t)
        if k == "Bin" and c["op"] == "&&":
            mid = self._new("nop", line=c.get("l", 0))
            self._cond(c["x"], cur, mid, f)
            self._cond(c["y"], mid, t, f)
            return
        if k == "Bin" and c["op"] == "||":
            mid = self._new("nop", line=c.get("l", 0))
            self._cond(c["x"], cur, t, mid)
            self._cond(c["y"], mid, t, f)
            return
        if k == "Bin" and c["op"] == ",":
            cur = self._expr_stmt(c["x"], cur)
            return self._cond(c["y"], cur, t, f)
        if k == "Int":
            v = int_val(c)
            self._link(cur, t if v else f)
            return
        if k == "Cond":
            # a ? b : c as a condition
            tb = self._new("nop", line=c.get("l", 0))
            fb = self._new("nop", line=c.get("l", 0))
            self._cond(c["c"], cur, tb, fb)
            self._cond(c["x"], tb, t, f)
            self._cond(c["y"], fb, t, f)
            return
        n = self._new("cond", c, c.get("l", 0))
        self._link(cur, n)
        self._link(n, t, True)
        self._link(n, f, False)

    def preds(self):
        p = defaultdict(list)
        for n in self.nodes:
            for lab, s in n.succ:
                p[s.id].append((lab, n))
        return p


# --------------------------------------------------------------------------
# scalar environment: constant / zero-ness abstraction of err_t / bool_t / int locals

TOP = None


def _scalar_tracked(t, node=None):
    if node is not None and node.get("p"):
        return True
    return t in ("err_t", "bool_t", "int", "size_t", "unsigned int", "u32", "unsigned long")


class Env:
    """immutable map var id -> ('c', value) | ('nz',)"""
    __slots__ = ("m",)

    def __init__(self, m=()):
        # keys: variable ids, or "m:<access path>" for a struct field a client has established a fact about
        self.m = m if isinstance(m, tuple) else tuple(sorted(m.items(), key=lambda kv: (isinstance(kv[0], str), kv[0])))

    def get(self, vid):
        for k, v in self.m:
            if k == vid:
                return v
        return TOP

    def set(self, vid, val):
        d = dict(self.m)
        if val is TOP:
            d.pop(vid, None)
        else:
            d[vid] = val
        return Env(d)

    def __hash__(self):
        return hash(self.m)

    def __eq__(self, o):
        return self.m == o.m

    def __repr__(self):
        return "Env%r" % (self.m,)


def eval_abs(e, env):
    """abstract value of an expression: ('c', v) | ('nz',) | TOP"""
    e = strip(e)
    if not isinstance(e, dict):
        return TOP
    k = e.get("k")
    if k == "Int":
        v = int_val(e)
        return ("c", v) if v is not None else TOP
    if k == "Ref" and e.get("rk") in ("local", "param"):
        return env.get(e["id"])
    if k == "Bin" and e["op"] == "=":
        return eval_abs(e["y"], env)
    if k == "Bin" and e["op"] == ",":
        return eval_abs(e["y"], env)
    if k == "Member" and env.m and isinstance(env.m[-1][0], str):
        ap = access_path(e)
        if ap:
            return env.get("m:" + ap)
    return TOP


def truth(v):
    if v is TOP:
        return None
    if v[0] == "c":
        return v[1] != 0
    if v[0] == "nz":
        return True
    return None


def cond_truth(c, env):
    """decide an atomic condition from env if possible: True / False / None"""
    c = strip(c)
    k = c.get("k")
    if k == "Bin" and c["op"] in ("==", "!="):
        a = eval_abs(c["x"], env)
        b = eval_abs(c["y"], env)
        r = None
        if a is not TOP and b is not TOP:
            if a[0] == "c" and b[0] == "c":
                r = a[1] == b[1]
            elif a[0] == "nz" and b == ("c", 0):
                r = False
            elif b[0] == "nz" and a == ("c", 0):
                r = False
        if r is None:
            return None
        return r if c["op"] == "==" else not r
    if k == "Bin" and c["op"] in ("<", "<=", ">", ">="):
        a = eval_abs(c["x"], env)
        b = eval_abs(c["y"], env)
        if a is not TOP and b is not TOP and a[0] == "c" and b[0] == "c" and a[1] >= 0 and b[1] >= 0:
            return {"<": a[1] < b[1], "<=": a[1] <= b[1], ">": a[1] > b[1], ">=": a[1] >= b[1]}[c["op"]]
        return None
    return truth(eval_abs(c, env))


def refine(c, pol, env):
    """env after assuming atomic condition c has truth value pol"""
    c = strip(c)
    k = c.get("k")
    if k == "Ref" and c.get("rk") in ("local", "param") and _scalar_tracked(c.get("t"), c):
        return env.set(c["id"], ("nz",) if pol else ("c", 0)) if (pol is False or env.get(c["id"]) is TOP) else env
    if k == "Bin" and c["op"] in ("==", "!="):
        eq = pol if c["op"] == "==" else not pol
        x, y = strip(c["x"]), strip(c["y"])
        for a, b in ((x, y), (y, x)):
            if a.get("k") == "Ref" and a.get("rk") in ("local", "param") and _scalar_tracked(a.get("t"), a):
                bv = eval_abs(b, env)
                if bv is not TOP and bv[0] == "c":
                    if eq:
                        return env.set(a["id"], bv)
                    if bv[1] == 0 and env.get(a["id"]) is TOP:
                        return env.set(a["id"], ("nz",))
            # (x = call()) == const
            if a.get("k") == "Bin" and a["op"] == "=" :
                l = strip(a["x"])
                if l.get("k") == "Ref" and l.get("rk") in ("local", "param") and _scalar_tracked(l.get("t")):
                    bv = eval_abs(b, env)
                    if bv is not TOP and bv[0] == "c":
                        if eq:
                            return env.set(l["id"], bv)
                        if bv[1] == 0:
                            return env.set(l["id"], ("nz",))
    return env


def assigned_vars(e):
    """(Ref node, rhs or None, op) for each assignment/incdec on a plain variable inside e"""
    for n in walk(e):
        k = n.get("k")
        if k == "Bin" and n["op"] in ASSIGN_OPS:
            l = strip(n["x"])
            if l.get("k") == "Ref":
                yield l, (n["y"] if n["op"] == "=" else None), n["op"]
        elif k == "Un" and n["op"] in ("pre++", "pre--", "post++", "post--"):
            l = strip(n["e"])
            if l.get("k") == "Ref":
                yield l, None, n["op"]
        elif k == "Un" and n["op"] == "&":
            l = strip(n["e"])
            if l.get("k") == "Ref" and l.get("rk") in ("local", "param"):
                # address taken: value may change behind our back
                yield l, None, "&"


def _drop_member_facts(e, env):
    """field facts ("m:..." keys, created only by a client's env_refine) do not survive a store through a pointer or a
    member, nor a call that receives a pointer it may write through (aliases are not tracked, so all of them go)"""
    if not (env.m and isinstance(env.m[-1][0], str)):
        return env
    kill = False
    for n in walk(e):
        k = n.get("k")
        if k == "Bin" and n["op"] in ASSIGN_OPS and strip(n["x"]).get("k") != "Ref":
            kill = True
        elif k == "Un" and n["op"] in ("pre++", "pre--", "post++", "post--") and strip(n["e"]).get("k") != "Ref":
            kill = True
        elif k == "Call" and n.get("callee") != "utilAssert":
            for a in n["a"]:
                sa = strip(a)
                if sa.get("p") and not sa.get("pc") and int_val(sa) is None:
                    kill = True
    if kill:
        return Env({k_: v for k_, v in env.m if not isinstance(k_, str)})
    return env


def env_after_eval(e, env):
    """update env for the side effects of evaluating e"""
    env = _drop_member_facts(e, env)
    for l, rhs, op in assigned_vars(e):
        if l.get("rk") not in ("local", "param"):
            continue
        if op == "=" and rhs is not None and _scalar_tracked(l.get("t"), l):
            env = env.set(l["id"], eval_abs(rhs, env))
        else:
            env = env.set(l["id"], TOP)
    return env


# --------------------------------------------------------------------------
# path engine

class Client:
    """Override what is needed.  Client states must be hashable."""

    def init(self, func):
        return ()

    def eval(self, e, st, env, node):
        """effects of evaluating expression e (no branching); return new state"""
        return st

    def decl(self, d, st, env, node):
        if d.get("init") is not None:
            return self.eval({"k": "Bin", "op": "=", "x": {"k": "Ref", "n": d["n"], "id": d["id"], "t": d.get("t"),
                                                        "p": d.get("p"), "rk": "local", "l": d.get("l")},
                              "y": d["init"], "l": d.get("l"), "t": d.get("t")}, st, env, node)
        return st

    def assume(self, c, pol, st, env, node):
        """state after condition c evaluated to pol; None = infeasible.  The
        engine has already applied eval(c)."""
        return st

    def ret(self, e, st, env, node):
        """called at each return; e may be None"""
        return st

    def at_exit(self, st, env, node):
        pass


class PathResult:
    def __init__(self):
        self.states_at = defaultdict(set)
        self.parent = {}
        self.steps = 0
        self.truncated = False


def run_paths(func, client, max_states=200000, init_env=None):
    cfg = func.cfg()
    res = PathResult()
    st0 = (client.init(func), init_env or Env())
    work = deque()
    start = (cfg.entry.id, st0)
    res.states_at[cfg.entry.id].add(st0)
    res.parent[start] = None
    work.append(start)
    nodes = cfg.nodes
    while work:
        nid, (cs, env) = work.popleft()
        node = nodes[nid]
        res.steps += 1
        if res.steps > max_states:
            res.truncated = True
            break
        outs = []   # (succ node, cs, env)
        kind = node.kind
        if kind in ("entry", "nop"):
            for lab, s in node.succ:
                outs.append((s, cs, env))
        elif kind == "eval":
            cs2 = client.eval(node.e, cs, env, node)
            env2 = env_after_eval(node.e, env)
            for lab, s in node.succ:
                outs.append((s, cs2, env2))
        elif kind == "decl":
            d = node.e
            cs2 = client.decl(d, cs, env, node)
            env2 = env
            if d.get("init") is not None:
                env2 = env_after_eval(d["init"], env)
                if _scalar_tracked(d.get("t"), d):
                    env2 = env2.set(d["id"], eval_abs(d["init"], env2))
            for lab, s in node.succ:
                outs.append((s, cs2, env2))
        elif kind == "cond":
            c = node.e
            cs1 = client.eval(c, cs, env, node)
            env1 = env_after_eval(c, env)
            known = cond_truth(c, env1)
            for lab, s in node.succ:
                if known is not None and lab != known:
                    continue
                cs2 = client.assume(c, lab, cs1, env1, node)
                if cs2 is None:
                    continue
                env2 = refine(c, lab, env1)
                if hasattr(client, "env_refine"):
                    env2 = client.env_refine(c, lab, cs1, env1, env2)
                outs.append((s, cs2, env2))
        elif kind == "switch":
            c = node.e
            cs1 = client.eval(c, cs, env, node)
            env1 = env_after_eval(c, env)
            v = eval_abs(c, env1)
            for lab, s in node.succ:
                if v is not TOP and v[0] == "c":
                    if lab == "default":
                        if any(l != "default" and l[1] == v[1] for l, _ in node.succ):
                            continue
                    elif lab[1] != v[1]:
                        continue
                outs.append((s, cs1, env1))
        elif kind == "return":
            cs2 = cs
            env2 = env
            if node.e is not None:
                cs2 = client.eval(node.e, cs, env, node)
                env2 = env_after_eval(node.e, env)
            cs2 = client.ret(node.e, cs2, env2, node)
            for lab, s in node.succ:
                outs.append((s, cs2, env2))
        elif kind == "exit":
            client.at_exit(cs, env, node)
        for s, cs2, env2 in outs:
            if cs2 is None:
                continue
            key = (cs2, env2)
            if key in res.states_at[s.id]:
                continue
            res.states_at[s.id].add(key)
            nk = (s.id, key)
            res.parent[nk] = (nid, (cs, env))
            work.append(nk)
    return res


def path_to(res, cfg, nid, state):
    """list of (line, text) branch decisions from entry to (nid, state)"""
    out = []
    cur = (nid, state)
    seen = set()
    while cur is not None and cur not in seen:
        seen.add(cur)
        par = res.parent.get(cur)
        if par is None:
            break
        pn = cfg.nodes[par[0]]
        if pn.kind == "cond":
            # which label led here?
            lab = None
            for l, s in pn.succ:
                if s.id == cur[0]:
                    lab = l
            out.append("%d: %s is %s" % (pn.line, show(pn.e)[:80], lab))
        elif pn.kind == "switch":
            for l, s in pn.succ:
                if s.id == cur[0]:
                    out.append("%d: switch %s -> %s" % (pn.line, show(pn.e)[:40], l))
                    break
        cur = par
    out.reverse()
    return out
