"""C02: bign soundness/completeness -- structural necessary conditions (validation presence).
R02.1 sampling modulus is the group order; R02.2 private-key range before use; R02.3 operands of modular routines are
reduced (callee's own ASSERTs are the specification); R02.4 points decoded from caller octets are validated before EC
arithmetic; R02.5 verifiers/unwrap accept only after the comparing call accepted."""
from . import ir, vp, vprules
from .vprules import T, F, OK, FACT, CMP, ANY
from .ir import AnalysisBroken
from .report import Result, COMMON_ASSUMPTIONS

FILES = {"src/crypto/bign/bign_sign.c", "src/crypto/bign/bign_misc.c", "src/crypto/bign/bign_keyt.c",
         "src/crypto/bign/bign_ibs.c"}

# points used with public scalars only (signature verification) or with an ephemeral scalar and a key chosen by the caller
POINT_LEVELS = {
    ("bignVerify", "state+state->keep"): ("field", "signature verification: public scalars only"),
    ("bignIdVerify", "state+state->keep"): ("field", "signature verification: public scalars only"),
    ("bignIdVerify", "state+state->keep+(2*n)"): ("field", "signature verification: public scalars only"),
    ("bignIdExtract", "state+state->keep"): ("field", "verification of the identity signature: public scalars only"),
    ("bignKeyWrap", "state+state->keep+n"): ("field", "ephemeral scalar k, recipient key supplied by the caller (standard does not require the test)"),
}
ALTERNATIVES = {"bignKeyUnwrap": "wwEq("}   # x-only decompression: y^2 == x^3+ax+b recomputed and compared


def header_matches_for(name, recovered=None):
    def header_matches(fs):
        """the accepted comparison is the one the caller's header argument (`name`) selects: a non-null header was
        compared (memEq(header, ..) accepted); the all-zero test stands in only for header == 0.  What is compared is
        the header recovered from the token (`recovered`: the second argument of the wide-block decryption step)."""
        null = ("cmp", False, name) in fs or ("cmp", True, "(%s==0)" % name) in fs
        if recovered is None:
            eq = any(x[0] == "T" and x[1].startswith("memEq(%s," % name) for x in fs)
            zero = any(x[0] == "T" and x[1].startswith("memIsZero(") for x in fs)
        else:
            eq = any(x[0] == "T" and (x[1].startswith("memEq(%s,%s," % (name, recovered)) or
                                      x[1].startswith("memEq(%s,%s," % (recovered, name))) for x in fs)
            zero = any(x[0] == "T" and x[1].startswith("memIsZero(%s," % recovered) for x in fs)
        return zero if null else eq
    return header_matches


def recovered_header(f):
    """canonical name of the buffer the token's header half is decrypted into"""
    from . import vp
    cn = vp.Canon(f)
    for c in ir.calls(f.body):
        if c.get("callee") in ("beltWBLStepD2", "beltKWPStepD2") and len(c["a"]) >= 2:
            return cn(c["a"][1])
    return None


def run(tier, seed=0):
    res = Result("C02", "other", tier)
    prog = ir.Program("w64")
    n1 = vprules.check_sampling(prog, res, "R02.1-sampling-modulus", FILES)
    n2 = vprules.check_privkey_range(prog, res, "R02.2-private-key-range", FILES)
    n3 = vprules.check_modular_operands(prog, res, "R02.3-modular-operands-reduced", FILES)
    n4 = vprules.check_points(prog, res, "R02.4-points-validated", FILES, POINT_LEVELS, ALTERNATIVES)
    # R02.5 acceptance
    vprules.check_must(prog, res, "R02.5-accept-only-verified", "bignVerify",
                       [("s1 < q", FACT("ltc", r"order$")), ("hash comparison beltHashStepV2", T("beltHashStepV2(")),
                        ("public key coordinates reduced (qrFrom x2)", lambda fs: sum(1 for x in fs if x[0] == "field") >= 2)])
    vprules.check_must(prog, res, "R02.5-accept-only-verified", "bignIdVerify",
                       [("s1 < q", FACT("ltc", r"order$")), ("hash comparison beltHashStepV2", T("beltHashStepV2(")),
                        ("public key coordinates reduced (qrFrom x4)", lambda fs: sum(1 for x in fs if x[0] == "field") >= 4)])
    ku = prog.funcs.get("bignKeyUnwrap")
    if ku is None or len(ku.params) < 6:
        raise AnalysisBroken("bignKeyUnwrap(key, params, token, len, header, privkey) vanished: the header-comparison obligation must be re-anchored")
    rec_hdr = recovered_header(ku)
    if rec_hdr is None:
        raise AnalysisBroken("bignKeyUnwrap: the wide-block decryption step (beltKWPStepD2) vanished")
    header_matches = header_matches_for(ku.params[4]["n"], rec_hdr)      # the header by position: a rename does not matter
    vprules.check_must(prog, res, "R02.5-accept-only-verified", "bignKeyUnwrap",
                       [("token length test", CMP(False, r"len<")), ("x coordinate reduced (qrFrom)", T("qrFrom(")),
                        ("curve membership y^2 == x^3+ax+b (wwEq)", T("wwEq(")),
                        ("header comparison", ANY(T("memEq("), T("memIsZero("))),
                        ("header comparison matches the header argument (memEq with a given header, memIsZero only "
                         "when header == 0)", header_matches)])
    vprules.check_must(prog, res, "R02.5-accept-only-verified", "bignKeypairVal",
                       [("0 < d", FACT("nz", r".")), ("d < q", FACT("lt", r".")), ("Q == dG (memEq)", T("memEq("))])
    vprules.check_must(prog, res, "R02.5-accept-only-verified", "bignPubkeyVal",
                       [("coordinates reduced (qrFrom x2)", lambda fs: sum(1 for x in fs if x[0] == "field") >= 2),
                        ("on-curve test", ANY(FACT("oncurve", r"."), T("ecpIsOnA(")))])
    vprules.check_must(prog, res, "R02.5-accept-only-verified", "bignIdExtract",
                       [("s1 < q", FACT("ltc", r"order$")), ("hash comparison", ANY(T("beltHashStepV2("), T("memEq(")))])
    res.floor("sampling sites", n1, 4)
    res.floor("private-key loads", n2, 6)
    res.floor("modular call sites", n3, 12)
    res.floor("decoded points", n4, 6)
    res.coverage["explanation"] = (
        "Validation-presence analysis on all paths of the bign functions: facts (range tests accepted, reducing "
        "producers, qrFrom/ecpIsOnA accepted, comparing calls accepted) are collected along each path per canonical "
        "memory name; every secret scalar is sampled modulo ec->order, every loaded private key passes 0<d<q before "
        "use, every operand of a zz*Mod routine that asserts `operand < modulus` is provably reduced, every point "
        "decoded from caller octets is validated before EC arithmetic, and every success return of a verifier is "
        "dominated by its accepting comparisons. Numerical correctness of the equations is not decided.")
    res.assumptions = COMMON_ASSUMPTIONS + [
        "a value is 'reduced' if compared against the modulus with the failing arm leaving, produced by a zz*Mod/zzMod/zzRand*Mod/field operation with that modulus, or conditionally subtracted after x >= m (x < 2m by length)",
        "buffers are identified by their carve expression (single-assignment pointer locals are substituted); partially overlapping carves are not related",
        "point-validation levels per function are a frozen, reasoned table (verification with public scalars needs only reduced coordinates)",
    ]
    return res
