"""SD: stack-depth analyser (C07).  Resource-bound analysis of the scratch-stack convention:

  Need(F)(dims)     = what F's body carves from its `stack` argument plus the largest demand of any callee that is
                      handed the remaining stack (calls through a ring / curve descriptor demand that object's ->deep)
  Declared(F)(dims) = the value of the companion F_deep(dims)

Both are *size formulas* lifted from the AST by whitelisting evaluators and compared on a grid of dimensions.  No
bee2 code is compiled or run: the evaluators below interpret only integer expressions over dimensions."""
import re
from . import ir
from .ir import strip, walk, show, int_val, is_int, access_path, AnalysisBroken


class Undecided(Exception):
    pass


O_PER_W = 8

# data-dependent size functions: upper bounds by their length argument (formulas are monotone in each dimension)
SIZE_UPPER = {
    "wwOctetSize": lambda a: a[1] * O_PER_W, "wwWordSize": lambda a: a[1], "wwBitSize": lambda a: a[1] * O_PER_W * 8,
    "memNonZeroSize": lambda a: a[1], "wwLoZeroBits": lambda a: a[1] * O_PER_W * 8,
    "ppDeg": lambda a: a[1] * O_PER_W * 8, "gf2Deg": lambda a: 0,
}


class SizeEval:
    """interprets _deep/_keep style functions: integers in, integer out"""

    def __init__(self, prog, wordbits=64):
        self.prog = prog
        self.memo = {}
        self.depth = 0

    def call(self, name, args, unit=None):
        key = (name, tuple(args))
        if key in self.memo:
            return self.memo[key]
        if name == "utilMax" or name == "utilMin":
            vals = args[1:1 + args[0]]
            r = (max if name == "utilMax" else min)(vals) if vals else 0
            return r
        f = self.prog.resolve(name, unit)
        if f is None or f.body is None:
            raise Undecided("no body for size function %s" % name)
        if self.depth > 60:
            raise Undecided("size function recursion too deep at %s" % name)
        self.depth += 1
        try:
            env = {}
            for p, a in zip(f.params, args):
                env[p["id"]] = a
            env["@va"] = list(args[len(f.params):])      # the unnamed arguments of a variadic size function
            r = self._run(f, f.body, env)
        finally:
            self.depth -= 1
        if r is None:
            raise Undecided("%s: no return value" % name)
        self.memo[key] = r
        return r

    class _Ret(Exception):
        def __init__(self, v):
            self.v = v

    class _Brk(Exception):
        pass

    def _run(self, f, body, env):
        try:
            self._stmt(f, body, env)
        except SizeEval._Ret as r:
            return r.v
        return None

    def _stmt(self, f, s, env):
        if s is None:
            return
        k = s.get("k")
        if k == "Block":
            for c in s["b"]:
                self._stmt(f, c, env)
        elif k == "Decls":
            for d in s["d"]:
                if d.get("init") is not None:
                    env[d["id"]] = self.expr(f, d["init"], env)
        elif k == "Return":
            raise SizeEval._Ret(self.expr(f, s["e"], env) if s.get("e") is not None else 0)
        elif k == "If":
            if self.expr(f, s["c"], env):
                self._stmt(f, s["then"], env)
            elif s.get("else"):
                self._stmt(f, s["else"], env)
        elif k in ("For", "While"):
            if k == "For" and s.get("init"):
                self._stmt(f, s["init"], env)
            n = 0
            while (s.get("c") is None) or self.expr(f, s["c"], env):
                self._stmt(f, s["body"], env)
                if k == "For" and s.get("inc"):
                    self.expr(f, s["inc"], env)
                n += 1
                if n > 100000:
                    raise Undecided("size loop does not terminate in %s" % f.name)
        elif k == "Null":
            pass
        elif k == "Switch":
            v = self.expr(f, s["c"], env)
            items = s["body"]["b"] if s["body"].get("k") == "Block" else [s["body"]]
            flat = []
            for it in items:
                while it is not None and it.get("k") in ("Case", "Default"):
                    flat.append((("case", int_val(it["v"])) if it["k"] == "Case" else ("default",), None))
                    it = it.get("sub")
                if it is not None:
                    flat.append((None, it))
            start = None
            for i_, (lab, _) in enumerate(flat):
                if lab and lab[0] == "case" and lab[1] == v:
                    start = i_
                    break
            if start is None:
                for i_, (lab, _) in enumerate(flat):
                    if lab and lab[0] == "default":
                        start = i_
                        break
            if start is not None:
                try:
                    for lab, st_ in flat[start:]:
                        if st_ is not None:
                            self._stmt(f, st_, env)
                except SizeEval._Brk:
                    pass
        elif k == "Break":
            raise SizeEval._Brk()
        elif k in ("Do", "Goto", "Label", "Continue", "Asm"):
            raise Undecided("statement %s in size function %s" % (k, f.name))
        else:
            self.expr(f, s, env)

    def expr(self, f, e, env):
        e0 = e
        k = e.get("k")
        if k == "Int":
            v = int_val(e)
            if v is None:
                raise Undecided("huge literal")
            return v
        if k == "Cast":
            return self.expr(f, e["e"], env)
        if k == "Ref":
            if e.get("rk") == "func":
                return ("fn", e["n"])
            if e["id"] in env:
                return env[e["id"]]
            raise Undecided("unbound %s in %s" % (e["n"], f.name))
        if k == "Un":
            if e["op"] in ("pre++", "post++", "pre--", "post--"):
                l = strip(e["e"])
                old = self.expr(f, l, env)
                new = old + (1 if "++" in e["op"] else -1)
                env[l["id"]] = new
                return old if e["op"].startswith("post") else new
            v = self.expr(f, e["e"], env)
            if e["op"] == "!":
                return 0 if v else 1
            if e["op"] == "-":
                return -v
            raise Undecided("unary %s" % e["op"])
        if k == "Cond":
            return self.expr(f, e["x"], env) if self.expr(f, e["c"], env) else self.expr(f, e["y"], env)
        if k == "Bin":
            op = e["op"]
            if op in ir.ASSIGN_OPS:
                l = strip(e["x"])
                if l.get("k") != "Ref":
                    raise Undecided("store in size function")
                v = self.expr(f, e["y"], env)
                if op != "=":
                    cur = env[l["id"]]
                    v = {"+=": cur + v, "-=": cur - v, "*=": cur * v}.get(op)
                    if v is None:
                        raise Undecided("operator %s" % op)
                env[l["id"]] = v
                return v
            if op == "&&":
                return 1 if (self.expr(f, e["x"], env) and self.expr(f, e["y"], env)) else 0
            if op == "||":
                return 1 if (self.expr(f, e["x"], env) or self.expr(f, e["y"], env)) else 0
            if op == ",":
                self.expr(f, e["x"], env)
                return self.expr(f, e["y"], env)
            a, b = self.expr(f, e["x"], env), self.expr(f, e["y"], env)
            if isinstance(a, tuple) or isinstance(b, tuple):
                if op in ("==", "!="):
                    return 1 if ((a == b) == (op == "==")) else 0
                raise Undecided("arithmetic on a function value")
            if op in ("/", "%") and b == 0:
                raise Undecided("division by zero in size formula")
            tbl = {"+": lambda: a + b, "-": lambda: a - b, "*": lambda: a * b, "/": lambda: a // b, "%": lambda: a % b,
                   "<<": lambda: a << b, ">>": lambda: a >> b, "&": lambda: a & b, "|": lambda: a | b, "^": lambda: a ^ b,
                   "==": lambda: int(a == b), "!=": lambda: int(a != b), "<": lambda: int(a < b), "<=": lambda: int(a <= b),
                   ">": lambda: int(a > b), ">=": lambda: int(a >= b)}
            if op in tbl:
                r = tbl[op]()
                if r < 0 and op == "-":
                    raise Undecided("negative size (unsigned wrap) in %s" % f.name)
                return r
            raise Undecided("operator %s" % op)
        if k == "VAArg":
            if not env.get("@va"):
                raise Undecided("va_arg beyond the arguments supplied in %s" % f.name)
            return env["@va"].pop(0)
        if k == "Call" and e.get("callee") in ("__builtin_va_start", "__builtin_va_end", "__builtin_va_copy"):
            return 0
        if k == "Call":
            cn = e.get("callee")
            args = [self.expr(f, a, env) for a in e["a"]]
            if cn is None:
                fn = strip(e["fn"])
                if fn.get("k") == "Un" and fn["op"] == "*":
                    fn = strip(fn["e"])
                v = self.expr(f, fn, env) if fn.get("k") == "Ref" else None
                if isinstance(v, tuple) and v[0] == "fn":
                    return self.call(v[1], args, f.unit)
                if v == 0:
                    raise Undecided("call through a null callback")
                raise Undecided("indirect call in size function %s" % f.name)
            if cn == "utilAssert":
                return 0
            if cn in SIZE_UPPER:
                return SIZE_UPPER[cn](args)
            return self.call(cn, args, f.unit)
        raise Undecided("expression kind %s in size function %s" % (k, f.name))


ELEM = {"word": 8, "octet": 1, "void": 1, "u32": 4, "u16": 2, "u64": 8, "size_t": 8, "char": 1, "dword": 16, "int": 4,
        "unsigned char": 1, "unsigned long": 8, "unsigned int": 4}


# creators that build an object inside scratch memory: name -> (object arg, dims from args, atoms produced)
CREATORS = {
    # zmCreate(r, mod, no, stack)
    "zmCreate": lambda a: {"n": ("W_OF_O", a[2]), "no": a[2], "deep": ("call", "zmCreate_deep", [a[2]])},
    "zmCreatePlain": lambda a: {"n": ("W_OF_O", a[2]), "no": a[2], "deep": ("call", "zmCreatePlain_deep", [a[2]])},
    "zmCreateCrand": lambda a: {"n": ("W_OF_O", a[2]), "no": a[2], "deep": ("call", "zmCreateCrand_deep", [a[2]])},
    "zmCreateBarr": lambda a: {"n": ("W_OF_O", a[2]), "no": a[2], "deep": ("call", "zmCreateBarr_deep", [a[2]])},
    "zmCreateMont": lambda a: {"n": ("W_OF_O", a[2]), "no": a[2], "deep": ("call", "zmCreateMont_deep", [a[2]])},
    "zmMontCreate": lambda a: {"n": ("W_OF_O", a[2]), "no": a[2], "deep": ("call", "zmMontCreate_deep", [a[2]])},
    "gfpCreate": lambda a: {"n": ("W_OF_O", a[2]), "no": a[2], "deep": ("call", "gfpCreate_deep", [a[2]])},
}


def _copy_atoms(w, src, dst):
    for kk, v in list(w.atoms.items()):
        if kk.startswith(src + "->"):
            w.atoms[dst + kk[len(src):]] = v


def _mk_curve(deep_fn, keep_fn):
    def make(w, c):
        # ecXCreate(ec, f, A, B, stack): the curve object refers to the field object f
        ec, f = w.path_of(c["a"][0]), w.path_of(c["a"][1])
        if ec is None or f is None:
            return
        n = w.atoms.get(f + "->n")
        fd = w.atoms.get(f + "->deep")
        if n is None or fd is None:
            return
        _copy_atoms(w, f, ec + "->f")
        w.atoms[ec + "->d"] = 3
        w.atoms[ec + "->deep"] = w.ne.sizes.call(deep_fn, [n, fd], w.f.unit)
        w.atoms[ec + "->keep"] = w.ne.sizes.call(keep_fn, [n], w.f.unit)
    return make


def _obj_append(w, c):
    # objAppend(dest, src, i): src is copied behind dest and dest grows by its size
    d, s_ = w.path_of(c["a"][0]), w.path_of(c["a"][1])
    if d is None or s_ is None:
        return
    dk, sk = w.atoms.get(d + "->keep"), w.atoms.get(s_ + "->keep")
    if dk is not None and sk is not None:
        w.need = max(w.need, (w.pval(c["a"][0]) or 0) + dk + sk)
        w.atoms[d + "->keep"] = dk + sk


def _mk_field(keep_fn, deep_fn, byte_len_arg):
    def make(w, c):
        f = w.path_of(c["a"][0])
        if f is None:
            return
        no = w.ival(c["a"][byte_len_arg])
        w.atoms[f + "->no"] = no
        w.atoms[f + "->n"] = (no + O_PER_W - 1) // O_PER_W
        w.atoms[f + "->deep"] = w.ne.sizes.call(deep_fn, [no], w.f.unit)
        w.atoms[f + "->keep"] = w.ne.sizes.call(keep_fn, [no], w.f.unit)
    return make


# creators of objects laid out inside a state / block (walker-aware; the scratch-stack CREATORS above stay as they are)
OBJ_CREATORS = {
    "gfpCreate": _mk_field("gfpCreate_keep", "gfpCreate_deep", 2),
    "ecpCreateJ": _mk_curve("ecpCreateJ_deep", "ecpCreateJ_keep"),
    "ec2CreateLD": _mk_curve("ec2CreateLD_deep", "ec2CreateLD_keep"),
    "objAppend": _obj_append,
}


class NeedEval:
    def __init__(self, prog, sizes):
        self.prog = prog
        self.sizes = sizes
        self.memo = {}
        self.active = set()
        self.unmeasured = set()
        self.blob_sizes = {}
        self.exports = {}      # need() key -> atoms of the objects the callee left in its state (by offset)

    def elem_size(self, tstr):
        t = (tstr or "").replace("const ", "").replace("volatile ", "").replace("register ", "").strip()
        m = re.match(r"^(.*?)\s*\[\d*\]$", t)
        if m:
            t = m.group(1).strip() + " *"      # an array used as a pointer to its first element
        if not t.endswith("*"):
            return None
        base = t[:-1].strip()
        if base.endswith("*"):
            return 8
        if base in ELEM:
            return ELEM[base]
        r = self.prog.records.get(base)
        if r is not None and "size" in r:
            return r["size"]
        td = self.prog.typedefs.get(base)
        if td is not None:
            ct = td.get("ct", "")
            if ct in ELEM:
                return ELEM[ct]
            if td.get("rec") and td["rec"] in self.prog.records:
                return self.prog.records[td["rec"]].get("size")
        return None

    def record_of(self, tstr):
        """record description for a pointer-to-struct (or array-of-struct) type string, or None"""
        t = (tstr or "").replace("const ", "").replace("volatile ", "").replace("register ", "").strip()
        t = re.sub(r"\[\d*\]$", "", t).strip()
        if t.endswith("*"):
            t = t[:-1].strip()
        t = t.replace("struct ", "").strip()
        r = self.prog.records.get(t)
        if r is None:
            td = self.prog.typedefs.get(t)
            if td is not None and td.get("rec"):
                r = self.prog.records.get(td["rec"])
        return r

    def need(self, f, scal, atoms, base="stack"):
        """scal: param name -> int ; atoms: access path (relative to f's params) -> int.  returns bytes used beyond the
        base pointer: the parameter `stack` (scratch memory), the parameter `state`, or ("blob") the block the function
        itself obtains from blobCreate"""
        key = (f.name, f.unit if f.static else None, tuple(sorted(scal.items())), tuple(sorted(atoms.items())), base)
        if key in self.memo:
            return self.memo[key]
        if key in self.active:
            raise Undecided("recursion in %s" % f.name)
        if len(self.active) > 40:
            raise Undecided("call chain too deep at %s" % f.name)
        self.active.add(key)
        try:
            w = Walker(self, f, scal, atoms, base)
            r = w.run()
            if base == "blob":
                self.blob_sizes[key] = w.blob_size
            if base == "state":
                self.exports[key] = ({k_: v for k_, v in w.atoms.items() if k_.startswith("@")},
                                     {k_: v for k_, v in w.pfields.items() if k_.startswith("@")})
        finally:
            self.active.discard(key)
        self.memo[key] = r
        return r


class Walker:
    def __init__(self, ne, f, scal, atoms, base="stack"):
        self.ne, self.f = ne, f
        self.base = base
        self.blob_size = None      # base == "blob": (requested size | None, reason) of the first blobCreate
        self.prog = ne.prog
        self.atoms = {k_: v for k_, v in atoms.items() if not k_.startswith("P@")}
        self.ints = {}       # var id -> int
        self.ptrs = {}       # var id -> offset from the stack base (bytes)
        self.paths = {}      # pointer var id -> access path it aliases (for atoms), e.g. local f = ec->f
        self.high = 0
        self.need = 0
        self.trace = []
        self.stack_id = None
        self.imax = {}       # induction variable id -> greatest value inside the loop being walked
        # path of a pointer field in the state -> offset (from the base) of the object it was set to
        self.pfields = {k_[1:]: v for k_, v in atoms.items() if k_.startswith("P@")}
        self.fnvals = {}     # parameter id -> ("fn", name) for function-pointer parameters bound by the caller
        for p in f.params:
            if p["n"] == base and p.get("p") and base in ("stack", "state"):
                self.stack_id = p["id"]
                self.ptrs[p["id"]] = 0
            elif not p.get("p"):
                if p["n"] in scal:
                    self.ints[p["id"]] = scal[p["n"]]
            else:
                self.paths[p["id"]] = p["n"]

    # ---- integer expressions
    def path_of(self, e):
        e = strip(e)
        k = e.get("k")
        if k == "Ref":
            if self.base != "stack" and e["id"] in self.ptrs and e.get("p") and self.ptrs[e["id"]] is not None:
                return "@%d" % self.ptrs[e["id"]]      # an object in the state / block: named by its offset
            if e["id"] in self.paths:
                return self.paths[e["id"]]
            if e["id"] in self.ptrs and e["id"] != self.stack_id and e.get("p"):
                return e["n"]        # an object carved from the scratch stack: its fields are atoms under its name
            return None
        if self.base != "stack" and k in ("Bin", "Cast", "Un"):
            try:
                pv = self.pval(e)
            except Undecided:
                pv = None
            if pv is not None:
                return "@%d" % pv
        if k == "Member":
            if self.base != "stack" and e.get("p"):
                if "[" in (e.get("t") or ""):
                    try:
                        o = self.member_off(e)
                    except Undecided:
                        o = None
                    if o is not None:
                        return "@%d" % o          # an array member: the object laid over it is named by its offset
                else:
                    bp = self.path_of(e["b"])
                    if bp is not None:
                        key = "%s%s%s" % (bp, "->" if e.get("arrow") else ".", e["f"])
                        if key in self.pfields:
                            return "@%d" % self.pfields[key]      # a pointer field that was set to an object in the state
            b = self.path_of(e["b"])
            if b is None:
                return None
            p = "%s%s%s" % (b, "->" if e.get("arrow") else ".", e["f"])
            if self.base != "stack":
                p = p.replace("->hdr.", "->")       # objKeep(obj) reads ((obj_hdr_t*)obj)->keep == obj->hdr.keep
            return p
        return None

    def ival(self, e):
        e = strip(e)
        k = e.get("k")
        if k == "Int":
            v = int_val(e)
            if v is None:
                raise Undecided("huge literal")
            return v
        if k == "Ref":
            if e["id"] in self.ints:
                return self.ints[e["id"]]
            raise Undecided("value of `%s` unknown in %s" % (e["n"], self.f.name))
        if k == "Member":
            p = self.path_of(e)
            if p is not None and p in self.atoms:
                return self.atoms[p]
            raise Undecided("dimension `%s` unknown in %s" % (p or show(e), self.f.name))
        if k == "Cond":
            try:
                c = self.ival(e["c"])
            except Undecided:
                return max(self.ival(e["x"]), self.ival(e["y"]))
            return self.ival(e["x"]) if c else self.ival(e["y"])
        if k == "Un" and e["op"] == "!":
            return 0 if self.ival(e["e"]) else 1
        if k == "Bin":
            op = e["op"]
            if op == "=":
                return self.ival(e["y"])
            if op in ("&&", "||"):
                a = self.ival(e["x"])
                if op == "&&" and not a:
                    return 0
                if op == "||" and a:
                    return 1
                return 1 if self.ival(e["y"]) else 0
            if op == "+":
                # n + (undecidable comparison): the comparison contributes at most 1
                vals = []
                for side in (e["x"], e["y"]):
                    ss = strip(side)
                    try:
                        vals.append(self.ival(side))
                    except Undecided:
                        if ss.get("k") == "Bin" and ss["op"] in ("==", "!=", "<", "<=", ">", ">="):
                            vals.append(1)
                        else:
                            raise
                return vals[0] + vals[1]
            a, b = self.ival(e["x"]), self.ival(e["y"])
            if op in ("/", "%") and b == 0:
                raise Undecided("division by zero")
            tbl = {"+": lambda: a + b, "-": lambda: a - b, "*": lambda: a * b, "/": lambda: a // b, "%": lambda: a % b,
                   "<<": lambda: a << b, ">>": lambda: a >> b, "&": lambda: a & b, "|": lambda: a | b, "^": lambda: a ^ b,
                   "==": lambda: int(a == b), "!=": lambda: int(a != b), "<": lambda: int(a < b), "<=": lambda: int(a <= b),
                   ">": lambda: int(a > b), ">=": lambda: int(a >= b)}
            if op in tbl:
                return tbl[op]()
            raise Undecided("operator %s" % op)
        if k == "Call":
            cn = e.get("callee")
            if cn in SIZE_UPPER:
                return SIZE_UPPER[cn]([self._maybe(a) for a in e["a"]])
            if cn and not e.get("indirect"):
                g = self.prog.resolve(cn, self.f.unit)
                if g is not None and g.body is not None and (all(not p.get("p") for p in g.params) or g.ret.get("t") == "size_t"):
                    args = []
                    for p, a in zip(g.params, e["a"]):
                        sa = strip(a)
                        if sa.get("k") == "Ref" and sa.get("rk") == "func":
                            args.append(("fn", sa["n"]))       # a _deep callback handed to a _keep function
                        elif p.get("p"):
                            if int_val(sa) == 0:
                                args.append(0)
                            elif sa.get("k") == "Ref" and sa["id"] in self.fnvals:
                                args.append(self.fnvals[sa["id"]])
                            else:
                                raise Undecided("pointer argument of size function %s" % cn)
                        else:
                            args.append(self.ival(a))
                    for a in e["a"][len(g.params):]:      # unnamed arguments of a variadic size function (utilMax)
                        args.append(self.ival(a))
                    return self.ne.sizes.call(cn, args, self.f.unit)
            raise Undecided("value of call %s unknown" % (cn or "?"))
        raise Undecided("expression %s" % k)

    def _maybe(self, a):
        try:
            return self.ival(a)
        except Undecided:
            return 0

    # ---- pointer expressions rooted at the stack
    def pval(self, e):
        """byte offset from the stack base, or None if not stack-derived"""
        e0 = e
        e = strip(e)
        k = e.get("k")
        if k == "Ref":
            return self.ptrs.get(e["id"])
        if k == "Bin" and e["op"] in ("+", "-"):
            x, y = e["x"], e["y"]
            px = self.pval(x)
            if px is not None:
                es = self._esize(x)
                n = self.ival(y)
                return px + (n if e["op"] == "+" else -n) * es
            if e["op"] == "+":
                py = self.pval(y)
                if py is not None:
                    return py + self.ival(x) * self._esize(y)
            return None
        if k == "Bin" and e["op"] == "=":
            return self.pval(e["y"])
        if k == "Member" and e.get("p") and "[" not in (e.get("t") or "") and self.base != "stack":
            bp = self.path_of(e["b"])
            if bp is not None:
                key = "%s%s%s" % (bp, "->" if e.get("arrow") else ".", e["f"])
                if key in self.pfields:
                    return self.pfields[key]
        if k == "Member" and e.get("p") and "[" in (e.get("t") or ""):
            # an array field of a structure that lies in the tracked memory: st->block, st->stack (flexible)
            o = self.member_off(e)
            if o is not None:
                return o
        if k == "Un" and e["op"] == "&" and strip(e["e"]).get("k") == "Member":
            o = self.member_off(strip(e["e"]))
            if o is not None:
                return o
        if k == "Un" and e["op"] == "&" and strip(e["e"]).get("k") == "Index":
            ix = strip(e["e"])
            pb = self.pval(ix["b"])
            if pb is not None:
                return pb + self.ival(ix["i"]) * self._esize(ix["b"])
        if k == "Cond":
            a, b = self.pval(e["x"]), self.pval(e["y"])
            if a is not None and b is not None:
                return max(a, b)
        return None

    def _esize(self, pe):
        """element size of the pointer expression pe (after its casts)"""
        t = None
        n = pe
        while isinstance(n, dict):
            if n.get("k") == "Cast":
                t = n.get("t")
                break
            if n.get("t") and n.get("p"):
                t = n["t"]
                break
            break
        if t is None:
            t = strip(pe).get("t")
        es = self.ne.elem_size(t)
        if es is None:
            raise Undecided("element size of `%s` (%s) unknown" % (show(pe)[:30], t))
        return es

    # ---- statements
    class _Leave(Exception):
        """a return statement on a path whose guards were all decided: the rest of the body is not executed"""

    def run(self):
        try:
            self.stmt(self.f.body)
        except Walker._Leave:
            pass
        return max(self.need, self.high)

    def stmt(self, s):
        if s is None:
            return
        k = s.get("k")
        if k == "Block":
            for c in s["b"]:
                self.stmt(c)
        elif k == "Decls":
            for d in s["d"]:
                if d.get("init") is not None:
                    self.assign({"k": "Ref", "id": d["id"], "n": d["n"], "p": d.get("p"), "t": d.get("t"), "rk": "local"}, d["init"])
        elif k == "If":
            try:
                c = self.ival(s["c"])
            except Undecided:
                c = None
            self.expr(s["c"])
            if c is None:
                snap = (dict(self.ints), dict(self.ptrs), dict(self.paths), dict(self.atoms))
                try:
                    self.stmt(s["then"])
                except Walker._Leave:
                    pass         # the guard is undecided: the code after the `if` may still run
                a_ptrs = dict(self.ptrs)
                self.ints, self.ptrs, self.paths, self.atoms = (dict(x) for x in snap)
                try:
                    self.stmt(s.get("else"))
                except Walker._Leave:
                    pass
                for vid, off in a_ptrs.items():
                    if vid in self.ptrs and self.ptrs[vid] is not None and off is not None:
                        self.ptrs[vid] = max(self.ptrs[vid], off)
                    elif vid not in self.ptrs:
                        self.ptrs[vid] = off
            elif c:
                self.stmt(s["then"])
            else:
                self.stmt(s.get("else"))
        elif k in ("While", "Do", "For"):
            if k == "For" and s.get("init"):
                self.stmt(s["init"])
            # loop bodies are walked once with their induction variables unknown
            if s.get("c"):
                self.expr(s["c"])
            # ... but an upper bound `i < E` / `i + k < E` on an induction variable bounds the indices it forms
            bound = None
            cc = strip(s["c"]) if s.get("c") else None
            if cc is not None and cc.get("k") == "Bin" and cc["op"] in ("<", "<=", "!="):
                lx = strip(cc["x"])
                off = 0
                if lx.get("k") == "Bin" and lx["op"] == "+" and int_val(lx["y"]) is not None:
                    off, lx = int_val(lx["y"]), strip(lx["x"])
                if lx.get("k") == "Ref" and not lx.get("p"):
                    try:
                        bound = (lx["id"], self.ival(cc["y"]) - off - (0 if cc["op"] == "<=" else 1))
                    except Undecided:
                        bound = None
            for n in walk(s):
                if n.get("k") == "Un" and n["op"] in ("pre++", "pre--", "post++", "post--"):
                    l = strip(n["e"])
                    if l.get("k") == "Ref":
                        self.ints.pop(l["id"], None)
                elif n.get("k") == "Bin" and n["op"] in ir.ASSIGN_OPS and n["op"] != "=":
                    l = strip(n["x"])
                    if l.get("k") == "Ref":
                        self.ints.pop(l["id"], None)
            if bound is not None:
                self.imax[bound[0]] = bound[1]
            try:
                self.stmt(s["body"])
            except Walker._Leave:
                pass             # a return inside a loop body: whether it is reached is not decided
            if bound is not None:
                self.imax.pop(bound[0], None)
            if k == "For" and s.get("inc"):
                self.expr(s["inc"])
        elif k == "Switch":
            self.expr(s["c"])
            try:
                self.stmt(s["body"])
            except Walker._Leave:
                pass
        elif k in ("Case", "Default", "Label"):
            self.stmt(s.get("sub"))
        elif k == "Return":
            if s.get("e") is not None:
                self.expr(s["e"])
            if self.base != "stack":
                raise Walker._Leave()
        elif k in ("Break", "Continue", "Goto", "Null", "Asm"):
            pass
        else:
            self.expr(s)

    def assign(self, lhs, rhs):
        lhs = strip(lhs)
        self.expr(rhs)
        if lhs.get("k") == "Member":
            if self.base != "stack" and lhs.get("p") and "[" not in (lhs.get("t") or ""):
                bp = self.path_of(lhs["b"])
                if bp is not None:
                    key = "%s%s%s" % (bp, "->" if lhs.get("arrow") else ".", lhs["f"])
                    try:
                        pv = self.pval(rhs)
                    except Undecided:
                        pv = None
                    if pv is not None:
                        self.pfields[key] = pv
                        self.high = max(self.high, pv)
                    else:
                        self.pfields.pop(key, None)
            lp = self.path_of(lhs)
            if lp is not None:
                if lhs.get("p") and not lhs.get("pf"):
                    rp = self.path_of(rhs)
                    if rp is not None:
                        for kk, v in list(self.atoms.items()):
                            if kk.startswith(rp + "->"):
                                self.atoms[lp + kk[len(rp):]] = v
                elif not lhs.get("p"):
                    try:
                        self.atoms[lp] = self.ival(rhs)
                    except Undecided:
                        pass        # keep the dimension supplied by the grid (the object is being created with it)
            return
        if lhs.get("k") != "Ref":
            return
        vid = lhs["id"]
        if lhs.get("p"):
            r = strip(rhs)
            while r.get("k") == "Bin" and r["op"] == "=":
                r = strip(r["y"])
            if self.base == "blob" and r.get("k") == "Call" and r.get("callee") == "blobCreate" and self.blob_size is None:
                try:
                    self.blob_size = (self.ival(r["a"][0]), None)
                except Undecided as u:
                    self.blob_size = (None, str(u))
                self.stack_id = vid
                self.ptrs[vid] = 0
                self.paths.pop(vid, None)
                return
            try:
                pv = self.pval(rhs)
            except Undecided as u:
                pv = self._member_start(rhs) if self.base != "stack" else None
                if pv is None:
                    if self._rooted_at_stack(rhs):
                        # `cur = divident + (i - m)` inside a loop: a helper pointer into a region that was carved
                        # before, at an offset that only the loop knows.  It opens no new region; what is reached
                        # through it is counted from the region's start, exactly as the direct accesses
                        # `divident[i]` with an unknown i are (they are skipped).
                        pv = self._root_offset(rhs)
                        if pv is None:
                            raise
            if pv is not None:
                self.ptrs[vid] = pv
                if vid == self.stack_id:
                    self.high = max(self.high, pv)
                else:
                    self.high = max(self.high, pv)
                self.paths.pop(vid, None)
            else:
                self.ptrs.pop(vid, None)
                ap = self.path_of(rhs)
                if ap is not None:
                    self.paths[vid] = ap
                elif vid not in self.paths or not self._is_objcast(rhs):
                    self.paths[vid] = lhs["n"]      # a local object: its fields are atoms under its own name
        else:
            try:
                self.ints[vid] = self.ival(rhs)
            except Undecided:
                self.ints.pop(vid, None)

    def _is_objcast(self, e):
        return False

    def _root_offset(self, e):
        r = ir.root_ref(e)
        if r is None or r.get("id") not in self.ptrs or r["id"] == self.stack_id:
            return None          # the stack pointer itself must be advanced by evaluable amounts
        return self.ptrs[r["id"]]

    def _member_start(self, e):
        """`X->arr + <offset that cannot be evaluated>` with arr an array member of the state: the pointer stays inside
        that member (its extent is SD.f's business), so for the size of the state it counts as the member itself"""
        cur = strip(e)
        for _ in range(8):
            if not isinstance(cur, dict):
                return None
            if cur.get("k") == "Bin" and cur.get("op") in ("+", "-"):
                cur = strip(cur["x"])
                continue
            if cur.get("k") == "Member" and "[" in (cur.get("t") or ""):
                try:
                    return self.pval(cur)
                except Undecided:
                    return None
            return None
        return None

    def _rooted_at_stack(self, e):
        r = ir.root_ref(e)
        return r is not None and r.get("id") in self.ptrs

    def member_off(self, m):
        """byte offset (from the base) of the member designated by m = X->f / X.f when X lies in the tracked memory"""
        b = m["b"]
        if m.get("arrow"):
            pb = self.pval(b)
            rec = self.ne.record_of(strip(b).get("t")) if pb is not None else None
            # a cast (T*)state: the type is on the cast node
            if pb is not None and rec is None:
                n_ = b
                while isinstance(n_, dict) and n_.get("k") in ("Cast", "Paren"):
                    rec = self.ne.record_of(n_.get("t"))
                    if rec is not None:
                        break
                    n_ = n_.get("e")
        else:
            sb = strip(b)
            if sb.get("k") == "Member":
                pb = self.member_off(sb)
            elif sb.get("k") == "Index":
                pb0 = self.pval(sb["b"])
                try:
                    pb = None if pb0 is None else pb0 + self.ival(sb["i"]) * self._esize(sb["b"])
                except Undecided:
                    pb = None
            elif sb.get("k") == "Un" and sb["op"] == "*":
                pb = self.pval(sb["e"])
            else:
                pb = None
            rec = self.ne.record_of(sb.get("t")) if pb is not None else None
        if pb is None or rec is None:
            return None
        for fl in rec["fields"]:
            if fl["n"] == m["f"]:
                return pb + fl["off"] // 8
        return None

    def touch_members(self, e):
        """X->f with X in the tracked memory: the whole structure X points to is in use"""
        for n in walk(e):
            if n.get("k") != "Member" or not n.get("arrow"):
                continue
            try:
                pb = self.pval(n["b"])
            except Undecided:
                pb = None
            if pb is None:
                continue
            rec = self.ne.record_of(strip(n["b"]).get("t"))
            if rec is None:
                n_ = n["b"]
                while isinstance(n_, dict) and n_.get("k") in ("Cast", "Paren"):
                    rec = self.ne.record_of(n_.get("t"))
                    if rec is not None:
                        break
                    n_ = n_.get("e")
            if rec is not None and rec.get("size"):
                self.need = max(self.need, pb + rec["size"])

    def touch(self, e):
        """direct accesses p[i] through pointers into the scratch stack count like carving: offset + (i + 1) elements"""
        for n in walk(e):
            if n.get("k") != "Index":
                continue
            try:
                pv = self.pval(n["b"])
            except Undecided:
                pv = None
            if pv is None:
                continue
            saved = dict(self.ints)
            try:
                for vid, mx in self.imax.items():
                    if vid not in self.ints:
                        self.ints[vid] = mx
                i = self.ival(n["i"])
            except Undecided:
                i = None
            finally:
                self.ints = saved
            if i is None or i < 0:
                continue
            try:
                es = self._esize(n["b"])
            except Undecided:
                es = None
            if es:
                self.need = max(self.need, pv + (i + 1) * es)

    def expr(self, e, top=True):
        if not isinstance(e, dict):
            return
        if top:
            self.touch(e)
            if self.base != "stack":
                self.touch_members(e)
        k = e.get("k")
        if k == "Bin" and e["op"] == ",":
            self.expr(e["x"], False)
            self.expr(e["y"], False)
            return
        if k == "Bin" and e["op"] == "=":
            self.assign(e["x"], e["y"])
            return
        if k == "Bin" and e["op"] in ("+=", "-="):
            l = strip(e["x"])
            if l.get("k") == "Ref" and l["id"] in self.ptrs:
                n = self.ival(e["y"]) * self._esize(l)
                self.ptrs[l["id"]] += n if e["op"] == "+=" else -n
                self.high = max(self.high, self.ptrs[l["id"]])
                return
            if l.get("k") == "Ref" and not l.get("p"):
                try:
                    self.ints[l["id"]] = self.ival(l) + (1 if e["op"] == "+=" else -1) * self.ival(e["y"])
                except Undecided:
                    self.ints.pop(l["id"], None)
                return
        if k == "Bin" and e["op"] in ir.ASSIGN_OPS and e["op"] not in ("=", "+=", "-="):
            l = strip(e["x"])
            if l.get("k") == "Ref" and not l.get("p"):
                try:
                    binop = dict(e)
                    binop["op"] = e["op"][:-1]
                    self.ints[l["id"]] = self.ival(binop)
                except Undecided:
                    self.ints.pop(l["id"], None)
            self.expr(e["y"])
            return
        if k == "Un" and e["op"] in ("pre++", "pre--", "post++", "post--"):
            l = strip(e["e"])
            if l.get("k") == "Ref":
                if l["id"] in self.ints:
                    self.ints[l["id"]] += 1 if "++" in e["op"] else -1
            return
        if k == "Call":
            self.call(e)
            return
        for c in ir.kids(e):
            self.expr(c, False)

    def call(self, c):
        cn = c.get("callee")
        for a in c["a"]:
            self.expr(a) if strip(a).get("k") == "Call" else None
        if cn == "utilAssert":
            return
        # which argument is the callee's scratch stack?
        def off_of(i):
            if i >= len(c["a"]):
                return None
            return self.pval(c["a"][i])
        if not cn and not c.get("indirect") and c.get("fn") is not None:
            # call through a table of function pointers (_mul_procs[n](c, a, b, stack)): the entries are the targets
            targets = self.table_targets(c["fn"])
            if targets is None:
                fn_ = strip(c["fn"])
                if fn_.get("k") == "Un" and fn_["op"] == "*":
                    fn_ = strip(fn_["e"])
                rr_ = ir.root_ref(fn_)
                if (fn_.get("k") == "Ref" and fn_.get("rk") == "param") or \
                        (fn_.get("k") == "Member" and rr_ is not None and rr_.get("rk") == "param"):
                    return      # a caller-supplied callback (gen_i, read_i, cert->val ..) gets a data buffer, like a libc routine
                if any(self.pval(a) is not None for a in c["a"]):
                    raise Undecided("call through `%s` receives scratch memory in %s and its target is unknown" % (
                        show(c["fn"])[:30], self.f.name))
                return
            base = self.need
            worst = base
            for t_ in targets:
                self.need = base
                self.call(dict(c, callee=t_, fn=None))
                worst = max(worst, self.need)
            self.need = worst
            return
        g = self.prog.resolve(cn, self.f.unit) if cn and not c.get("indirect") else None
        if c.get("indirect"):
            # call through a ring / curve descriptor: the scratch argument is the last one
            offs = [None] * len(c["a"])
            if c["a"]:
                last = strip(c["a"][-1])
                if last.get("p"):
                    offs[-1] = off_of(len(c["a"]) - 1)
            if offs and offs[-1] is not None:
                fn = strip(c["fn"])
                if fn.get("k") == "Un" and fn["op"] == "*":
                    fn = strip(fn["e"])
                obj = self.path_of(fn["b"]) if fn.get("k") == "Member" else None
                if obj is None:
                    raise Undecided("descriptor of %s unknown in %s" % (cn, self.f.name))
                key = obj + "->deep"
                if key not in self.atoms:
                    raise Undecided("dimension `%s` unknown in %s" % (key, self.f.name))
                self.need = max(self.need, offs[-1] + self.atoms[key])
                self.trace.append((c.get("l"), cn + " (via %s)" % key, offs[-1], self.atoms[key], {}))
            return
        if cn and re.match(r"mem(Copy|Move|Set|SetZero|Xor2?|Wipe|Rev|Neg|Swap)$|mem(cpy|move|set)$", cn) and c["a"]:
            # data primitives: the last argument is the octet count that applies to each buffer argument
            try:
                cnt = self.ival(c["a"][-1])
            except Undecided:
                cnt = None
            if cnt is not None and 0 <= cnt < (1 << 40):
                for a in c["a"][:-1]:
                    try:
                        pv = self.pval(a)
                    except Undecided:
                        pv = None
                    if pv is not None:
                        self.need = max(self.need, pv + cnt)
            return
        if g is None or g.body is None:
            # libc / no body: a stack-derived data pointer is fine
            return
        sidx = [i for i, p in enumerate(g.params) if p["n"] == "stack" and p.get("p")]
        # creators building an object in scratch memory
        if cn in CREATORS and c["a"]:
            objp = self.path_of(c["a"][0])
            if objp is None:
                r = ir.root_ref(c["a"][0])
                objp = r["n"] if r is not None else None
            if objp is not None:
                try:
                    args = [self._maybe_int(a) for a in c["a"]]
                    spec = CREATORS[cn](args)
                    for an, v in spec.items():
                        if isinstance(v, tuple) and v[0] == "W_OF_O":
                            val = (v[1] + O_PER_W - 1) // O_PER_W if v[1] is not None else None
                        elif isinstance(v, tuple) and v[0] == "call":
                            val = self.ne.sizes.call(v[1], v[2], self.f.unit) if all(x is not None for x in v[2]) else None
                        else:
                            val = v
                        if val is not None:
                            self.atoms["%s->%s" % (objp, an)] = val
                except Undecided:
                    pass
        if cn == "ecAddMulA" and len(c["a"]) >= 4:
            # variadic: ecAddMulA(b, ec, stack, k, [a_i, d_i, m_i] * k); its body cannot be walked (va_arg), its demand
            # is what ecAddMulA_deep(n, ec_d, ec_deep, k, m_1 .. m_k) declares (the body itself is frozen undecided in SD.a)
            so = off_of(2)
            ecp = self.path_of(c["a"][1])
            if so is not None and ecp is not None:
                try:
                    k_ = self.ival(c["a"][3])
                    ms = [self.ival(c["a"][4 + 3 * i + 2]) for i in range(k_)]
                    dims = [self.atoms.get(ecp + "->f->n"), self.atoms.get(ecp + "->d"), self.atoms.get(ecp + "->deep")]
                    if all(x is not None for x in dims):
                        sub = self.ne.sizes.call("ecAddMulA_deep", dims + [k_] + ms, self.f.unit)
                        self.need = max(self.need, so + sub)
                        self.trace.append((c.get("l"), cn, so, sub, {}))
                        return
                except (Undecided, IndexError):
                    pass
                raise Undecided("dimensions of the variadic call ecAddMulA unknown in %s" % self.f.name)
        if self.base != "stack" and cn in OBJ_CREATORS and c["a"]:
            try:
                OBJ_CREATORS[cn](self, c)
            except Undecided:
                pass
        cbase = "stack"
        if not sidx or off_of(sidx[0]) is None:
            # the callee's state lies in the tracked memory (beltMACStart(state, ..), beltHashStart(st->hash_state ..))
            stidx = [i for i, p in enumerate(g.params) if p["n"] == "state" and p.get("p")]
            if self.base != "stack" and stidx and off_of(stidx[0]) is not None:
                sidx, cbase = stidx, "state"
        if not sidx:
            return
        si = sidx[0]
        so = off_of(si)
        if so is None:
            return
        # bind callee dimensions
        scal, atoms = {}, {}
        for p, a in zip(g.params, c["a"]):
            if p.get("p"):
                ap = self.path_of(a)
                if ap is None:
                    r = strip(a)
                    if r.get("k") == "Ref" and r["id"] in self.paths:
                        ap = self.paths[r["id"]]
                if ap is not None:
                    for kk, v in self.atoms.items():
                        if kk.startswith(ap + "->") or kk.startswith(ap + "."):
                            atoms[p["n"] + kk[len(ap):]] = v
            else:
                try:
                    scal[p["n"]] = self.ival(a)
                except Undecided:
                    pass
        if cbase == "state":
            for k_, v in self.atoms.items():
                m_ = re.match(r"@(-?\d+)(.*)$", k_)
                if m_ and int(m_.group(1)) >= so:
                    atoms["@%d%s" % (int(m_.group(1)) - so, m_.group(2))] = v
            for k_, v in self.pfields.items():
                m_ = re.match(r"@(-?\d+)(.*)$", k_)
                if m_ and int(m_.group(1)) >= so and v >= so:
                    atoms["P@%d%s" % (int(m_.group(1)) - so, m_.group(2))] = v - so
        sub = self.ne.need(g, scal, atoms, cbase)
        self.need = max(self.need, so + sub)
        if cbase == "state":
            key = (g.name, g.unit if g.static else None, tuple(sorted(scal.items())), tuple(sorted(atoms.items())), cbase)
            ex_atoms, ex_pf = self.ne.exports.get(key) or ({}, {})
            for k_, v in ex_atoms.items():
                m_ = re.match(r"@(-?\d+)(.*)$", k_)
                if m_:
                    self.atoms["@%d%s" % (so + int(m_.group(1)), m_.group(2))] = v
            for k_, v in ex_pf.items():
                m_ = re.match(r"@(-?\d+)(.*)$", k_)
                if m_:
                    self.pfields["@%d%s" % (so + int(m_.group(1)), m_.group(2))] = so + v
        self.trace.append((c.get("l"), cn, so, sub, dict(scal)))

    def table_targets(self, fn):
        """names of the functions a call expression `table[i]` can reach: the entry selected by a known index, otherwise
        every entry of the (constant, file-level) table; None when the expression is not such a table"""
        fn = strip(fn)
        if fn.get("k") == "Un" and fn["op"] == "*":
            fn = strip(fn["e"])
        if fn.get("k") != "Index":
            return None
        b = strip(fn["b"])
        if b.get("k") != "Ref" or b.get("rk") not in ("global", "static_local"):
            return None
        cands = [g for g in self.prog.globals.get(b["n"], []) if g.get("init") is not None and
                 (not g.get("static") or g.get("unit") == self.f.unit)]
        if len(cands) != 1 or not cands[0].get("const"):
            return None
        init = strip(cands[0]["init"])
        if init.get("k") != "InitList":
            return None
        names = []
        for e in init["a"]:
            e = strip(e)
            if e.get("k") == "Un" and e["op"] == "&":
                e = strip(e["e"])
            if int_val(e) == 0:
                names.append(None)          # empty slot
                continue
            if e.get("k") != "Ref" or not e.get("n"):
                return None
            names.append(e["n"])
        try:
            i = self.ival(fn["i"])
        except Undecided:
            i = None
        if i is not None:
            return [names[i]] if 0 <= i < len(names) and names[i] else None
        return [x for x in names if x]

    def _maybe_int(self, a):
        try:
            return self.ival(a)
        except Undecided:
            return None
