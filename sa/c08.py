"""C08: decoders are total and bounded -- structural / abstract-interpretation clauses.
DB.1 every read of the input through a tracked (pointer, remaining-length) pair is inside the input
     (relational abstract interpretation over linear inequalities with machine-arithmetic wrap obligations, sa/db.py);
DB.4 a value decoder that copies into a fixed-size object writes no more than the object holds (probe-then-copy);
DB.5 a strchr() membership test is never reached with a character that may be 0;
DB.3 every non-SIZE_MAX return of a DER decoder is <= the input length, and no bool constant is returned through
     the size_t error channel; the remaining length is never decremented below zero;
DB.2 a result of a SIZE_MAX-channel function is compared (with SIZE_MAX or an expected value) before it is used
     in arithmetic, as a length or as an offset.
Canonicality and encode/decode inversion are value statements and are declined."""
import os, re
from concurrent.futures import ProcessPoolExecutor
from . import ir, db
from .ir import AnalysisBroken, strip, walk, show, int_val
from .report import Result, COMMON_ASSUMPTIONS

UNITS = ["src/core/der.c", "src/core/apdu.c", "src/core/oid.c", "src/crypto/bpki.c", "src/crypto/btok/btok_cvc.c",
         "src/crypto/bign/bign_params.c", "src/crypto/btok/btok_sm.c"]
# units whose static *Dec helpers return the consumed length (the public apduCmdDec/apduRespDec return the size of the
# decoded structure instead and have no such contract)
CONTAINER_UNITS = ["src/crypto/bpki.c", "src/crypto/btok/btok_cvc.c", "src/crypto/bign/bign_params.c"]
SIZE_MAX = (1 << 64) - 1


def der_contracts(prog):
    c = {}
    for f in prog.all_funcs():
        if (f.relfile == "src/core/der.c" or (f.relfile in CONTAINER_UNITS and f.static and db.find_pairs(f))) and "Dec" in f.name and \
                f.ret.get("t") == "size_t" and f.body is not None:
            c[f.name] = {"consumed"}
            if any((p.get("ct") or "").count("*") >= 2 for p in f.params):
                c[f.name].add("region")
            # every return is SIZE_MAX or the constant 0 (derTSEQDecStop): the valid result consumes nothing
            vals = set()
            for n in walk(f.body):
                if n.get("k") == "Return" and n.get("e") is not None:
                    e = strip(n["e"])
                    arms = [e["x"], e["y"]] if e.get("k") == "Cond" else [e]
                    for a in arms:
                        vals.add(int_val(a))
            if vals and vals <= {0, SIZE_MAX}:
                c[f.name].add("zero")
    return c


def _analyse_one(args):
    name, = args
    prog = _analyse_one.prog
    f = prog.funcs[name]
    A = db.Analyzer(f, prog, _analyse_one.contracts)
    try:
        A.run()
    except AnalysisBroken as e:
        return name, None, str(e)
    return name, (A.reads, A.subs, A.rets, A.writes), None


def check_bounds(prog, res, tier):
    contracts = der_contracts(prog)
    if len(contracts) < 15:
        raise AnalysisBroken("only %d DER decoders found" % len(contracts))
    names = [f.name for f in prog.all_funcs() if f.relfile in UNITS and f.body is not None and db.find_pairs(f) and
             (f.unit, f.name) not in getattr(prog, "new_helpers", ())]       # new helpers are judged expanded in their callers
    _analyse_one.prog = prog
    _analyse_one.contracts = contracts
    # phase 1: what the static container decoders guarantee about the fields they fill (used at their call sites)
    db.POSTS.clear()
    for n in sorted(contracts):
        f = prog.funcs.get(n)
        if f is not None and f.relfile in CONTAINER_UNITS:
            A = db.Analyzer(f, prog, contracts)
            db.POSTS[n] = A.summary(A.run())
    res.coverage["field_postconditions"] = {n: len(v) for n, v in db.POSTS.items()}
    results = []
    # fork-based pool: children inherit the loaded program
    import multiprocessing as mp
    ctx = mp.get_context("fork")
    with ctx.Pool(min(16, max(1, len(names)))) as pool:
        results = pool.map(_analyse_one, [(n,) for n in names])
    nreads = 0
    ncaller = [0]
    for name, data, err in sorted(results):
        f = prog.funcs[name]
        if err:
            raise AnalysisBroken(err)
        reads, subs, rets, writes = data
        for (line, text), v in sorted(writes.items()):
            if all(x is None for x in v):
                ncaller[0] += 1
                continue
            cap, unit = [x for x in v if x is not None][0][1:]
            if all(x is not None and x[0] for x in v):
                res.proved("DB.4-write-inside-output", function=name, file=f.relfile, line=line, construct=text,
                           detail="the decoded value (%s) fits the %d-element destination on every abstract state: its length was "
                                  "probed and tested, or is a constant/expression bounded by the tests made" % (unit, cap))
            else:
                res.violation("DB.4-write-inside-output", function=name, file=f.relfile, line=line,
                              construct="%s may write more than the %d elements of its destination" % (text, cap),
                              detail="the length this decoder copies is not bounded by the destination's size on %d of %d abstract "
                                     "state(s): no accepted test on the probed length (or on the length argument) precedes the copy" %
                                     (sum(1 for x in v if not (x and x[0])), len(v)))
        bad_reads = {k: v for k, v in reads.items() if not all(v)}
        nreads += len(reads)
        for (line, text), v in sorted(bad_reads.items()):
            res.violation("DB.1-read-inside-input", function=name, file=f.relfile, line=line,
                          construct="read `%s` not provably inside the input" % text,
                          detail="on %d of %d abstract state(s) reaching line %d the inequality offset + index < input length "
                                 "cannot be derived from the tests made so far: the decoder may read beyond the octets it was given" %
                                 (v.count(False), len(v), line))
        good = len(reads) - len(bad_reads)
        if good:
            res.proved("DB.1-read-inside-input", function=name, file=f.relfile, line=f.line,
                       construct="%d read site(s) of the input" % good,
                       detail="each index/length is bounded by the remaining length on every abstract state")
        for (line, text), v in sorted(subs.items()):
            if all(v):
                res.proved("DB.3-remaining-length-nonnegative", function=name, file=f.relfile, line=line, construct=text,
                           detail="the subtrahend is <= the remaining length")
            else:
                res.violation("DB.3-remaining-length-nonnegative", function=name, file=f.relfile, line=line, construct=text,
                              detail="the remaining length may wrap below zero here: the amount subtracted is not known to be <= it")
        if name in contracts:
            for (line, text), v in sorted(rets.items()):
                kinds = {x[1] for x in v}
                if all(x[0] for x in v):
                    res.proved("DB.3-consumed-at-most-input", function=name, file=f.relfile, line=line,
                               construct="return %s" % text, detail="SIZE_MAX or a value <= the input length (%s)" % "/".join(sorted(kinds)))
                elif "bool" in kinds:
                    res.violation("DB.3-consumed-at-most-input", function=name, file=f.relfile, line=line,
                                  construct="bool constant returned through the size_t channel",
                                  detail="`return %s` in a decoder whose error value is SIZE_MAX: the caller reads it as "
                                         "'consumed %s octets' and goes on with unset outputs" % (text, "0" if "FALSE" in text else "1"))
                else:
                    res.violation("DB.3-consumed-at-most-input", function=name, file=f.relfile, line=line,
                                  construct="return %s may exceed the input length" % text,
                                  detail="the returned consumed length is not provably <= the length the decoder was given")
    res.floor("decoder functions", len(names), 36)
    res.floor("input read sites", nreads, 150)
    res.floor("fixed-size destinations of value decoders", len([i for i in res.instances if i["rule"] == "DB.4-write-inside-output"]), 14)
    res.coverage["caller_sized_destinations"] = ncaller[0]
    res.coverage["decoders"] = names


# ---- DB.6
STR_UNITS = ("src/core/der.c", "src/core/oid.c", "src/core/hex.c", "src/core/b64.c", "src/core/dec.c")
VALIDATORS = re.compile(r"^(hex|b64|dec|oid)IsValid$|^strIsPrintable$|^strIsNumeric$|^strIsAlphanumeric$")


def check_strings(prog, res, contracts):
    """DB.6: functions that take an arbitrary NUL-terminated string read s[i] only when s[0..i-1] are known non-zero
    (the string's readable extent grows with every character found non-zero; strLen gives it at once); a function that
    reports how many characters it matched has seen them non-zero.  Functions whose string was accepted by a validator
    (hexIsValid(s) in an ASSERT or an early return) rely on that validator's guarantee and are out of this rule."""
    names, skipped = [], {}
    frozen_seen = set()
    for f in prog.all_funcs():
        if f.relfile not in STR_UNITS or f.body is None or not db.find_str_pairs(f):
            continue
        if (f.unit, f.name) in getattr(prog, "new_helpers", ()):
            continue      # a helper introduced after the reference tree: it is judged where it is expanded, in its callers
        strs = {p.ptr_id for p in db.find_str_pairs(f)}
        pre = [c.get("callee") for c in ir.calls(f.body) if VALIDATORS.match(c.get("callee") or "") and c.get("callee") != f.name and
               any(strip(a).get("k") == "Ref" and strip(a).get("id") in strs for a in c["a"])]
        if pre:
            skipped[f.name] = "input accepted by %s first" % pre[0]
            continue
        if not any(n.get("k") in ("Index", "Un") for n in walk(f.body)):
            continue
        names.append(f.name)
    con = dict(contracts)
    for n in names:
        f = [g for g in prog.all_funcs() if g.name == n][0]
        if f.ret.get("t") == "size_t" and not db.find_pairs(f) and \
                any(x.get("k") == "Return" and x.get("e") is not None and int_val(x["e"]) == SIZE_MAX for x in walk(f.body)):
            con[n] = set(con.get(n, set())) | {"strconsumed"}
    nsites = 0
    for n in sorted(names):
        f = [g for g in prog.all_funcs() if g.name == n][0]
        A = db.Analyzer(f, prog, con, strings=True)
        try:
            A.run()
        except AnalysisBroken as e:
            raise
        str_names = {p.name for p in A.pairs.values() if p.kind == "str"}
        for (line, text), v in sorted(A.reads.items()):
            if not any(re.search(r"\b%s\b" % re.escape(sn), text) for sn in str_names):
                continue
            nsites += 1
            if all(v):
                res.proved("DB.6-string-read-before-terminator", function=n, file=f.relfile, line=line, construct=text,
                           detail="every smaller index was found non-zero on each of the %d abstract state(s)" % len(v))
            elif n in FROZEN_STR:
                if n not in frozen_seen:
                    frozen_seen.add(n)
                    res.undecided("DB.6-string-read-before-terminator", function=n, file=f.relfile, line=line,
                                  construct="string reads of %s" % n, detail=FROZEN_STR[n])
            else:
                res.violation("DB.6-string-read-before-terminator", function=n, file=f.relfile, line=line,
                              construct="read `%s` may lie beyond the string's terminator" % text,
                              detail="on %d of %d abstract state(s) the characters before this index are not all known to be "
                                     "non-zero: for a shorter string the function reads past the terminating NUL" %
                                     (v.count(False), len(v)))
        for (line, text), v in sorted(A.srets.items()):
            nsites += 1
            if all(v):
                res.proved("DB.6-string-read-before-terminator", function=n, file=f.relfile, line=line, construct="return %s" % text,
                           detail="the reported number of matched characters were all seen non-zero")
            else:
                res.violation("DB.6-string-read-before-terminator", function=n, file=f.relfile, line=line,
                              construct="return %s: matched characters not all seen" % text,
                              detail="callers advance the string by this count; it may step over the terminator")
    res.floor("string read sites", nsites, 25)
    res.coverage["string_functions"] = sorted(names)
    res.coverage["string_functions_validated_input"] = skipped


# reads whose safety needs reasoning outside the linear domain: (function, read) -> reason
# (frozen per function, not per read expression: how the reads are spelled must not matter)
FROZEN_STR = {
    "b64IsValid": "the padding test reads b64[len - 1] and b64[len - 2] where len >= 4 follows from len % 4 == 0 and len >= 1, "
                  "and the final loop runs over the len characters counted by strLen after the padding was taken off: "
                  "divisibility is outside the linear domain, so the reads of this function are not decided",
}


# ---- DB.5
class NulClient(ir.Client):
    """state: the expressions known to be non-zero on the path (as printed by ir.show)"""

    def __init__(self):
        self.sites = {}

    def init(self, func):
        return frozenset()

    @staticmethod
    def _key(e):
        return show(strip(e))

    def assume(self, c, pol, st, env, node):
        c = strip(c)
        k = c.get("k")
        if k in ("Ref", "Member", "Index") or (k == "Un" and c["op"] == "*"):
            return st | {self._key(c)} if pol else st
        if k == "Bin" and c["op"] in ("!=", "==") and (int_val(c["y"]) == 0 or int_val(c["x"]) == 0):
            x = c["x"] if int_val(c["y"]) == 0 else c["y"]
            if (c["op"] == "!=") == pol:
                return st | {self._key(x)}
        return st

    def eval(self, e, st, env, node):
        for c in ir.calls(e):
            if c.get("callee") in ("strchr", "__builtin_strchr") and len(c["a"]) == 2 and strip(c["a"][0]).get("k") == "Str":
                ok = self._key(c["a"][1]) in st
                self.sites.setdefault((c.get("l") or node.line, show(c)[:50]), []).append(ok)
        for l, rhs, op in ir.assigned_vars(e):
            st = frozenset(x for x in st if not re.search(r"\b%s\b" % re.escape(l["n"]), x))
        return st


def check_charset(prog, res):
    """DB.5: strchr(set, ch) finds the terminating NUL of `set`, so as a membership test it accepts ch == 0 unless the
    path has excluded it -- a decoder of character strings would accept an embedded NUL (and what it returns re-encodes
    to a shorter string)"""
    n = 0
    for f in prog.all_funcs():
        if f.body is None or not any(c.get("callee") in ("strchr", "__builtin_strchr") for c in ir.calls(f.body)):
            continue
        cl = NulClient()
        r = ir.run_paths(f, cl)
        if r.truncated:
            raise AnalysisBroken("path exploration truncated in %s" % f.name)
        for (line, text), v in sorted(cl.sites.items()):
            n += 1
            if all(v):
                res.proved("DB.5-charset-test-excludes-nul", function=f.name, file=f.relfile, line=line, construct=text,
                           detail="on each of the %d path state(s) the tested character is known to be non-zero" % len(v))
            else:
                res.violation("DB.5-charset-test-excludes-nul", function=f.name, file=f.relfile, line=line,
                              construct="%s with a character that may be 0" % text,
                              detail="strchr() also finds the terminator of the set, so the character 0 passes this membership test "
                                     "on %d of %d path state(s): a string with an embedded NUL is accepted" % (v.count(False), len(v)))
    res.floor("character-set membership tests", n, 2)


# ---- DB.2
def sizemax_functions(prog):
    S = set()
    for f in prog.all_funcs(with_headers=True):
        if f.ret.get("t") == "size_t" and f.body is not None and not re.search(r"_(deep|keep)$", f.name):
            for n in walk(f.body):
                if n.get("k") == "Return" and n.get("e") is not None and int_val(n["e"]) == SIZE_MAX:
                    S.add(f.name)
                    break
    changed = True
    while changed:
        changed = False
        for f in prog.all_funcs(with_headers=True):
            if f.name in S or f.ret.get("t") != "size_t" or f.body is None:
                continue
            for n in walk(f.body):
                if n.get("k") == "Return" and ir.is_call(n.get("e")) and strip(n["e"]).get("callee") in S:
                    S.add(f.name)
                    changed = True
                    break
    return S


class SMClient(ir.Client):
    """state: frozenset of var ids holding an unexamined SIZE_MAX-channel result"""
    _cmp_assigned = set()

    def __init__(self, f, S):
        self.f, self.S = f, S
        self.viol = {}
        self.nsites = 0

    def init(self, func):
        return frozenset()

    def _v(self, node, construct, detail):
        self.viol.setdefault((construct, node.line), dict(line=node.line, construct=construct, detail=detail))

    def _scan(self, e, unchecked, node, top=True):
        """returns set of vars that became checked; reports uses of unchecked vars"""
        checked = set()
        e0 = strip(e)
        k = e0.get("k")
        if k == "Call" and e0.get("callee") == "utilAssert":
            # ASSERT(t != SIZE_MAX): accepted as the examination of an encoder result
            for n in walk(e0):
                if n.get("k") == "Ref" and n["id"] in unchecked:
                    checked.add(n["id"])
            return checked
        if k == "Bin" and e0["op"] in ("==", "!=", "<", ">", "<=", ">="):
            for side, other in ((e0["x"], e0["y"]), (e0["y"], e0["x"])):
                s = strip(side)
                if s.get("k") == "Bin" and s["op"] == "=":
                    r_ = strip(s["y"])
                    if r_.get("k") == "Call" and r_.get("callee") in self.S:
                        self.nsites += 1
                        for a in r_["a"]:
                            checked |= self._scan(a, unchecked, node, False)
                        if strip(s["x"]).get("k") == "Ref":
                            checked.add(strip(s["x"])["id"])
                            self._cmp_assigned.add(strip(s["x"])["id"])
                        continue
                    checked |= self._scan(s["y"], unchecked, node, False)
                    s = strip(s["x"])
                if s.get("k") == "Ref" and s["id"] in unchecked:
                    checked.add(s["id"])
                elif s.get("k") == "Call" and s.get("callee") in self.S:
                    self.nsites += 1
                    for a in s["a"]:
                        checked |= self._scan(a, unchecked, node, False)
                else:
                    checked |= self._scan(side, unchecked - checked, node, False)
            return checked
        if k == "Bin" and e0["op"] == "=":
            rhs = strip(e0["y"])
            lhs = strip(e0["x"])
            if rhs.get("k") == "Call" and rhs.get("callee") in self.S:
                for a in rhs["a"]:
                    checked |= self._scan(a, unchecked, node, False)
                return checked
            if rhs.get("k") == "Ref" and rhs["id"] in unchecked and lhs.get("k") == "Ref":
                return checked      # copy: handled by eval
            checked |= self._scan(e0["y"], unchecked, node, False)
            if lhs.get("k") != "Ref":
                checked |= self._scan(lhs, unchecked, node, False)
            return checked
        if k == "Ref":
            if e0["id"] in unchecked and not top:
                self._v(node, "%s used before it was compared with SIZE_MAX" % e0["n"],
                        "`%s` holds the result of a function whose error value is SIZE_MAX and is used in `%s` without "
                        "having been examined" % (e0["n"], show(node.e)[:70]))
            return checked
        if k == "Call" and e0.get("callee") in self.S and top:
            for a in e0["a"]:
                checked |= self._scan(a, unchecked, node, False)
            return checked
        if k == "Call" and e0.get("callee") in self.S and not top:
            self.nsites += 1
            self._v(node, "result of %s used directly" % e0["callee"],
                    "%s can return SIZE_MAX; its result enters `%s` unexamined" % (e0["callee"], show(node.e)[:70]))
        for c in ir.kids(e0):
            checked |= self._scan(c, unchecked - checked, node, False)
        return checked

    def eval(self, e, st, env, node):
        un = set(st)
        self._cmp_assigned = set()
        checked = self._scan(e, frozenset(un), node, top=True)
        un -= checked
        for l, rhs, op in ir.assigned_vars(e):
            if op == "=" and rhs is not None:
                r = strip(rhs)
                if r.get("k") == "Call" and r.get("callee") in self.S and l.get("t") == "size_t":
                    if l["id"] not in self._cmp_assigned:
                        un.add(l["id"])
                        self.nsites += 1
                    continue
                if r.get("k") == "Ref" and r["id"] in un:
                    un.add(l["id"])
                    continue
            un.discard(l["id"])
        return frozenset(un)

    def decl(self, d, st, env, node):
        if d.get("init") is not None:
            r = strip(d["init"])
            if r.get("k") == "Call" and r.get("callee") in self.S and d.get("t") == "size_t":
                self.nsites += 1
                return st | {d["id"]}
            self._scan(d["init"], st, node, False)
        return st

    def ret(self, e, st, env, node):
        return st


# instances read and frozen: results that are examined in a way the rule does not model
FROZEN = {
    "derTSEQEncStop": "the anchor's tag and length were encoded successfully by derTSEQEncStart, so derTEnc/derLEnc of the same values cannot fail",
    "derTSEQDecStop": "the anchor's tag and length were decoded from valid DER by derTSEQDecStart, so re-encoding them cannot fail",
}
FROZEN_UNDECIDED = [{"rule": "DB.2-result-examined", "function": k, "construct": "encoder result of anchor fields"} for k in FROZEN] + \
    [{"rule": "DB.6-string-read-before-terminator", "function": fn, "construct": "string reads of %s" % fn} for fn in FROZEN_STR]


def check_discipline(prog, res):
    S = sizemax_functions(prog)
    if len(S) < 40:
        raise AnalysisBroken("only %d SIZE_MAX-channel functions found" % len(S))
    nsites = 0
    for f in prog.all_funcs():
        if f.body is None or not any(c.get("callee") in S for c in ir.calls(f.body)):
            continue
        cl = SMClient(f, S)
        r = ir.run_paths(f, cl, max_states=300000)
        if r.truncated:
            raise AnalysisBroken("SIZE_MAX discipline: state space truncated in %s" % f.name)
        nsites += sum(1 for c in ir.calls(f.body) if c.get("callee") in S)
        if cl.viol and f.name in FROZEN:
            res.undecided("DB.2-result-examined", function=f.name, file=f.relfile, line=f.line,
                          construct="encoder result of anchor fields", detail=FROZEN[f.name])
        elif cl.viol:
            for v in cl.viol.values():
                res.violation("DB.2-result-examined", function=f.name, file=f.relfile, line=v["line"],
                              construct=v["construct"], detail=v["detail"])
        else:
            res.proved("DB.2-result-examined", function=f.name, file=f.relfile, line=f.line,
                       construct="%d call(s) of SIZE_MAX-channel functions" % sum(1 for c in ir.calls(f.body) if c.get("callee") in S),
                       detail="every result is compared (with SIZE_MAX or an expected value), returned, or asserted before use")
    res.floor("SIZE_MAX-channel call sites", nsites, 200)
    res.coverage["sizemax_functions"] = len(S)


def run(tier, seed=0):
    res = Result("C08", "other", tier)
    prog = ir.Program("w64")
    check_bounds(prog, res, tier)
    check_discipline(prog, res)
    check_charset(prog, res)
    check_strings(prog, res, der_contracts(prog))
    res.coverage["explanation"] = (
        "DB.1/DB.3/DB.4: relational abstract interpretation (linear inequalities with Fourier-Motzkin implication, bounded "
        "disjunction, template + interval-propagation join, widening) of the DER and APDU leaf decoders and of the container "
        "parsers built on them (oid.c, bpki.c, btok_cvc.c, bign_params.c, btok_sm.c): the input pointer's offset K and the "
        "region length are symbols kept in step through `p += k, c -= k` (also through local aliases and the derDecStep "
        "macros); every index / explicit-length read must satisfy K + index < length, every DER decoder returns SIZE_MAX "
        "or a consumed length <= the input; callee contracts (consumed <= given; derDec's value region lies inside the "
        "input; derTSEQDecStop consumes nothing; field postconditions of the static container decoders) are used as facts "
        "and proved for the callees themselves. Arithmetic is machine arithmetic: a sum/product is used as a linear fact "
        "only when the state proves it <= SIZE_MAX and a difference only when it proves it >= 0 (this is what exposes "
        "length fields near SIZE_MAX). DB.4: a value decoder copying into a fixed-size object (struct field, local array) "
        "writes no more than it holds: the copied length is the constant/expression passed, or the length probed by an "
        "earlier val=0 call at the same input position and bounded by the tests accepted since. DB.2: typestate over the "
        "whole of src/ on results of functions whose error value is SIZE_MAX. DB.5: strchr(set, ch) used as a membership "
        "test is reached only with ch known non-zero.")
    res.assumptions = COMMON_ASSUMPTIONS + [
        "octets of the input are unconstrained 0..255 values; size_t values are 64-bit machine integers (w64 configuration)",
        "a caller-supplied (pointer, length) pair describes one object, so the length is <= PTRDIFF_MAX",
        "destinations that are caller-supplied pointers (documented sizes) are counted (caller_sized_destinations) and not decided by DB.4; the string decoders hex, b64, dec are not covered by DB.1",
        "a decoder that fails writes nothing to its value buffer (true of der.c: every check precedes the copy; DB.1 analyses those bodies)",
    ]
    return res
