"""C06: EC group law -- the special cases are tested before the generic formulas (structural necessary condition).
R06.1 each addition/doubling routine of ecp.c/ec2.c tests, on its longest-tested path, at least as many distinct
      operand conditions (z = 0, y = 0, H = 0, S1 = S2 ..) as the reference table lists special cases for it:
      the generic Jacobian / Lopez-Dahab / affine formulas are wrong for O, P = +-Q and 2-torsion points, so each
      of those must have been branched on;
R06.2 subtraction routines negate the second operand and delegate to the checked addition (they have no addition
      formulas of their own);
R06.3 scalar multiplication reports infinity through the to-affine conversion (which tests z) or an explicit zero test.
Whether the formulas compute the group law is algebra over all field elements and is declined."""
import re
from . import ir, vp, mustcall
from .ir import AnalysisBroken, strip
from .report import Result, COMMON_ASSUMPTIONS

TEST = re.compile(r"^(qrIsZero|wwIsZero|wwEq|qrIsUnity)\(")
CMPF = re.compile(r"(qrCmp|wwCmp|memCmp|memEq|wwEq)\(.*\)(==|!=)0$")

# routines without formulas of their own: name -> callees they must go through
DELEGATES = {
    "ecpSubJ": ["ecpAddJ"], "ecpSubAJ": ["ecpAddAJ"],
    "ec2SubLD": ["ec2AddLD"], "ec2SubALD": ["ec2AddALD"], "ec2SubAA": ["ec2AddAA"],
}


def operand_tests(facts):
    """distinct conditions on operands / temporaries that were branched on along the path (either polarity);
    tests of curve constants (ec->A == 0 ..) select an optimisation, not a special case, and do not count"""
    out = set()
    for x in facts:
        s = None
        if x[0] in ("T", "F") and TEST.match(x[1]):
            s = x[1]
        elif x[0] == "cmp" and CMPF.search(x[2]):
            s = re.sub(r"(==|!=)0$", "", x[2])
        if s and not re.search(r"\(ec->", s):
            out.add(s)
    return out


def find(prog, name, unit):
    for f in prog.all_funcs():
        if f.name == name and f.relfile == unit and f.body is not None:
            return f
    return None


def check_special_cases(prog, res, table):
    n = 0
    for name, spec in sorted(table.items()):
        f = find(prog, name, spec["unit"])
        if f is None:
            raise AnalysisBroken("group-law routine %s vanished from %s" % (name, spec["unit"]))
        best = [set()]

        def on_return(e, rc, facts, node, cl, pend, env):
            t = operand_tests(facts)
            if len(t) > len(best[0]):
                best[0] = t

        vp.run_facts(f, prog, on_return=on_return, track_generic=True)
        need = len(spec["cases"])
        n += 1
        if len(best[0]) >= need:
            res.proved("R06.1-special-cases-tested", function=name, file=f.relfile, line=f.line,
                       construct="%d operand condition(s) branched on" % len(best[0]),
                       detail="covers: " + "; ".join(spec["cases"]))
        else:
            res.violation("R06.1-special-cases-tested", function=name, file=f.relfile, line=f.line,
                          construct="only %d of %d special-case tests remain" % (len(best[0]), need),
                          detail="%s uses formulas that are wrong for {%s}; the most-tested path through it now branches on "
                                 "only %d operand condition(s) (%s): one of the special cases reaches the generic formula" %
                                 (name, "; ".join(spec["cases"]), len(best[0]), ", ".join(sorted(best[0])) or "none"))
    return n


def check_delegation(prog, res):
    n = 0
    for name, callees in sorted(DELEGATES.items()):
        unit = "src/math/ecp.c" if name.startswith("ecp") else "src/math/ec2.c"
        f = find(prog, name, unit)
        if f is None:
            raise AnalysisBroken("group-law routine %s vanished" % name)
        called = {c.get("callee") for c in ir.calls(f.body)}
        arith = {c for c in called if c and re.match(r"(qr|zm|gfp|gf2)(Sqr|Inv|Div)", c)}
        missing = [c for c in callees if c not in called]
        n += 1
        if not missing:
            res.proved("R06.2-derived-operations-delegate", function=name, file=f.relfile, line=f.line,
                       construct="calls " + ", ".join(callees), detail="no special-case handling of its own is needed")
        elif arith:
            res.violation("R06.2-derived-operations-delegate", function=name, file=f.relfile, line=f.line,
                          construct="no longer goes through %s" % ", ".join(missing),
                          detail="%s now carries field arithmetic of its own (%s) instead of delegating to %s; it is not in "
                                 "the special-case table, so its handling of O and P = +-Q is unchecked" %
                                 (name, ", ".join(sorted(arith))[:80], ", ".join(callees)))
        else:
            res.violation("R06.2-derived-operations-delegate", function=name, file=f.relfile, line=f.line,
                          construct="no longer goes through %s" % ", ".join(missing),
                          detail="%s must be computed as negation/doubling followed by the checked addition" % name)
    return n


def check_infinity_report(prog, res):
    n = 0
    for name in ("ecMulA", "ecAddMulA"):
        f = prog.funcs.get(name)
        if f is None or f.body is None:
            raise AnalysisBroken("%s vanished" % name)
        rets = [x for x in ir.walk(f.body) if x.get("k") == "Return" and x.get("e") is not None]
        bad = []
        for r in rets:
            e = strip(r["e"])
            ok = ir.int_val(e) == 0 or (e.get("k") == "Call" and e.get("callee") in ("ecToa", "ecToA", "ecpToAJ", "ec2ToALD")) or \
                (e.get("k") == "Ref")      # a flag variable: checked below
            if e.get("k") == "Ref":
                # ret = ecToA(..)-style flag: it must be assigned from the conversion somewhere
                ok = any(c.get("callee") in ("ecToa", "ecToA") for c in ir.calls(f.body))
            if not ok:
                bad.append(r)
        n += 1
        if bad:
            res.violation("R06.3-infinity-reported-by-conversion", function=name, file=f.relfile, line=bad[0].get("l", f.line),
                          construct="return value not derived from the to-affine conversion",
                          detail="%s must report `result is O` exactly when z = 0; its return value no longer comes from "
                                 "ecToA (which tests z) or a constant FALSE under a zero-scalar test" % name)
        else:
            res.proved("R06.3-infinity-reported-by-conversion", function=name, file=f.relfile, line=f.line,
                       construct="%d return(s)" % len(rets), detail="FALSE or the result of ecToA")
    return n


# ---- R06.4: evaluation order tolerates the documented aliasings c = a, c = b
POINT_ROUTINE = re.compile(r"^ec[p2](Add|Sub|Dbl|Tpl|Neg)\w*$")


def _coord(text, roots):
    """(root parameter, coordinate index) of a canonical pointer text `a`, `a+n`, `a+n+n`; index None = whole point"""
    m = re.match(r"^([A-Za-z_]\w*)((?:\+n)*)$", text.replace("ec->f->n", "n"))
    if not m or m.group(1) not in roots:
        return None
    return m.group(1), m.group(2).count("+n")


class AliasOrder(ir.Client):
    """path state: (coordinates of the output point written so far, what the path knows about c == a / c == b).
    An input coordinate read after the same coordinate of the output was written is a hazard when the path has not
    tested whether that input is the output (the aliasings c = a and c = b are documented; a = b = c is excluded)."""

    def __init__(self, f, prog, out, ins):
        self.f, self.prog, self.out, self.ins = f, prog, out, ins
        self.canon = vp.Canon(f)
        self.bad = {}
        self.reads = 0

    def init(self, func):
        return (frozenset(), frozenset())

    def _alias_test(self, c):
        c = strip(c)
        if c.get("k") == "Bin" and c.get("op") in ("==", "!="):
            x, y = strip(c["x"]), strip(c["y"])
            if x.get("k") == "Ref" and y.get("k") == "Ref":
                names = {x.get("n"), y.get("n")}
                if self.out in names and (names - {self.out}) <= set(self.ins) and len(names) == 2:
                    return (names - {self.out}).pop(), c["op"] == "=="
        return None

    def assume(self, c, pol, st, env, node):
        written, known = st
        t = self._alias_test(c)
        if t is not None:
            other, eq = t
            same = eq if pol else not eq
            known = known | {(other, same)}
            if same:
                # the fully aliased call is excluded: the other inputs are then distinct from the output
                known = known | {(o, False) for o in self.ins if o != other}
        return (written, known)

    def _read(self, root, k, st, line, what):
        written, known = st
        self.reads += 1
        if any(kn[0] == root for kn in known):
            return
        # a coordinate that received a copy of the same coordinate of this very input is unchanged if they alias
        hit = {w for w in written if w[1] != root and (k is None or w[0] == k or w[0] is None)}
        if hit:
            self.bad.setdefault((line, what), (root, k))

    def eval(self, e, st, env, node):
        return self._walk(e, st, node.line)

    def _walk(self, e, st, line):
        if not isinstance(e, dict):
            return st
        k = e.get("k")
        if k == "Call":
            if e.get("callee") == "utilAssert":
                return st
            proto = self.prog.proto(e.get("callee"), self.f.unit) if e.get("callee") else None
            reads, writes = [], []
            for i, a in enumerate(e["a"]):
                sa_ = strip(a)
                if sa_.get("k") == "Cond":
                    # c == a ? b : a  -- each arm under its condition
                    for pol, arm in ((True, sa_["x"]), (False, sa_["y"])):
                        st2 = self.assume(sa_["c"], pol, st, None, None)
                        co = _coord(self.canon(arm), set(self.ins) | {self.out})
                        if co and co[0] in self.ins:
                            self._read(co[0], None if self._whole(e, i) else co[1], st2, line, ir.show(e)[:50])
                    continue
                if not sa_.get("p"):
                    st = self._walk(a, st, line)
                    continue
                co = _coord(self.canon(a), set(self.ins) | {self.out})
                if co is None:
                    continue
                const = bool(proto is not None and i < len(proto.params) and proto.params[i].get("pc"))
                whole = self._whole(e, i)
                if co[0] in self.ins:
                    reads.append((co[0], None if whole else co[1]))
                elif co[0] == self.out:
                    if const or i > 0:
                        pass          # reading the output point itself is always reading what was written
                    if not const and i == 0:
                        writes.append(None if whole else co[1])
            for r_, k_ in reads:
                self._read(r_, k_, st, line, ir.show(e)[:50])
            if writes:
                cn = e.get("callee") or ""
                src = None
                if cn in ("wwCopy", "qrCopy", "memCopy", "memMove") and len(reads) == 1 and reads[0][1] == writes[0]:
                    src = reads[0][0]
                st = (st[0] | {(w, src) for w in writes}, st[1])
            return st
        if k == "Bin" and e.get("op") in ir.ASSIGN_OPS:
            st = self._walk(e["y"], st, line)
            l = strip(e["x"])
            if l.get("k") in ("Index", "Un"):
                r = ir.root_ref(l)
                if r is not None and r.get("n") == self.out:
                    st = (st[0] | {(None, None)}, st[1])
            return st
        for c in ir.kids(e):
            st = self._walk(c, st, line)
        return st

    def _whole(self, call, i):
        """is argument i passed as a whole point (another point routine, or a copy of d*n words)"""
        cn = call.get("callee") or ""
        if POINT_ROUTINE.match(cn) or cn.startswith(("ecpIsOn", "ec2IsOn", "ecpSeemsOn", "ec2SeemsOn")):
            return True
        if cn in ("wwCopy", "wwEq", "wwCmp", "wwSetZero") and call["a"]:
            n_ = ir.show(call["a"][-1])
            return "*" in n_
        return False


def check_alias_order(prog, res):
    """R06.4: in every point routine `f(c, a[, b], ec, stack)` of ecp.c / ec2.c, once a coordinate of the result c has
    been written the same coordinate of an input is not read again unless the path tested whether that input is c."""
    n = 0
    for f in prog.all_funcs():
        if f.body is None or f.relfile not in ("src/math/ecp.c", "src/math/ec2.c") or not POINT_ROUTINE.match(f.name):
            continue
        ps = f.params
        if len(ps) < 3 or not ps[0].get("p") or ps[0].get("pc"):
            continue
        ins = [p["n"] for p in ps[1:3] if p.get("p") and p.get("pc") and (p.get("t") or "").replace(" ", "") == "constword*"]
        if not ins:
            continue
        cl = AliasOrder(f, prog, ps[0]["n"], ins)
        r = ir.run_paths(f, cl)
        if r.truncated:
            raise AnalysisBroken("path exploration truncated in %s" % f.name)
        n += 1
        if cl.bad:
            for (line, what), (root, k_) in sorted(cl.bad.items()):
                res.violation("R06.4-evaluation-order-tolerates-aliasing", function=f.name, file=f.relfile, line=line,
                              construct="`%s` reads %s after the result's %s had been written" %
                                        (what, root if k_ is None else "%s coordinate %d" % (root, k_),
                                         "coordinates" if k_ is None else "coordinate %d" % k_),
                              detail="ec.h allows the result to be %s: on this path nothing tested whether %s is the output point, so "
                                     "the value read may already be the new one" % (root, root))
        else:
            res.proved("R06.4-evaluation-order-tolerates-aliasing", function=f.name, file=f.relfile, line=f.line,
                       construct="%d input reads ordered before the writes of the same coordinate" % cl.reads,
                       detail="no coordinate of %s is read after the same coordinate of the result was written, except under a "
                              "test of the result against it" % " or ".join(ins))
    return n


def run(tier, seed=0):
    res = Result("C06", "other", tier)
    prog = ir.Program("w64")
    table = mustcall.load_table("ec_special_cases.json")
    n1 = check_special_cases(prog, res, table)
    n2 = check_delegation(prog, res)
    n3 = check_infinity_report(prog, res)
    n4 = check_alias_order(prog, res)
    res.floor("point routines with aliasable result", n4, 20)
    res.floor("group-law routines with special cases", n1, 12)
    res.floor("derived routines", n2, 5)
    res.coverage["explanation"] = (
        "For each of the %d addition/doubling routines of ecp.c and ec2.c (projective, mixed, affine) all paths are "
        "enumerated with the conditions branched on; the path that tested the most operand conditions must have tested "
        "at least as many as the routine has special cases (table tables/ec_special_cases.json, one reason per case, "
        "read off the formulas: O operands, P = +-Q detected by H = 0 / B = 0 / equal x, P = Q versus P = -Q, 2-torsion "
        "points in doubling). Subtraction routines must delegate to those. ecMulA/ecAddMulA return FALSE or the "
        "to-affine conversion's result. Correctness of the formulas, NAF recoding and SWU are value statements and are "
        "declined." % n1)
    res.assumptions = COMMON_ASSUMPTIONS + [
        "a special case counts as handled when the routine branches on its condition; that the branch then does the right thing is not decided",
        "tests of curve constants (A = 0, A = 1, A = -3 fast paths) are optimisations and are not counted either way",
        "a routine rewritten with complete (exception-free) formulas would need its table entry revised",
    ]
    return res
