"""C06: EC group law -- the special cases are tested before the generic formulas (structural necessary condition).
R06.1 each addition/doubling routine of ecp.c/ec2.c tests, on its longest-tested path, at least as many distinct
      operand conditions (z = 0, y = 0, H = 0, S1 = S2 ..) as the reference table lists special cases for it:
      the generic Jacobian / Lopez-Dahab / affine formulas are wrong for O, P = +-Q and 2-torsion points, so each
      of those must have been branched on;
R06.2 subtraction routines negate the second operand and delegate to the checked addition (they have no addition
      formulas of their own);
R06.3 scalar multiplication reports infinity through the to-affine conversion (which tests z) or an explicit zero test.
Whether the formulas compute the group law is algebra over all field elements and is declined."""
import re
from . import ir, vp, mustcall
from .ir import AnalysisBroken, strip
from .report import Result, COMMON_ASSUMPTIONS

TEST = re.compile(r"^(qrIsZero|wwIsZero|wwEq|qrIsUnity)\(")
CMPF = re.compile(r"(qrCmp|wwCmp|memCmp|memEq|wwEq)\(.*\)(==|!=)0$")

# routines without formulas of their own: name -> callees they must go through
DELEGATES = {
    "ecpSubJ": ["ecpAddJ"], "ecpSubAJ": ["ecpAddAJ"],
    "ec2SubLD": ["ec2AddLD"], "ec2SubALD": ["ec2AddALD"], "ec2SubAA": ["ec2AddAA"],
}


def operand_tests(facts):
    """distinct conditions on operands / temporaries that were branched on along the path (either polarity);
    tests of curve constants (ec->A == 0 ..) select an optimisation, not a special case, and do not count"""
    out = set()
    for x in facts:
        s = None
        if x[0] in ("T", "F") and TEST.match(x[1]):
            s = x[1]
        elif x[0] == "cmp" and CMPF.search(x[2]):
            s = re.sub(r"(==|!=)0$", "", x[2])
        if s and not re.search(r"\(ec->", s):
            out.add(s)
    return out


def find(prog, name, unit):
    for f in prog.all_funcs():
        if f.name == name and f.relfile == unit and f.body is not None:
            return f
    return None


def check_special_cases(prog, res, table):
    n = 0
    for name, spec in sorted(table.items()):
        f = find(prog, name, spec["unit"])
        if f is None:
            raise AnalysisBroken("group-law routine %s vanished from %s" % (name, spec["unit"]))
        best = [set()]

        def on_return(e, rc, facts, node, cl, pend, env):
            t = operand_tests(facts)
            if len(t) > len(best[0]):
                best[0] = t

        vp.run_facts(f, prog, on_return=on_return, track_generic=True)
        need = len(spec["cases"])
        n += 1
        if len(best[0]) >= need:
            res.proved("R06.1-special-cases-tested", function=name, file=f.relfile, line=f.line,
                       construct="%d operand condition(s) branched on" % len(best[0]),
                       detail="covers: " + "; ".join(spec["cases"]))
        else:
            res.violation("R06.1-special-cases-tested", function=name, file=f.relfile, line=f.line,
                          construct="only %d of %d special-case tests remain" % (len(best[0]), need),
                          detail="%s uses formulas that are wrong for {%s}; the most-tested path through it now branches on "
                                 "only %d operand condition(s) (%s): one of the special cases reaches the generic formula" %
                                 (name, "; ".join(spec["cases"]), len(best[0]), ", ".join(sorted(best[0])) or "none"))
    return n


def check_delegation(prog, res):
    n = 0
    for name, callees in sorted(DELEGATES.items()):
        unit = "src/math/ecp.c" if name.startswith("ecp") else "src/math/ec2.c"
        f = find(prog, name, unit)
        if f is None:
            raise AnalysisBroken("group-law routine %s vanished" % name)
        called = {c.get("callee") for c in ir.calls(f.body)}
        arith = {c for c in called if c and re.match(r"(qr|zm|gfp|gf2)(Sqr|Inv|Div)", c)}
        missing = [c for c in callees if c not in called]
        n += 1
        if not missing:
            res.proved("R06.2-derived-operations-delegate", function=name, file=f.relfile, line=f.line,
                       construct="calls " + ", ".join(callees), detail="no special-case handling of its own is needed")
        elif arith:
            res.violation("R06.2-derived-operations-delegate", function=name, file=f.relfile, line=f.line,
                          construct="no longer goes through %s" % ", ".join(missing),
                          detail="%s now carries field arithmetic of its own (%s) instead of delegating to %s; it is not in "
                                 "the special-case table, so its handling of O and P = +-Q is unchecked" %
                                 (name, ", ".join(sorted(arith))[:80], ", ".join(callees)))
        else:
            res.violation("R06.2-derived-operations-delegate", function=name, file=f.relfile, line=f.line,
                          construct="no longer goes through %s" % ", ".join(missing),
                          detail="%s must be computed as negation/doubling followed by the checked addition" % name)
    return n


def check_infinity_report(prog, res):
    n = 0
    for name in ("ecMulA", "ecAddMulA"):
        f = prog.funcs.get(name)
        if f is None or f.body is None:
            raise AnalysisBroken("%s vanished" % name)
        rets = [x for x in ir.walk(f.body) if x.get("k") == "Return" and x.get("e") is not None]
        bad = []
        for r in rets:
            e = strip(r["e"])
            ok = ir.int_val(e) == 0 or (e.get("k") == "Call" and e.get("callee") in ("ecToa", "ecToA", "ecpToAJ", "ec2ToALD")) or \
                (e.get("k") == "Ref")      # a flag variable: checked below
            if e.get("k") == "Ref":
                # ret = ecToA(..)-style flag: it must be assigned from the conversion somewhere
                ok = any(c.get("callee") in ("ecToa", "ecToA") for c in ir.calls(f.body))
            if not ok:
                bad.append(r)
        n += 1
        if bad:
            res.violation("R06.3-infinity-reported-by-conversion", function=name, file=f.relfile, line=bad[0].get("l", f.line),
                          construct="return value not derived from the to-affine conversion",
                          detail="%s must report `result is O` exactly when z = 0; its return value no longer comes from "
                                 "ecToA (which tests z) or a constant FALSE under a zero-scalar test" % name)
        else:
            res.proved("R06.3-infinity-reported-by-conversion", function=name, file=f.relfile, line=f.line,
                       construct="%d return(s)" % len(rets), detail="FALSE or the result of ecToA")
    return n


def run(tier, seed=0):
    res = Result("C06", "other", tier)
    prog = ir.Program("w64")
    table = mustcall.load_table("ec_special_cases.json")
    n1 = check_special_cases(prog, res, table)
    n2 = check_delegation(prog, res)
    n3 = check_infinity_report(prog, res)
    res.floor("group-law routines with special cases", n1, 12)
    res.floor("derived routines", n2, 5)
    res.coverage["explanation"] = (
        "For each of the %d addition/doubling routines of ecp.c and ec2.c (projective, mixed, affine) all paths are "
        "enumerated with the conditions branched on; the path that tested the most operand conditions must have tested "
        "at least as many as the routine has special cases (table tables/ec_special_cases.json, one reason per case, "
        "read off the formulas: O operands, P = +-Q detected by H = 0 / B = 0 / equal x, P = Q versus P = -Q, 2-torsion "
        "points in doubling). Subtraction routines must delegate to those. ecMulA/ecAddMulA return FALSE or the "
        "to-affine conversion's result. Correctness of the formulas, NAF recoding and SWU are value statements and are "
        "declined." % n1)
    res.assumptions = COMMON_ASSUMPTIONS + [
        "a special case counts as handled when the routine branches on its condition; that the branch then does the right thing is not decided",
        "tests of curve constants (A = 0, A = 1, A = -3 fast paths) are optimisations and are not counted either way",
        "a routine rewritten with complete (exception-free) formulas would need its table entry revised",
    ]
    return res
