"""CT: information-flow (taint) analysis on clang's optimised LLVM IR.

Every SSA value carries a set of *labels* naming the inputs it may depend on:
  ('p', i)      memory reachable through pointer parameter i
  ('v', i)      the value of scalar parameter i
  ('F', S, f)   field f of struct type S (one global cell per (type, field); flow-insensitive)
  ('G', name)   a mutable global
Per function a parametric summary is computed bottom-up: labels reaching the return value, labels written into each
parameter's pointee / struct field / global, and the label sets that reach a conditional branch, switch or indirect
branch (with the site).  Secrets are declared only at entry points; which state fields are secret is inferred."""
import json, os, re, subprocess, hashlib
from concurrent.futures import ThreadPoolExecutor
from . import frontend
from .frontend import AnalysisBroken, REPO, VERIF

IRDUMP = os.path.join(VERIF, "tools", "bin", "irdump")


def build_ir(units, level, extra=(), tag="ct"):
    """compile units to LLVM IR at the given optimisation level and load the JSON dumps: name -> function"""
    if not os.path.exists(IRDUMP):
        raise AnalysisBroken("tools/bin/irdump missing: run `make -C /verif/tools`")
    outdir = os.path.join(frontend.WORK, "ir", "%s%s" % (tag, level))
    os.makedirs(outdir, exist_ok=True)

    def one(u):
        base = os.path.join(outdir, os.path.relpath(u, REPO).replace("/", "__"))
        ll = base + ".ll"
        cmd = ["clang", level, "-g", "-DNDEBUG", "-std=gnu11", "-I%s/include" % REPO, "-I%s/src" % REPO] + list(extra) + \
              ["-S", "-emit-llvm", u, "-o", ll]
        p = subprocess.run(cmd, stdout=subprocess.PIPE, stderr=subprocess.PIPE, text=True)
        if p.returncode != 0:
            return (u, None, p.stderr[-500:])
        p = subprocess.run([IRDUMP, ll], stdout=subprocess.PIPE, stderr=subprocess.PIPE, text=True)
        if p.returncode != 0:
            return (u, None, p.stderr[-500:])
        return (u, json.loads(p.stdout), None)

    funcs = {}
    with ThreadPoolExecutor(max_workers=16) as ex:
        for u, d, err in ex.map(one, units):
            if err:
                raise AnalysisBroken("IR build failed for %s: %s" % (u, err))
            for f in d["functions"]:
                f["unit"] = u
                key = f["name"]
                if f.get("internal"):
                    key = "%s@%s" % (f["name"], os.path.basename(u))
                    funcs.setdefault(f["name"], f)      # also reachable by plain name inside its unit
                funcs[key] = f
    return funcs


STRUCT_RE = re.compile(r"^%struct\.([\w.]+)$")


class Summary:
    def __init__(self):
        self.ret = set()
        self.pw = {}          # param index -> labels written into its pointee
        self.fw = {}          # (S, f) -> labels
        self.gw = {}          # global -> labels
        self.sinks = []       # (labels frozenset, function name, line, kind)
        self.selects = 0
        self.indexed_loads = 0


class Analyzer:
    # callees whose data-dependent control flow is on memory they have just overwritten (not on the caller's secret)
    OPAQUE = {"memWipe": "scans the buffer it has just overwritten with a counter-derived pattern (anti-optimisation trick)"}

    def __init__(self, funcs, declassified=(), state_types=None, records=None):
        self.state_types = state_types or {}      # function name -> {param index: struct name}
        self.records = records or {}              # struct name -> record dict (fields with bit offsets)
        self.funcs = funcs
        self.summ = {}
        self.stack = set()
        self.declassified = set(declassified)      # callees whose return value is public by design (proved regular)
        self.unknown_calls = {}

    def resolve(self, name, unit):
        f = self.funcs.get("%s@%s" % (name, os.path.basename(unit)))
        if f is not None:
            return f
        f = self.funcs.get(name)
        if f is not None and not f.get("internal"):
            return f
        if f is not None and f.get("unit") == unit:
            return f
        return None

    def summary(self, f):
        key = (f["name"], f["unit"] if f.get("internal") else None)
        if key in self.summ:
            return self.summ[key]
        if key in self.stack:
            return Summary()            # recursion: assume nothing (bee2's regular code is not recursive)
        self.stack.add(key)
        s = self._analyse(f)
        self.stack.discard(key)
        self.summ[key] = s
        return s

    def _analyse(self, f):
        S = Summary()
        args = f["args"]
        argidx = {a["id"]: i for i, a in enumerate(args)}
        lab = {}        # value id -> set(labels)
        prov = {}       # value id -> set of provenance tuples
        st_types = self.state_types.get(f["name"], {})
        for a in args:
            if a["ptr"]:
                prov[a["id"]] = {("arg", argidx[a["id"]], 0)}
                lab[a["id"]] = set()
            else:
                lab[a["id"]] = {("v", argidx[a["id"]])}
        negated = {i_["id"] for b_ in f["blocks"] for i_ in b_["insts"]
                   if i_["op"] == "sub" and i_.get("ops") and i_["ops"][0].get("c") == 0 and "k" not in i_["ops"][0] and "id" in i_}
        cell = {}       # provenance -> labels stored (function-local view): ('alloca', id)
        insts = [(b["id"], i) for b in f["blocks"] for i in b["insts"]]

        def L(op):
            if "v" in op:
                return lab.get(op["v"], set())
            return set()

        def P(op):
            if "v" in op:
                return prov.get(op["v"], set())
            if "g" in op:
                return {("global", op["g"], bool(op.get("gconst")))}
            return set()

        def field_of(S_, off):
            r = self.records.get(S_)
            if r is None or off is None:
                return ("*", 0)
            best = None
            for fd in r["fields"]:
                if fd["off"] // 8 <= off:
                    best = (fd["n"], off - fd["off"] // 8)
            return best or ("*", 0)

        def arg_cell(p, reading=False):
            """('arg', i, off[, 'var']) -> label; sub-offsets distinguish the parts of one array field"""
            S_ = st_types.get(p[1])
            if S_ is None:
                return ("p", p[1])
            fn_, sub = field_of(S_, p[2])
            if len(p) > 3 and reading:
                sub = "any"
            return ("F", S_, fn_, sub)

        def cell_labels(pv):
            """labels of the memory designated by provenance pv"""
            out = set()
            for p in pv:
                if p[0] == "arg":
                    c_ = arg_cell(p, reading=True)
                    out.add(c_)
                    if c_[0] == "F" and c_[2] == "*":
                        out.add(("Fall", c_[1]))
                elif p[0] == "fld":
                    out.add(("F", p[1], p[2], "any"))
                elif p[0] == "alloca":
                    out |= cell.get(p, set())
                elif p[0] == "global":
                    if not p[2]:
                        out.add(("G", p[1]))
            return out

        def store_into(pv, labels):
            ch = False
            for p in pv:
                if p[0] == "arg":
                    c_ = arg_cell(p)
                    if c_[0] == "p":
                        cur = S.pw.setdefault(p[1], set())
                    else:
                        cur = S.fw.setdefault((c_[1], c_[2], c_[3]), set())
                elif p[0] == "fld":
                    cur = S.fw.setdefault((p[1], p[2], 0), set())
                elif p[0] == "alloca":
                    cur = cell.setdefault(p, set())
                elif p[0] == "global" and not p[2]:
                    cur = S.gw.setdefault(p[1], set())
                else:
                    continue
                if not labels <= cur:
                    cur |= labels
                    ch = True
            return ch

        changed = True
        rounds = 0
        sinks = {}
        while changed and rounds < 40:
            changed = False
            rounds += 1
            for bid, i in insts:
                op = i["op"]
                ops = i.get("ops", [])
                vid = i.get("id")
                newl, newp = None, None
                if op == "alloca":
                    newp = {("alloca", vid)}
                    newl = set()
                elif op in ("bitcast", "addrspacecast"):
                    newp = P(ops[0])
                    newl = L(ops[0])
                elif op == "getelementptr":
                    base = P(ops[0])
                    m = STRUCT_RE.match(i.get("srcty", ""))
                    idx = i.get("idx", [])
                    esz = {"i8": 1, "i16": 2, "i32": 4, "i64": 8, "i128": 16}.get(i.get("srcty", ""))
                    if m and len(idx) >= 2 and idx[0] == 0 and idx[1] is not None and \
                            any(p[0] in ("arg", "fld") for p in base):
                        r_ = self.records.get(m.group(1))
                        fname = r_["fields"][idx[1]]["n"] if r_ and idx[1] < len(r_["fields"]) else idx[1]
                        newp = {("fld", m.group(1), fname)} | {p for p in base if p[0] not in ("arg", "fld")}
                    else:
                        newp = set()
                        for p in base:
                            if p[0] == "arg":
                                if esz and len(idx) == 1 and idx[0] is not None and p[2] is not None:
                                    newp.add(("arg", p[1], p[2] + esz * idx[0]))
                                elif p[2] is not None:
                                    # variable index inside the field that contains this offset; a negated index
                                    # (end-of-array pointer minus a length) stays in the field that ends here
                                    negidx = any("v" in o and o["v"] in negated for o in ops[1:])
                                    newp.add(("arg", p[1], p[2] - 1 if (negidx and p[2] > 0) else p[2], "var"))
                                else:
                                    newp.add(("arg", p[1], None))
                            else:
                                newp.add(p)
                    newl = set()
                    for o in ops:
                        newl |= L(o)
                elif op == "load":
                    pv = P(ops[0])
                    newl = cell_labels(pv) | L(ops[0])
                    if L(ops[0]):
                        S.indexed_loads += 1 if rounds == 1 else 0
                    # a loaded pointer: unknown provenance derived from the cell (treated as pointing into the same object)
                    if i.get("type", "").endswith("*"):
                        newp = set(pv)
                elif op == "store":
                    if store_into(P(ops[1]), L(ops[0]) | L(ops[1])):
                        changed = True
                    continue
                elif op in ("br", "switch", "indirectbr"):
                    if op == "br" and len(ops) < 3:
                        continue
                    cl = L(ops[0])
                    if cl:
                        key = (f["name"], i.get("line", 0), op)
                        if not cl <= sinks.get(key, set()):
                            sinks.setdefault(key, set()).update(cl)
                    continue
                elif op == "select":
                    newl = L(ops[0]) | L(ops[1]) | L(ops[2])
                    newp = P(ops[1]) | P(ops[2])
                    if L(ops[0]) and rounds == 1:
                        S.selects += 1
                elif op == "phi":
                    newl, newp = set(), set()
                    for o in ops:
                        newl |= L(o)
                        newp |= P(o)
                elif op == "ret":
                    if ops:
                        before = len(S.ret)
                        S.ret |= L(ops[0])
                        if len(S.ret) != before:
                            changed = True
                    continue
                elif op in ("call", "invoke"):
                    cn = i.get("callee", "")
                    if cn.startswith("llvm.dbg") or cn.startswith("llvm.lifetime") or cn.startswith("llvm.assume") or \
                            cn.startswith("llvm.experimental.noalias"):
                        continue
                    if cn.startswith("llvm.memcpy") or cn.startswith("llvm.memmove") or cn in ("memcpy", "memmove"):
                        if store_into(P(ops[0]), cell_labels(P(ops[1])) | L(ops[1]) | L(ops[0])):
                            changed = True
                        newl, newp = L(ops[0]), P(ops[0])
                    elif cn.startswith("llvm.memset") or cn == "memset":
                        if store_into(P(ops[0]), L(ops[1]) | L(ops[0])):
                            changed = True
                        newl, newp = L(ops[0]), P(ops[0])
                    elif cn.startswith("llvm.") or cn == "<asm>":
                        # arithmetic intrinsics (bswap, ctlz, fshl, vector reduce, umin ...): value depends on operands
                        newl = set()
                        for o in ops:
                            newl |= L(o)
                    else:
                        callee = self.resolve(cn, f["unit"]) if cn not in ("<indirect>",) else None
                        if cn in self.OPAQUE:
                            continue
                        if callee is None:
                            self.unknown_calls.setdefault(cn, set()).add(f["name"])
                            newl = set()
                            for o in ops:
                                newl |= L(o) | cell_labels(P(o))
                            if cn in ("memcmp", "strcmp", "bcmp", "strlen", "memchr"):
                                # library routines that branch on the data they read
                                dl = set()
                                for o in ops[:2]:
                                    dl |= cell_labels(P(o)) | L(o)
                                if dl:
                                    key = (f["name"], i.get("line", 0), "call %s" % cn)
                                    sinks.setdefault(key, set()).update(dl)
                        else:
                            cs = self.summary(callee)

                            def inst(labels):
                                out = set()
                                for l in labels:
                                    if l[0] == "p":
                                        if l[1] < len(ops):
                                            out |= cell_labels(P(ops[l[1]])) | L(ops[l[1]])
                                    elif l[0] == "v":
                                        if l[1] < len(ops):
                                            out |= L(ops[l[1]])
                                    else:
                                        out.add(l)
                                return out
                            for j, ls in cs.pw.items():
                                if j < len(ops) and store_into(P(ops[j]), inst(ls)):
                                    changed = True
                            for k2, ls in cs.fw.items():
                                cur = S.fw.setdefault(k2, set())
                                nl = inst(ls)
                                if not nl <= cur:
                                    cur |= nl
                                    changed = True
                            for g, ls in cs.gw.items():
                                cur = S.gw.setdefault(g, set())
                                nl = inst(ls)
                                if not nl <= cur:
                                    cur |= nl
                                    changed = True
                            for (ls, fn, line, kind) in cs.sinks:
                                nl = inst(ls)
                                if nl:
                                    key = (fn, line, kind)
                                    if not nl <= sinks.get(key, set()):
                                        sinks.setdefault(key, set()).update(nl)
                            newl = set() if cn in self.declassified else inst(cs.ret)
                            if i.get("type", "").endswith("*"):
                                newp = set()
                                for o in ops:
                                    newp |= P(o)
                elif op in ("inttoptr",):
                    newl = L(ops[0])
                    newp = set()
                else:
                    # arithmetic, comparisons, casts, extract/insert element, shuffles ...
                    newl = set()
                    newp = set()
                    for o in ops:
                        newl |= L(o)
                        if op in ("ptrtoint", "extractvalue", "insertvalue", "extractelement", "insertelement", "shufflevector", "freeze"):
                            newp |= P(o)
                if vid is not None:
                    if newl is not None and not newl <= lab.get(vid, set()):
                        lab.setdefault(vid, set()).update(newl)
                        changed = True
                    elif vid not in lab:
                        lab[vid] = set(newl or ())
                    if newp and not newp <= prov.get(vid, set()):
                        prov.setdefault(vid, set()).update(newp)
                        changed = True
        S.sinks = [(frozenset(ls), fn, line, kind) for (fn, line, kind), ls in sinks.items()]
        return S


def _field_hot(l, TF):
    """read label ('F', S, f, k): hot if some tainted write (S, f, kw) may cover it (kw <= k, or either unknown)"""
    if l[2] == "*":
        return any(isinstance(k, tuple) and k[0] == l[1] for k in TF)
    for k in TF:
        if not isinstance(k, tuple) or k[0] != l[1]:
            continue
        if k[1] == "*":
            return True
        if k[1] != l[2]:
            continue
        if l[3] == "any" or k[2] == "any" or k[2] <= l[3]:
            return True
    return False


def resolve_entry(an, f, secret_ptr, secret_val, TF):
    """sinks of entry point f that depend on a secret: list of (function, line, kind, labels)"""
    s = an.summary(f)
    bad = []
    for ls, fn, line, kind in s.sinks:
        hot = {l for l in ls if (l[0] == "p" and l[1] in secret_ptr) or (l[0] == "v" and l[1] in secret_val) or
               (l[0] == "F" and _field_hot(l, TF)) or (l[0] == "G" and l[1] in TF) or
               (l[0] == "Fall" and any(k[0] == l[1] for k in TF if isinstance(k, tuple)))}
        if hot:
            bad.append((fn, line, kind, hot))
    return bad


def field_taint(an, entries):
    """entries: list of (func, secret_ptr set, secret_val set).  Least fixpoint of tainted (struct, field) cells / globals"""
    TF = set()
    changed = True
    while changed:
        changed = False
        for f, sp, sv in entries:
            s = an.summary(f)
            for cellmap in (s.fw, s.gw):
                for k, ls in cellmap.items():
                    if k in TF:
                        continue
                    for l in ls:
                        if (l[0] == "p" and l[1] in sp) or (l[0] == "v" and l[1] in sv) or \
                                (l[0] == "F" and _field_hot(l, TF)) or (l[0] == "G" and l[1] in TF) or \
                                (l[0] == "Fall" and any(k2[0] == l[1] for k2 in TF if isinstance(k2, tuple))):
                            TF.add(k)
                            changed = True
                            break
    return TF
