"""C20: PIN/CAN/PUK automaton.  Finite-model extraction from the AST of
btokPwdTransition (whitelisting partial evaluator over the two bit-fields and
the event enum) followed by exhaustive graph search on small product automata.
Nothing from bee2 is compiled or run."""
from collections import deque
from . import ir
from .ir import AnalysisBroken, show, strip
from .report import Result, COMMON_ASSUMPTIONS

UNIT = "src/crypto/btok/btok_pwd.c"
FUNC = "btokPwdTransition"


class _Ret(Exception):
    def __init__(self, v):
        self.v = v


class _Brk(Exception):
    pass


class Extractor:
    def __init__(self, prog):
        self.prog = prog
        f = prog.funcs.get(FUNC)
        if f is None or f.body is None:
            raise AnalysisBroken("anchor %s not found" % FUNC)
        self.f = f
        if len(f.params) != 2:
            raise AnalysisBroken("%s: expected (state, event)" % FUNC)
        self.p_state, self.p_event = f.params[0], f.params[1]
        recname = self.p_state["t"].replace("*", "").strip()
        rec = prog.records.get(recname)
        if rec is None:
            raise AnalysisBroken("record %s not found" % recname)
        self.fields = {}
        for fd in rec["fields"]:
            if "bits" not in fd:
                raise AnalysisBroken("field %s.%s is not a bit-field" % (recname, fd["n"]))
            self.fields[fd["n"]] = fd
        if set(self.fields) != {"pin", "auth"}:
            raise AnalysisBroken("state fields are %s, expected pin/auth" % sorted(self.fields))
        self.enums = {}
        for fn, fd in self.fields.items():
            en = prog.enums.get(fd["t"])
            if en is None:
                raise AnalysisBroken("enum %s not found" % fd["t"])
            self.enums[fn] = {x["n"]: x["v"] for x in en["e"]}
        ev = prog.enums.get(self.p_event["t"])
        if ev is None:
            raise AnalysisBroken("event enum %s not found" % self.p_event["t"])
        self.events = {x["n"]: x["v"] for x in ev["e"]}

    # --- evaluator over the whitelist
    def _lv(self, e):
        e = strip(e)
        if e.get("k") == "Member" and e.get("arrow") and strip(e["b"]).get("k") == "Ref" and \
                strip(e["b"])["id"] == self.p_state["id"] and e["f"] in self.fields:
            return ("field", e["f"])
        if e.get("k") == "Ref" and e.get("rk") == "local":
            return ("local", e["id"])
        raise AnalysisBroken("%s: unsupported lvalue %s (line %s)" % (FUNC, show(e), e.get("l")))

    def _store(self, lv, v, env):
        if lv[0] == "field":
            bits = self.fields[lv[1]]["bits"]
            env[lv[1]] = v & ((1 << bits) - 1)
        else:
            env[("local", lv[1])] = v

    def _load(self, lv, env):
        if lv[0] == "field":
            return env[lv[1]]
        if ("local", lv[1]) not in env:
            raise AnalysisBroken("%s: read of unset local" % FUNC)
        return env[("local", lv[1])]

    def ev(self, e, env):
        k = e.get("k")
        if k == "Int":
            return ir.int_val(e)
        if k == "Cast":
            return self.ev(e["e"], env)
        if k == "Ref":
            if e.get("rk") == "param" and e["id"] == self.p_event["id"]:
                return env["event"]
            if e.get("rk") == "local":
                return self._load(("local", e["id"]), env)
            raise AnalysisBroken("%s: unsupported reference %s" % (FUNC, show(e)))
        if k == "Member":
            return self._load(self._lv(e), env)
        if k == "Un":
            op = e["op"]
            if op == "!":
                return 0 if self.ev(e["e"], env) else 1
            if op in ("pre--", "pre++", "post--", "post++"):
                lv = self._lv(e["e"])
                old = self._load(lv, env)
                self._store(lv, old + (1 if "++" in op else -1), env)
                return old if op.startswith("post") else self._load(lv, env)
            if op == "-":
                return -self.ev(e["e"], env)
        if k == "Bin":
            op = e["op"]
            if op == "&&":
                return 1 if (self.ev(e["x"], env) and self.ev(e["y"], env)) else 0
            if op == "||":
                return 1 if (self.ev(e["x"], env) or self.ev(e["y"], env)) else 0
            if op == ",":
                self.ev(e["x"], env)
                return self.ev(e["y"], env)
            if op == "=":
                v = self.ev(e["y"], env)
                lv = self._lv(e["x"])
                self._store(lv, v, env)
                return self._load(lv, env)
            if op in ("+=", "-="):
                lv = self._lv(e["x"])
                v = self._load(lv, env) + (1 if op == "+=" else -1) * self.ev(e["y"], env)
                self._store(lv, v, env)
                return self._load(lv, env)
            a, b = self.ev(e["x"], env), self.ev(e["y"], env)
            table = {"==": lambda: a == b, "!=": lambda: a != b, "<": lambda: a < b, "<=": lambda: a <= b,
                     ">": lambda: a > b, ">=": lambda: a >= b}
            if op in table:
                return 1 if table[op]() else 0
            if op == "+":
                return a + b
            if op == "-":
                return a - b
        if k == "Cond":
            return self.ev(e["x"], env) if self.ev(e["c"], env) else self.ev(e["y"], env)
        if k == "Call" and e.get("callee") == "utilAssert":
            return 0
        raise AnalysisBroken("%s: construct outside the extraction whitelist: %s (line %s)" %
                             (FUNC, show(e)[:60], e.get("l")))

    def ex(self, s, env):
        if s is None:
            return
        k = s.get("k")
        if k == "Block":
            for c in s["b"]:
                self.ex(c, env)
        elif k == "Decls":
            for d in s["d"]:
                if d.get("init") is not None:
                    env[("local", d["id"])] = self.ev(d["init"], env)
        elif k == "If":
            if self.ev(s["c"], env):
                self.ex(s["then"], env)
            elif s.get("else"):
                self.ex(s["else"], env)
        elif k == "Return":
            raise _Ret(self.ev(s["e"], env) if s.get("e") else 0)
        elif k == "Break":
            raise _Brk()
        elif k == "Switch":
            v = self.ev(s["c"], env)
            items = s["body"]["b"] if s["body"].get("k") == "Block" else [s["body"]]
            flat = []   # (label or None, stmt)
            for it in items:
                while it is not None and it.get("k") in ("Case", "Default"):
                    flat.append((("case", ir.int_val(it["v"])) if it["k"] == "Case" else ("default",), None))
                    it = it.get("sub")
                if it is not None:
                    flat.append((None, it))
            start = None
            for i, (lab, _) in enumerate(flat):
                if lab and lab[0] == "case" and lab[1] == v:
                    start = i
                    break
            if start is None:
                for i, (lab, _) in enumerate(flat):
                    if lab and lab[0] == "default":
                        start = i
                        break
            if start is None:
                return
            try:
                for lab, st in flat[start:]:
                    if st is not None:
                        self.ex(st, env)
            except _Brk:
                pass
        elif k == "Null":
            pass
        elif k in ("While", "Do", "For", "Goto", "Label", "Asm"):
            raise AnalysisBroken("%s: statement kind %s outside the extraction whitelist" % (FUNC, k))
        else:
            self.ev(s, env)

    def step(self, pin, auth, event):
        env = {"pin": pin, "auth": auth, "event": event}
        try:
            self.ex(self.f.body, env)
            raise AnalysisBroken("%s: falls off the end without return" % FUNC)
        except _Ret as r:
            return (1 if r.v else 0, env["pin"], env["auth"])


def run(tier, seed=0):
    res = Result("C20", "model_checking", tier)
    prog = ir.Program("w64", units=[ir.REPO + "/" + UNIT])
    X = Extractor(prog)
    PIN, AUTH, EV = X.enums["pin"], X.enums["auth"], X.events
    need_pin = ["puk0", "puk1", "puk2", "puk3", "puk4", "puk5", "puk6", "puk7", "puk8", "puk9",
                "pin0", "pin1", "pind", "pins", "pin2", "pin3"]
    need_auth = ["auth_none", "auth_pin", "auth_can", "auth_puk"]
    need_ev = ["pin_ok", "pin_bad", "pin_deactivate", "pin_activate", "can_ok", "can_bad", "puk_ok", "puk_bad",
               "auth_close"]
    for names, have, what in ((need_pin, PIN, "pin state"), (need_auth, AUTH, "auth state"), (need_ev, EV, "event")):
        missing = [n for n in names if n not in have]
        if missing:
            raise AnalysisBroken("%s enumerators missing: %s" % (what, missing))
    pin_name = {v: k for k, v in PIN.items()}
    auth_name = {v: k for k, v in AUTH.items()}
    ev_name = {v: k for k, v in EV.items()}
    pinbits, authbits = X.fields["pin"]["bits"], X.fields["auth"]["bits"]

    # transition table over every representable state (so that leaving the enumerators is visible)
    unknown_event = max(EV.values()) + 1
    events = sorted(EV.values()) + [unknown_event]
    ev_name[unknown_event] = "<unknown>"
    T = {}
    for p in range(1 << pinbits):
        for a in range(1 << authbits):
            for e in events:
                T[(p, a, e)] = X.step(p, a, e)
    valid_pins, valid_auths = set(PIN.values()), set(AUTH.values())
    core = [(p, a, e) for p in sorted(valid_pins) for a in sorted(valid_auths) for e in events]
    res.floor("states", len(valid_pins) * len(valid_auths), 64)
    res.floor("transitions", len(core) - len(valid_pins) * len(valid_auths), 576)

    def nm(p, a):
        return "(%s,%s)" % (pin_name.get(p, p), auth_name.get(a, a))

    init = [(PIN[n], AUTH["auth_none"]) for n in need_pin]
    blocked = {PIN[n] for n in need_pin if n.startswith("puk")} | {PIN["pin0"]}
    file, fn = ir.relpath(X.f.file), FUNC

    # reachable plain states with witness paths
    def bfs(starts, succ):
        parent = {s: None for s in starts}
        q = deque(starts)
        while q:
            s = q.popleft()
            for lab, t in succ(s):
                if t not in parent:
                    parent[t] = (s, lab)
                    q.append(t)
        return parent

    def witness(parent, s):
        out = []
        while parent[s] is not None:
            s, lab = parent[s]
            out.append(lab)
        out.reverse()
        return out

    def plain_succ(s):
        for e in events:
            acc, p2, a2 = T[(s[0], s[1], e)]
            yield ev_name[e], (p2, a2)

    reach = bfs(init, plain_succ)
    ntrans = 0

    def rule(name, ok, construct, detail, path=None, line=X.f.line):
        if ok:
            res.proved(name, function=fn, file=file, line=line, construct=construct, detail=detail)
        else:
            res.violation(name, function=fn, file=file, line=line, construct=construct, detail=detail, path=path)

    # R1 rejection is silent; successors stay inside the enumerators
    bad = []
    for s in sorted(reach):
        for e in events:
            ntrans += 1
            acc, p2, a2 = T[(s[0], s[1], e)]
            if not acc and (p2, a2) != s:
                bad.append(("rejected %s in %s changes the state to %s" % (ev_name[e], nm(*s), nm(p2, a2)),
                            witness(reach, s) + [ev_name[e]]))
            if p2 not in valid_pins or a2 not in valid_auths:
                bad.append(("%s in %s leaves the enumerated states: %s" % (ev_name[e], nm(*s), nm(p2, a2)),
                            witness(reach, s) + [ev_name[e]]))
    rule("R20.1-rejection-silent", not bad, "rejected events / enumerator closure",
         bad[0][0] if bad else "all %d reachable states x %d events" % (len(reach), len(events)),
         ["events: " + " ".join(bad[0][1])] if bad else None)
    acc_unknown = [s for s in reach if T[(s[0], s[1], unknown_event)][0]]
    rule("R20.1-unknown-event-rejected", not acc_unknown, "event outside the enum",
         "accepted in %s" % nm(*acc_unknown[0]) if acc_unknown else "rejected in every reachable state")

    # R2/R3 product: (pin, auth, k, c)  k = accepted pin_bad since last accepted pin_ok/puk_ok (cap 4),
    # c = can_ok accepted since k became 2
    E = EV

    def prod23(s):
        p, a, k, c = s
        for e in events:
            acc, p2, a2 = T[(p, a, e)]
            k2, c2 = k, c
            if acc:
                if e == E["pin_bad"]:
                    k2 = min(k + 1, 4)
                    if k2 == 2:
                        c2 = False
                elif e in (E["pin_ok"], E["puk_ok"]):
                    k2, c2 = 0, False
                elif e == E["can_ok"] and k == 2:
                    c2 = True
            yield ev_name[e], (p2, a2, k2, c2)

    st23 = bfs([(p, a, 0, False) for p, a in init], prod23)
    v2 = [s for s in st23 if s[2] >= 4]
    rule("R20.2-three-strikes", not v2, "4th consecutive accepted pin_bad",
         "a 4th wrong PIN is accepted" if v2 else "no path with 4 accepted pin_bad without pin_ok/puk_ok (%d product states)" % len(st23),
         ["events: " + " ".join(witness(st23, min(v2, key=lambda s: len(witness(st23, s)))))] if v2 else None)
    v2b = [s for s in st23 if s[2] == 3 and s[0] not in blocked]
    rule("R20.2-blocked-after-three", not v2b, "state after 3 consecutive wrong PINs",
         "pin state %s after three wrong PINs is not blocked" % pin_name.get(v2b[0][0], v2b[0][0]) if v2b else
         "every state with k=3 is in {pin0, puk0..puk9}",
         ["events: " + " ".join(witness(st23, v2b[0]))] if v2b else None)
    v2c = [s for s in reach if s[0] in blocked and (T[(s[0], s[1], E["pin_ok"])][0] or T[(s[0], s[1], E["pin_bad"])][0])]
    rule("R20.2-no-attempt-while-blocked", not v2c, "pin_ok/pin_bad in a blocked state",
         "PIN attempt accepted in blocked state %s" % nm(*v2c[0]) if v2c else "rejected in all blocked states",
         ["events: " + " ".join(witness(reach, v2c[0]))] if v2c else None)
    v2d = [s for s in reach if T[(s[0], s[1], E["pin_ok"])][0] != T[(s[0], s[1], E["pin_bad"])][0]]
    rule("R20.2-attempt-permission-symmetric", not v2d, "accepted(pin_ok) == accepted(pin_bad)",
         "in %s a PIN attempt is admitted depending on its outcome" % nm(*v2d[0]) if v2d else "same in every reachable state",
         ["events: " + " ".join(witness(reach, v2d[0]))] if v2d else None)
    v3 = []
    for s in st23:
        p, a, k, c = s
        if k == 2 and not c:
            for e in (E["pin_ok"], E["pin_bad"]):
                if T[(p, a, e)][0]:
                    v3.append((s, e))
    rule("R20.3-can-before-last-try", not v3, "PIN attempt after two wrong PINs without can_ok",
         "%s accepted in %s after two wrong PINs and no correct CAN" % (ev_name[v3[0][1]], nm(v3[0][0][0], v3[0][0][1])) if v3
         else "pin_ok/pin_bad rejected in all %d product states with k=2 and no CAN" % sum(1 for s in st23 if s[2] == 2 and not s[3]),
         ["events: " + " ".join(witness(st23, v3[0][0]) + [ev_name[v3[0][1]]])] if v3 else None)

    # R4 only PUK unblocks; ten wrong PUKs are final
    v4 = []
    for s in reach:
        if s[0] in blocked:
            for e in events:
                acc, p2, a2 = T[(s[0], s[1], e)]
                if p2 not in blocked and e != E["puk_ok"]:
                    v4.append((s, e))
    rule("R20.4-only-puk-unblocks", not v4, "leaving {pin0, puk0..puk9}",
         "%s in %s unblocks the PIN" % (ev_name[v4[0][1]], nm(*v4[0][0])) if v4 else "only puk_ok leaves the blocked set",
         ["events: " + " ".join(witness(reach, v4[0][0]) + [ev_name[v4[0][1]]])] if v4 else None)
    v4b = []
    for s in reach:
        if s[0] == PIN["puk0"]:
            for e in events:
                if T[(s[0], s[1], e)][1] != PIN["puk0"]:
                    v4b.append((s, e))
    rule("R20.4-puk0-final", not v4b, "leaving puk0",
         "%s in %s changes the pin state" % (ev_name[v4b[0][1]], nm(*v4b[0][0])) if v4b else "no event changes pin in puk0",
         ["events: " + " ".join(witness(reach, v4b[0][0]) + [ev_name[v4b[0][1]]])] if v4b else None)

    def prod4(s):
        p, a, j = s
        for e in events:
            if e == E["puk_ok"]:
                continue
            acc, p2, a2 = T[(p, a, e)]
            j2 = min(j + 1, 11) if (acc and e == E["puk_bad"]) else j
            yield ev_name[e], (p2, a2, j2)

    st4 = bfs([(PIN["pin0"], a, 0) for a in sorted(valid_auths) if (PIN["pin0"], a) in reach], prod4)
    v4c = [s for s in st4 if s[2] >= 10 and s[0] != PIN["puk0"]]
    rule("R20.4-ten-wrong-puks", not v4c, "state after 10 wrong PUKs from pin0",
         "pin state %s after ten accepted puk_bad" % pin_name.get(v4c[0][0], v4c[0][0]) if v4c else
         "every path with 10 accepted puk_bad and no puk_ok ends in puk0 (%d product states)" % len(st4),
         ["events: " + " ".join(witness(st4, v4c[0]))] if v4c else None)
    v4d = [s for s in reach if s[0] in blocked and s[0] != PIN["puk0"] and
           T[(s[0], s[1], E["puk_ok"])][0] != T[(s[0], s[1], E["puk_bad"])][0]]
    v4e = [s for s in reach if s[0] in blocked and s[0] != PIN["puk0"] and T[(s[0], s[1], E["puk_ok"])][0] and
           T[(s[0], s[1], E["puk_bad"])][0] and T[(s[0], s[1], E["puk_bad"])][1] == s[0]]
    rule("R20.4-wrong-puk-counted", not (v4d or v4e), "puk_bad in blocked states",
         ("in %s a wrong PUK is not counted although a right one would be accepted" % nm(*(v4d or v4e)[0])) if (v4d or v4e)
         else "every accepted wrong PUK in puk1..pin0 changes the counter",
         ["events: " + " ".join(witness(reach, (v4d or v4e)[0]))] if (v4d or v4e) else None)

    # R5 deactivated state
    v5 = []
    for s in reach:
        if s[0] == PIN["pind"]:
            for e in events:
                acc, p2, a2 = T[(s[0], s[1], e)]
                if p2 != PIN["pind"] and not (e == E["pin_activate"] and s[1] == AUTH["auth_puk"]):
                    v5.append((s, e))
    rule("R20.5-deactivated", not v5, "leaving pind",
         "%s in %s leaves the deactivated state" % (ev_name[v5[0][1]], nm(*v5[0][0])) if v5 else
         "pind is left only by pin_activate under auth_puk",
         ["events: " + " ".join(witness(reach, v5[0][0]) + [ev_name[v5[0][1]]])] if v5 else None)

    # R6 at most the latest authentication
    okmap = {E["pin_ok"]: AUTH["auth_pin"], E["can_ok"]: AUTH["auth_can"], E["puk_ok"]: AUTH["auth_puk"]}

    def prod6(s):
        p, a, L = s
        for e in events:
            acc, p2, a2 = T[(p, a, e)]
            L2 = okmap[e] if (acc and e in okmap) else L
            yield ev_name[e], (p2, a2, L2)

    st6 = bfs([(p, a, AUTH["auth_none"]) for p, a in init], prod6)
    v6 = [s for s in st6 if s[1] not in (AUTH["auth_none"], s[2])]
    rule("R20.6-latest-auth-only", not v6, "auth vs most recent accepted *_ok",
         "auth=%s while the most recent successful password is %s" % (auth_name.get(v6[0][1]), auth_name.get(v6[0][2])) if v6
         else "auth in {none, latest} in all %d product states" % len(st6),
         ["events: " + " ".join(witness(st6, min(v6, key=lambda s: len(witness(st6, s)))))] if v6 else None)

    longest = max(reach, key=lambda s: len(witness(reach, s)))
    res.coverage.update({
        "states": len(reach), "transitions": ntrans,
        "traces_validated_against_impl": 0,
        "product_states": {"R2/R3": len(st23), "R4": len(st4), "R6": len(st6)},
        "exhaustive": True,
        "extracted_from": "%s:%d %s (AST, bit-field widths %d/%d, enum values from the AST)" %
                          (file, X.f.line, FUNC, pinbits, authbits),
        "explanation": "transition table (pin,auth,event)->(accepted,pin',auth') obtained by partial evaluation of the "
                       "function's AST for all %d triples; rules checked by BFS on product automata" % len(T),
    })
    res.samples = [
        {"row": "%s --%s--> %s %s" % (nm(p, a), ev_name[e], "accept" if T[(p, a, e)][0] else "reject",
                                      nm(T[(p, a, e)][1], T[(p, a, e)][2]))}
        for (p, a, e) in [(PIN["pin3"], 0, E["pin_bad"]), (PIN["pin2"], 0, E["pin_bad"]), (PIN["pins"], 0, E["pin_ok"]),
                          (PIN["pins"], 0, E["can_ok"]), (PIN["pin1"], AUTH["auth_can"], E["pin_bad"]),
                          (PIN["pin0"], 0, E["puk_bad"]), (PIN["puk1"], 0, E["puk_bad"]),
                          (PIN["pind"], AUTH["auth_puk"], E["pin_activate"])]
    ] + [{"longest_shortest_witness": witness(reach, longest), "to": nm(*longest)}]
    res.assumptions = COMMON_ASSUMPTIONS + [
        "callers use btokPwdTransition as the only writer of btok_pwd_state (the property is about the automaton itself)",
        "initial set = every enumerated pin state with auth_none, as the statement says",
        "traces_validated_against_impl is 0 by construction: the model is extracted from the implementation's AST, nothing is executed",
    ]
    return res
