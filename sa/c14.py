"""C14: regular (SAFE) routines, tag checks and symmetric primitives execute no branch that depends on secret data.
Information-flow analysis on the IR clang emits from the current tree (sa/ct.py):
G1 the regular editions (discovered: f and f_fast both defined);  G2 verification steps and key-header comparisons
(+ call-target rule: they compare through the regular memEq/memIsZero);  G3 the symmetric primitives.
`SAFE equals FAST on all inputs' is a value statement and is declined."""
import os, re
from . import ir, ct
from .ir import AnalysisBroken, strip, walk
from .report import Result, COMMON_ASSUMPTIONS

PUBLIC_PTR_PARAMS = {"hex"}      # hexEq*: the hexadecimal string is the public reference value
WORD_TYPES = {"word", "u16", "u32", "u64", "dword", "register word", "octet", "const word"}

G2_NAMES = ["beltMACStepV", "beltMACStepV2", "beltDWPStepV", "beltCHEStepV", "beltHashStepV", "beltHashStepV2",
            "beltHMACStepV", "beltHMACStepV2", "bashHashStepV"]
G2_HEADER = ["beltKWPUnwrap", "bignKeyUnwrap"]
G3_UNITS = ["src/crypto/belt/belt_block.c", "src/crypto/belt/belt_wbl.c", "src/crypto/belt/belt_compr.c",
            "src/crypto/belt/belt_lcl.c"]
G3_STEP_UNITS = re.compile(r"^src/crypto/(belt/belt_(ecb|cbc|cfb|ctr|mac|dwp|che|kwp|hash|hmac|bde|sde|krp)\.c|bash/bash_(f|hash|prg)\.c)$")
G3_STEP_NAME = re.compile(r"(Step[A-Z]\w*|Start|bashF\w*|Commit|Absorb|Squeeze|Ratchet|Restart)$")
REGULAR_CMP = {"memEq", "memIsZero", "memCmp", "wwEq", "wwIsZero"}
IRREGULAR_CMP = {"memcmp", "bcmp", "strcmp", "strEq", "strCmp", "memEq_fast", "memIsZero_fast", "memCmp_fast"}


def regular_editions(prog):
    names = {f.name for f in prog.all_funcs() if not f.static and f.body is not None}
    return sorted(n[:-5] for n in names if n.endswith("_fast") and n[:-5] in names)


def state_types(prog):
    """function -> {param index: struct name}: the struct a void*/octet* state parameter is cast to in the body"""
    out = {}
    for f in prog.all_funcs(with_headers=True):
        if f.body is None:
            continue
        pidx = {p["id"]: i for i, p in enumerate(f.params) if p.get("p")}
        m = {}
        for n in walk(f.body):
            if n.get("k") == "Cast" and strip(n["e"]).get("k") == "Ref" and strip(n["e"]).get("id") in pidx:
                t = (n.get("t") or "").replace("const ", "").strip()
                if t.endswith("*"):
                    sn = t[:-1].strip()
                    if sn in prog.records:
                        m.setdefault(pidx[strip(n["e"])["id"]], sn)
        # parameters declared with a struct pointer type
        for p in f.params:
            t = (p.get("t") or "").replace("const ", "").strip()
            if t.endswith("*") and t[:-1].strip() in prog.records:
                m.setdefault(pidx.get(p["id"], -1), t[:-1].strip())
        if m:
            out[f.name] = m
    return out


def seeds_for(astf, irf, state_inferred=True):
    """(secret pointer param indices, secret scalar param indices) for an entry point"""
    sp, sv = set(), set()
    for i, p in enumerate(astf.params):
        if i >= len(irf["args"]):
            break
        if p.get("p"):
            if p.get("pf"):
                continue
            if p["n"] in PUBLIC_PTR_PARAMS:
                continue
            if state_inferred and p["n"] in ("state", "stack") :
                continue
            sp.add(i)
        else:
            t = (p.get("t") or "").replace("register ", "").replace("const ", "")
            if t in ("word", "u16", "u32", "u64", "dword", "octet"):
                sv.add(i)
    return sp, sv


def check_level(prog, res, level, units, tier):
    funcs = ct.build_ir(units, level)
    regs = regular_editions(prog)
    res.floor("regular editions", len(regs), 33)
    # --- G1
    stt = state_types(prog)
    an1 = ct.Analyzer(funcs, state_types={}, records=prog.records)
    proved_g1 = []
    for name in regs:
        astf = prog.funcs.get(name)
        irf = funcs.get(name)
        if astf is None or irf is None:
            raise AnalysisBroken("regular edition %s has no AST/IR definition" % name)
        sp, sv = seeds_for(astf, irf, state_inferred=False)
        bad = ct.resolve_entry(an1, irf, sp, sv, set())
        if bad:
            for fn, line, kind, hot in sorted(bad)[:3]:
                srcs = sorted({astf.params[l[1]]["n"] if l[0] in ("p", "v") and l[1] < len(astf.params) else str(l) for l in hot})
                res.violation("G1-regular-edition-branch-free", function=name, file=astf.relfile, line=line,
                              construct="clang %s: %s on secret data" % (level, kind),
                              detail="in the code clang %s emits for the regular edition %s a conditional %s (in %s, line %d) depends "
                                     "on the operand(s) %s: its executed-branch sequence depends on operand values" %
                                     (level, name, kind, fn, line, ", ".join(srcs)))
        else:
            proved_g1.append(name)
            s = an1.summary(irf)
            res.proved("G1-regular-edition-branch-free", function=name, file=astf.relfile, line=astf.line,
                       construct="clang %s" % level,
                       detail="no br/switch/indirectbr condition depends on %s (%d select(s) and %d data-indexed load(s) on secret data are not branches)" %
                              (", ".join(astf.params[i]["n"] for i in sorted(sp | sv)) or "-", s.selects, s.indexed_loads))
    # --- G2 / G3: entry points of the symmetric units, state fields inferred
    declass = set(regs)
    an = ct.Analyzer(funcs, declassified=declass, state_types=stt, records=prog.records)
    entries = []
    sym_units = {u for u in units if re.search(r"/crypto/(belt|bash)/", u)}
    for f in prog.all_funcs():
        if f.unit in sym_units and not f.static and f.body is not None and f.name in funcs and f.public:
            irf = funcs[f.name]
            sp, sv = seeds_for(f, irf)
            entries.append((irf, sp, sv, f))
    TF = ct.field_taint(an, [(e[0], e[1], e[2]) for e in entries])
    res.coverage.setdefault("secret_fields", {})[level] = sorted({"%s.%s+%s" % (k[0], k[1], k[2]) if isinstance(k, tuple) else str(k) for k in TF})
    g2 = [e for e in entries if e[3].name in G2_NAMES]
    if len(g2) < len(G2_NAMES):
        missing = sorted(set(G2_NAMES) - {e[3].name for e in g2})
        raise AnalysisBroken("verification steps vanished: %s" % missing)
    g3 = [e for e in entries if (e[3].relfile in G3_UNITS) or (G3_STEP_UNITS.match(e[3].relfile) and G3_STEP_NAME.search(e[3].name))]
    res.floor("symmetric primitive entry points", len(g3), 80)
    for group, rule, lst in (("G2", "G2-verification-step-branch-free", g2), ("G3", "G3-symmetric-primitive-branch-free", g3)):
        for irf, sp, sv, astf in lst:
            if group == "G3" and astf.name in G2_NAMES:
                continue
            bad = ct.resolve_entry(an, irf, sp, sv, TF)
            if bad:
                for fn, line, kind, hot in sorted(bad, key=lambda x: (x[0], x[1]))[:3]:
                    what = sorted({astf.params[l[1]]["n"] if l[0] in ("p", "v") and l[1] < len(astf.params) else
                                   "state field %s.%s[+%s]" % (l[1], l[2], l[3]) if l[0] == "F" else str(l) for l in hot})
                    res.violation(rule, function=astf.name, file=astf.relfile, line=line,
                                  construct="clang %s: %s in %s on secret data" % (level, kind, fn),
                                  detail="a conditional %s at %s:%d depends on %s" % (kind, fn, line, ", ".join(what)))
            else:
                res.proved(rule, function=astf.name, file=astf.relfile, line=astf.line, construct="clang %s" % level,
                           detail="no branch condition depends on key, data, tag or secret state fields")
    return funcs


def _open_coded_tests(f, cmps):
    """branch conditions that read, outside a regular comparison call, a buffer which the function also hands to the
    regular comparison routines (the tag, the hash, the recovered key header)"""
    from . import vp
    canon = vp.Canon(f)
    bufs = set()
    for c in cmps:
        if c.get("callee") in REGULAR_CMP:
            for a in c["a"][:2]:
                if ir.strip(a).get("p"):
                    bufs.add(canon(a))
    bufs.discard("")
    out = []

    def reads(e, in_cmp):
        if not isinstance(e, dict):
            return
        if e.get("k") == "Call":
            inside = in_cmp or e.get("callee") in REGULAR_CMP
            for a in e["a"]:
                reads(a, inside)
            return
        if e.get("k") in ("Index", "Un") and not in_cmp and (e.get("k") == "Index" or e.get("op") == "*"):
            base = e["b"] if e.get("k") == "Index" else e["e"]
            r = ir.root_ref(base)
            nm = canon(base)
            for b in bufs:
                if nm == b or nm.startswith(b + "+") or (r is not None and canon(r) == b):
                    out.append((e.get("l") or f.line, ir.show(e), b))
                    return
        for k in ir.kids(e):
            reads(k, in_cmp)
    for n in ir.walk(f.body):
        if n.get("k") in ("If", "While", "Do", "For") and isinstance(n.get("c"), dict):
            reads(n["c"], False)
        elif n.get("k") == "Cond":
            reads(n["c"], False)
    return out


def check_call_targets(prog, res):
    """G2: the comparison of tags / hashes / key headers goes through the regular comparison routines"""
    for name in G2_NAMES + G2_HEADER:
        f = prog.funcs.get(name)
        if f is None or f.body is None:
            raise AnalysisBroken("anchor %s vanished" % name)
        cmps = [c for c in ir.calls(f.body) if c.get("callee") in REGULAR_CMP | IRREGULAR_CMP]
        bad = [c for c in cmps if c.get("callee") in IRREGULAR_CMP]
        # open-coded comparison loops: a loop whose body compares octets of a parameter and breaks/returns
        if bad:
            for c in bad:
                res.violation("G2-compare-through-regular-routine", function=name, file=f.relfile, line=c["l"],
                              construct="comparison by %s" % c["callee"],
                              detail="%s compares secret-dependent octets with %s, which exits at the first difference" % (name, c["callee"]))
        elif not cmps:
            res.violation("G2-compare-through-regular-routine", function=name, file=f.relfile, line=f.line,
                          construct="no call to memEq/memIsZero",
                          detail="%s no longer compares through the regular memEq/memIsZero (open-coded or irregular comparison)" % name)
        elif _open_coded_tests(f, cmps):
            for ln, txt, buf in _open_coded_tests(f, cmps):
                res.violation("G2-compare-through-regular-routine", function=name, file=f.relfile, line=ln,
                              construct="condition reads %s directly" % buf,
                              detail="%s branches on `%s`, which reads the compared buffer `%s` itself instead of going through "
                                     "memEq/memIsZero: an open-coded test (a short-circuit chain of word tests, say) depends on where "
                                     "the first difference is" % (name, txt[:60], buf))
        else:
            res.proved("G2-compare-through-regular-routine", function=name, file=f.relfile, line=cmps[0]["l"],
                       construct="comparison by %s" % ", ".join(sorted({c["callee"] for c in cmps})),
                       detail="the regular edition (unsuffixed name in the default build) is called")


def run(tier, seed=0):
    res = Result("C14", "other", tier)
    prog = ir.Program("w64ndebug")
    units = frontend_units()
    check_call_targets(prog, res)
    levels = ["-O2"] if tier == "quick" else ["-O1", "-O2", "-O3"]
    for lv in levels:
        check_level(prog, res, lv, units, tier)
    res.coverage["explanation"] = (
        "Label-based information-flow analysis over the LLVM IR clang 14 emits (%s) for all 83 units: parametric "
        "summaries per function (labels reaching the return value, each parameter's pointee, each (struct, field) cell, "
        "each mutable global, and each br/switch/indirectbr condition), instantiated at call sites; secrets are declared "
        "only at entry points (pointees of data pointers, word-typed scalars; sizes and lengths are public) and the set "
        "of secret state fields is inferred as a least fixpoint. A branch condition carrying a secret label is a violation "
        "reported with the function and line of the branch. `select` and data-indexed loads on secrets are counted, not "
        "flagged (safe.h sets cache effects aside)." % ", ".join(levels))
    res.assumptions = COMMON_ASSUMPTIONS + [
        "the verdict is about the IR of the clang 14 in this image at the listed optimisation levels; the x86 backend may still turn a select into a branch and other compilers (the baseline was built with gcc 12) are not covered",
        "return values of proved regular editions are declassified (their boolean / ordering result is the function's public purpose)",
        "one abstract cell per (struct type, field), flow-insensitive; raw pointer arithmetic on a state is attributed to the whole parameter",
    ]
    return res


def frontend_units():
    from . import frontend
    return frontend.unit_list()
