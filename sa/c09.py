"""C09: error contract.
(a) argument preconditions asserted by callees are established by the public caller (sa/pc.py);
(b) allocation failure: null test before use, failure reported as failure, nothing left allocated,
    v = blobResize(v, ..) does not lose the old block (blob typestate, sa/blobs.py);
(c) verify before release: outputs of the unwrap family are not left written on an
    authentication-failure return, and success returns are dominated by the accepting verifier;
(d) no err_t result is dropped."""
from . import ir, blobs
from .ir import AnalysisBroken, strip, show, walk, root_ref
from .report import Result, COMMON_ASSUMPTIONS

AUTH_CLASS = {"ERR_BAD_MAC", "ERR_BAD_KEYTOKEN", "ERR_AUTH", "ERR_BAD_SIG", "ERR_BAD_PWD", "ERR_BAD_CERT"}

# (c) the unwrap family: function -> (output parameters, parameter whose null value selects the documented unprotected mode)
FAMILY = {
    "beltDWPUnwrap": (["dest"], None),
    "beltCHEUnwrap": (["dest"], None),
    "beltKWPUnwrap": (["dest"], None),
    "bignKeyUnwrap": (["key"], None),
    "bpkiPrivkeyUnwrap": (["privkey"], None),
    "bpkiShareUnwrap": (["share"], None),
    "btokSMCmdUnwrap": (["cmd"], "state"),
    "btokSMRespUnwrap": (["resp"], "state"),
}
CLEARERS = {"memSetZero", "memWipe", "memSet"}


def is_verifier(name):
    return name is not None and (name.endswith("StepV") or name.endswith("StepV2") or
                                 name in ("memEq", "memIsZero", "btokVerify", "wwEq", "bignVerify", "bign96Verify"))


def err_names(prog):
    """value -> macro name for every ERR_* constant that appears in the program"""
    m = {}
    for f in prog.all_funcs():
        for n in walk(f.body):
            if n.get("k") == "Int" and str(n.get("m", "")).startswith("ERR_"):
                v = ir.int_val(n)
                if v is not None:
                    m.setdefault(v, n["m"])
    return m


class ReleaseClient(ir.Client):
    """state: (out states tuple, verified, unprot, prov)  prov = frozenset of err vars holding a family callee's verdict"""

    def __init__(self, func, prog, outs, unprot_param, errname):
        self.func, self.prog = func, prog
        self.outs = {p["id"]: p["n"] for p in func.params if p["n"] in outs}
        self.unprot = [p["id"] for p in func.params if p["n"] == unprot_param]
        self.errname = errname
        self.viol = {}
        self.nret = {"success": 0, "auth": 0, "other": 0}
        self.writes = 0
        self.verif_sites = set()

    def init(self, func):
        return (tuple((o, "C") for o in sorted(self.outs)), False, False, frozenset())

    def _v(self, rule, node, construct, detail, st=None):
        self.viol.setdefault((rule, construct, node.line), dict(rule=rule, line=node.line, construct=construct,
                                                               detail=detail, node=node, st=st))

    def eval(self, e, st, env, node):
        outs, verified, unprot, prov = st
        o = dict(outs)
        # assignments to err vars from family callees -> provenance
        for l, rhs, op in ir.assigned_vars(e):
            if l["id"] in prov:
                prov = prov - {l["id"]}
            if rhs is not None and ir.is_call(rhs) and strip(rhs).get("callee") in FAMILY:
                prov = prov | {l["id"]}
        for n in walk(e):
            k = n.get("k")
            if k == "Call":
                cn = n.get("callee")
                if cn == "utilAssert":
                    continue
                proto = self.prog.proto(cn, self.func.unit) if cn else None
                for i, a in enumerate(n["a"]):
                    r = root_ref(a)
                    if r is None or r.get("id") not in o or not (strip(a).get("p") or strip(a).get("k") in ("Ref", "Member", "Bin", "Un", "Cast")):
                        continue
                    if not _is_pointerish(a):
                        continue
                    writable = True
                    if proto is not None and i < len(proto.params):
                        writable = bool(proto.params[i].get("p")) and not proto.params[i].get("pc")
                    if not writable:
                        continue
                    if cn in CLEARERS:
                        o[r["id"]] = "Z"
                    elif cn in FAMILY:
                        o[r["id"]] = "FW"
                        self.writes += 1
                    else:
                        o[r["id"]] = "W"
                        self.writes += 1
            elif k == "Bin" and n["op"] in ir.ASSIGN_OPS:
                l = strip(n["x"])
                if l.get("k") in ("Un", "Member", "Index"):
                    r = root_ref(l)
                    if r is not None and r.get("id") in o and (l.get("k") != "Un" or l["op"] == "*"):
                        o[r["id"]] = "W"
                        self.writes += 1
        return (tuple(sorted(o.items())), verified, unprot, prov)

    def assume(self, c, pol, st, env, node):
        outs, verified, unprot, prov = st
        c = strip(c)
        if c.get("k") == "Ref" and c.get("id") in self.unprot and pol is False:
            unprot = True
        if c.get("k") == "Bin" and c["op"] in ("==", "!=") and (ir.is_int(c["y"], 0) or ir.is_int(c["x"], 0)):
            side = strip(c["x"] if ir.is_int(c["y"], 0) else c["y"])
            if side.get("k") == "Ref" and side.get("id") in self.unprot:
                isnull = pol if c["op"] == "==" else not pol
                if isnull:
                    unprot = True
        if ir.is_call(c) and is_verifier(c.get("callee")):
            self.verif_sites.add((c.get("callee"), c.get("l")))
            if pol:
                verified = True
        env2 = ir.refine(c, pol, env)
        for p in prov:
            if env2.get(p) == ("c", 0):
                verified = True
        return (outs, verified, unprot, prov)

    def ret(self, e, st, env, node):
        outs, verified, unprot, prov = st
        if unprot:
            return st
        rv = ir.eval_abs(e, env) if e is not None else "void"
        cls = "other"
        if rv == ("c", 0):
            cls = "success"
        elif rv != "void" and rv is not ir.TOP and rv[0] == "c":
            if self.errname.get(rv[1]) in AUTH_CLASS:
                cls = "auth"
        else:
            # propagated code
            r = strip(e) if e is not None else None
            if r is not None and r.get("k") == "Ref" and r["id"] in prov:
                cls = "auth"
        self.nret[cls] += 1
        for oid, s in outs:
            name = self.outs[oid]
            if cls == "auth" and s == "W":
                self._v("R09c-no-release-on-auth-failure", node, "%s written before the failing verification" % name,
                        "return at line %d reports an authentication failure (%s) while %s already holds data written "
                        "before the verification and not cleared" % (node.line, show(e), name), st=(st, env))
            if cls == "success" and s in ("W", "FW") and not verified:
                self._v("R09c-verified-before-success", node, "%s released without an accepting verification" % name,
                        "success return at line %d with %s written, but no verifying call (StepV / memEq / family unwrap) "
                        "was assumed accepting on this path" % (node.line, name), st=(st, env))
        return st


def _is_pointerish(a):
    a = strip(a)
    return bool(a.get("p")) or a.get("k") == "Ref"


def check_release(prog, res):
    errname = err_names(prog)
    for fn, (outs, unprot) in sorted(FAMILY.items()):
        f = prog.funcs.get(fn)
        if f is None or f.body is None:
            raise AnalysisBroken("unwrap-family anchor %s vanished" % fn)
        missing = [o for o in outs if o not in [p["n"] for p in f.params]]
        if missing:
            raise AnalysisBroken("%s: output parameter(s) %s vanished" % (fn, missing))
        cl = ReleaseClient(f, prog, outs, unprot, errname)
        r = ir.run_paths(f, cl)
        if r.truncated:
            raise AnalysisBroken("verify-before-release: state space truncated in %s" % fn)
        if cl.writes == 0:
            raise AnalysisBroken("%s: no write to its output was recognised" % fn)
        for v in cl.viol.values():
            path = ir.path_to(r, f.cfg(), v["node"].id, v["st"]) if v.get("st") else []
            res.violation(v["rule"], function=fn, file=f.relfile, line=v["line"], construct=v["construct"],
                          detail=v["detail"], path=path)
        for rule in ("R09c-no-release-on-auth-failure", "R09c-verified-before-success"):
            if not any(v["rule"] == rule for v in cl.viol.values()):
                res.proved(rule, function=fn, file=f.relfile, line=f.line, construct="outputs %s" % ",".join(outs),
                           detail="%d success / %d authentication-failure / %d other return states explored; verifiers on path: %s" %
                                  (cl.nret["success"], cl.nret["auth"], cl.nret["other"],
                                   sorted({v for v, _ in cl.verif_sites}) or "family callee"))
    res.floor("unwrap family", len(FAMILY), 8)


# ---- (b)
B_RULES = {"unchecked-use": "R09b-null-test-before-use", "null-use": "R09b-null-test-before-use",
           "oom-reported-as-success": "R09b-failure-reported", "resize-loses-block": "R09b-resize-keeps-old-block",
           "leak": "R09b-nothing-left-allocated", "interior-close": "R09b-close-base-pointer",
           "double-close": "R09b-close-once"}

# dead error arms frozen after reading: bignOidToDER cannot fail for a literal, well-formed OID and a 16-octet buffer
FROZEN_UNDECIDED = [
    {"rule": "R09d-no-dropped-error", "function": "belsShare2", "construct": "result of belsStdM dropped"},
    {"rule": "R09d-no-dropped-error", "function": "belsRecover2", "construct": "result of belsStdM dropped"},
    {"rule": "R09d-no-dropped-error", "function": "btokVerify", "construct": "result of btokParamsStd dropped"},
    {"rule": "R09b-close-base-pointer", "function": "btokSign", "construct": "blobClose(state): interior pointer of stack",
     "reason": "error arm of bignOidToDER(<literal OID>) is unreachable; no failing input exists"},
    {"rule": "R09b-close-base-pointer", "function": "btokVerify", "construct": "blobClose(state): interior pointer of stack",
     "reason": "error arm of bignOidToDER(<literal OID>) is unreachable; no failing input exists"},
]


def check_alloc(prog, res):
    summ = blobs.compute_summaries(prog)
    nsites = 0
    for f in prog.all_funcs():
        cl, r = blobs.analyse(f, summ)
        if r is None:
            continue
        bad = set()
        for key, v in cl.viol.items():
            rule = B_RULES.get(v["rule"])
            if rule is None:
                continue
            if v["rule"] == "leak":
                # (b) speaks of calls in which an allocation failed: keep only leak states with a failed allocation
                st = v.get("st")
                failed = False
                if st:
                    b = dict(st[0][0])
                    failed = any(s == "NF" for s in b.values())
                # ... or in which the function reports a failure (possibly a callee's allocation failure)
                if not failed and v.get("rc") not in ("nonzero", "unknown"):
                    continue
            path = ir.path_to(r, f.cfg(), v["node"].id, v["st"]) if v.get("st") else []
            frozen = any(z["rule"] == rule and z["function"] == f.name and z["construct"] == v["construct"]
                         for z in FROZEN_UNDECIDED)
            if frozen:
                res.undecided(rule, function=f.name, file=f.relfile, line=v["line"], construct=v["construct"],
                              detail=v["detail"] + " [frozen: the enclosing error arm is unreachable]")
            else:
                res.violation(rule, function=f.name, file=f.relfile, line=v["line"], construct=v["construct"],
                              detail=v["detail"], path=path)
            bad.add(v["construct"].split(" ")[0])
        for (line, var), callee in sorted(cl.sites.items()):
            nsites += 1
            if var not in bad:
                res.proved("R09b-allocation-failure-handled", function=f.name, file=f.relfile, line=line,
                           construct="%s = %s(..)" % (var, callee),
                           detail="null-tested before any use; the failure arm returns a failure and leaves nothing allocated")
    res.floor("blob creation sites", nsites, 100)


# ---- (d)
class ErrClient(ir.Client):
    """state: frozenset of (var id, line of the unchecked assignment)"""

    def __init__(self, func, prog):
        self.func, self.prog = func, prog
        self.viol = {}
        self.ncalls = 0

    def init(self, func):
        return frozenset()

    def _is_err_call(self, e):
        e = strip(e)
        return e.get("k") == "Call" and e.get("t") == "err_t"

    def _v(self, node, construct, detail):
        self.viol.setdefault((construct, node.line), dict(line=node.line, construct=construct, detail=detail))

    def eval(self, e, st, env, node, top=True):
        pend = dict(st)
        # reads clear pending; assignments from err calls set pending
        assigned_here = {}
        for l, rhs, op in ir.assigned_vars(e):
            if op == "=" and rhs is not None and self._is_err_call(rhs) and l.get("t") == "err_t":
                assigned_here[l["id"]] = (l, strip(rhs))
        reads = set()
        self._reads(e, reads, set(assigned_here))
        for vid in reads:
            pend.pop(vid, None)
        # a pending result overwritten by anything else (a constant, a condition, ..) is lost just the same
        for l, rhs, op in ir.assigned_vars(e):
            if op == "=" and l.get("id") in pend and l["id"] not in reads and l["id"] not in assigned_here and l.get("t") == "err_t":
                self._v(node, "result of %s overwritten before it was examined" % pend[l["id"]][1],
                        "the err_t result of %s stored in %s at line %d is overwritten at line %d without having been tested or "
                        "returned" % (pend[l["id"]][1], l["n"], pend[l["id"]][0], node.line))
                pend.pop(l["id"], None)
        for vid, (l, call) in assigned_here.items():
            if vid in pend and vid not in reads:
                self._v(node, "result of %s overwritten before it was examined" % pend[vid][1],
                        "the err_t result of %s stored in %s at line %d is overwritten by %s(..) without having been tested or returned" %
                        (pend[vid][1], l["n"], pend[vid][0], call.get("callee")))
            pend[vid] = (node.line, call.get("callee") or "indirect call")
            self.ncalls += 1
        # err call whose value is discarded
        if node.kind == "eval":
            d = self._discarded(e)
            for c in d:
                self.ncalls += 1
                self._v(node, "result of %s discarded" % c.get("callee"),
                        "%s returns err_t and its result is ignored here" % c.get("callee"))
        return frozenset(pend.items())

    def _discarded(self, e):
        e0 = e
        while e0.get("k") == "Cast":
            if e0.get("t") == "void":
                return []
            e0 = e0["e"]
        if e0.get("k") == "Call" and e0.get("t") == "err_t":
            return [e0]
        if e0.get("k") == "Bin" and e0["op"] == ",":
            return self._discarded(e0["x"]) + self._discarded(e0["y"])
        return []

    def _reads(self, e, out, assigned):
        k = e.get("k")
        if k == "Ref":
            out.add(e["id"])
            return
        if k == "Bin" and e["op"] == "=":
            l = strip(e["x"])
            if l.get("k") != "Ref":
                self._reads(e["x"], out, assigned)
            self._reads(e["y"], out, assigned)
            return
        for c in ir.kids(e):
            self._reads(c, out, assigned)

    def decl(self, d, st, env, node):
        if d.get("init") is not None and d.get("t") == "err_t" and self._is_err_call(d["init"]):
            pend = dict(st)
            pend[d["id"]] = (node.line, strip(d["init"]).get("callee") or "indirect call")
            self.ncalls += 1
            return frozenset(pend.items())
        if d.get("init") is not None:
            reads = set()
            self._reads(d["init"], reads, set())
            return frozenset((k, v) for k, v in st if k not in reads)
        return st

    def at_exit(self, st, env, node):
        pass

    def ret(self, e, st, env, node):
        pend = dict(st)
        if e is not None:
            reads = set()
            self._reads(e, reads, set())
            for vid in reads:
                pend.pop(vid, None)
        for vid, (line, callee) in pend.items():
            self._v(node, "result of %s never examined" % callee,
                    "return at line %d is reached while the err_t result of %s assigned at line %d was neither tested nor returned" %
                    (node.line, callee, line))
        return frozenset()


# (d) err_t results that are dropped but cannot be failures: read and frozen, one reason each
FROZEN_DROPPED = {
    ("belsShare2", "belsStdM"): "len in {16,24,32} and count <= 16 are checked at the head of belsShare2, so belsStdM(stack, len, i <= 16) cannot fail",
    ("belsRecover2", "belsStdM"): "len and every share number (1..16) are validated by the loop at the head of belsRecover2",
    ("btokVerify", "btokParamsStd"): "pubkey_len is one of 48/64/96/128 at its only caller btokCVCUnwrap (argument check / btokCVCBodyDec), so btokParamsStd(pubkey_len / 2) cannot fail",
}


def check_dropped(prog, res):
    n = 0
    nf = 0
    for f in prog.all_funcs():
        if not any(c.get("t") == "err_t" for c in ir.calls(f.body)):
            continue
        cl = ErrClient(f, prog)
        r = ir.run_paths(f, cl)
        if r.truncated:
            raise AnalysisBroken("dropped-error analysis: state space truncated in %s" % f.name)
        nf += 1
        n += sum(1 for c in ir.calls(f.body) if c.get("t") == "err_t")
        real = 0
        for v in cl.viol.values():
            fr = [k for k in FROZEN_DROPPED if k[0] == f.name and ("result of %s " % k[1]) in v["construct"] + " "]
            if fr:
                res.undecided("R09d-no-dropped-error", function=f.name, file=f.relfile, line=v["line"],
                              construct="result of %s dropped" % fr[0][1], detail=v["detail"] + " [frozen: " + FROZEN_DROPPED[fr[0]] + "]")
            else:
                real += 1
                res.violation("R09d-no-dropped-error", function=f.name, file=f.relfile, line=v["line"],
                              construct=v["construct"], detail=v["detail"])
        if not cl.viol:
            res.proved("R09d-no-dropped-error", function=f.name, file=f.relfile, line=f.line,
                       construct="err_t results of %d call site(s)" % sum(1 for c in ir.calls(f.body) if c.get("t") == "err_t"),
                       detail="every err_t result is tested or returned before it is overwritten or goes out of scope")
    res.floor("err_t call sites", n, 180)


def run(tier, seed=0):
    res = Result("C09", "other", tier)
    prog = ir.Program("w64")
    check_alloc(prog, res)
    check_release(prog, res)
    check_dropped(prog, res)
    try:
        from . import pc
        pc.check_preconditions(prog, res, tier)
    except ImportError:
        res.notes.append("C09(a) precondition establishment: engine not built yet")
    res.coverage["explanation"] = (
        "Path-sensitive typestate analyses over the CFG of every function in src/: (b) each blob variable goes "
        "Unchecked -> Live/Null -> Closed, any use before the null test, success return after a failed allocation, "
        "block left allocated on a failure path or lost by v = blobResize(v,..) is reported with the path; (c) for the "
        "eight unwrap/secure-messaging functions the caller's output is tracked Clean/Written/Cleared and must not be "
        "Written at an authentication-failure return, and every success return that released data must have passed an "
        "accepting verifier; (d) every err_t result is tested or returned; (a) scalar preconditions asserted by callees "
        "are implied by the public caller's argument checks (exhaustive evaluation of the extracted predicates).")
    res.assumptions = COMMON_ASSUMPTIONS + [
        "the error class a header names is not machine-readable; only the authentication class {%s} is used" % ", ".join(sorted(AUTH_CLASS)),
        "a callee may write through any non-const pointer parameter (prototype-level effect summary)",
        "the unprotected mode of btokSM*Unwrap (state == 0) is documented and exempt from (c)",
    ]
    return res
