"""C11: functions documented as overlap-tolerant give the disjoint-buffer result -- the ordering mechanism.
Instances come from the headers' own remarks (the documentation is the specification here).
R11.1 after a caller buffer that may overlap others has been written, the others are dead (no later read);
R11.2 one operation that reads Q and writes P must itself tolerate that pair (computed bottom-up from bodies;
      base cases memmove tolerant, memcpy not)."""
import os, re
from . import ir, eff
from .ir import AnalysisBroken, strip, walk, show, root_ref
from .report import Result, COMMON_ASSUMPTIONS

HEADERS = ["include/bee2/crypto/belt.h", "include/bee2/crypto/bash.h", "include/bee2/crypto/brng.h",
           "include/bee2/core/der.h", "include/bee2/core/mem.h"]

# primitives whose tolerance rests on a case analysis over pointer order that this analysis cannot follow
TRUSTED_TOLERANT = {
    "memmove": "libc contract",
    "memMove": "wrapper of memmove",
    "memJoin": "orders its two moves by comparing the pointers (mem.c); covered by memTest, not by this rule",
}
NOT_TOLERANT = {"memcpy": "libc contract: undefined for overlapping buffers"}


def parse_docs(hdr):
    """name -> (kind, names...) from the documentation remarks of one header"""
    path = os.path.join(ir.REPO, hdr)
    try:
        txt = open(path, encoding="utf-8", errors="replace").read()
    except OSError:
        raise AnalysisBroken("header %s vanished" % hdr)
    out = {}
    for m in re.finditer(r"/\*!(.*?)\*/\s*([A-Za-z_][\w \*]*?)\b(\w+)\s*\(", txt, re.S):
        doc, name = m.group(1), m.group(3)
        flat = re.sub(r"\s+", " ", doc)
        if "пересека" not in flat:
            continue
        spec = None
        mm = re.search(r"Все буферы, кроме (\w+) и (?:\[\w+\])?(\w+), могут пересекаться", flat)
        if mm:
            spec = ("all-but", mm.group(1), mm.group(2))
        if not spec:
            mm = re.search(r"Буферы могут пересекаться, за исключением пересечения (\w+) и (\w+)", flat)
            if mm:
                spec = ("all-but", mm.group(1), mm.group(2))
        if not spec and re.search(r"(?:remark|\.|^)\s*Буферы могут пересекаться\.", flat):
            spec = ("all",)
        if not spec:
            mm = re.search(r"Буферы (\w+), (\w+) и (\w+) могут пересекаться", flat)
            if mm:
                spec = ("set", mm.group(1), mm.group(2), mm.group(3))
        if not spec:
            mm = re.search(r"(?:Буферы )?(\w+) и (\w+) могут пересекаться", flat)
            if mm and mm.group(1) not in ("Буферы",):
                spec = ("set", mm.group(1), mm.group(2))
        if not spec and hdr.endswith("der.h") and re.search(r"(могут|может) пересекаться", flat):
            spec = ("set", "der", "val")
        if spec:
            out[name] = spec
    return out


def parse_source_remarks(prog):
    """{function: spec} from remarks inside function bodies of src/ that name the buffers which may overlap
    (`// (буферы key, header и token могут пересекаться)` in bignKeyWrap): the code states the tolerance itself, so its
    order of reads and writes has to provide it"""
    import glob
    out = {}
    by_file = {}
    for f in prog.all_funcs():
        if f.body is not None:
            by_file.setdefault(f.relfile, []).append(f)
    for path in sorted(glob.glob(os.path.join(ir.REPO, "src", "**", "*.c"), recursive=True)):
        rel = os.path.relpath(path, ir.REPO)
        try:
            lines = open(path, encoding="utf-8", errors="replace").read().split("\n")
        except OSError:
            continue
        for i, ln in enumerate(lines, 1):
            mm = re.search(r"//.*[Бб]уферы (\w+), (\w+) и (\w+) могут пересекаться", ln)
            if not mm:
                continue
            owner = None
            for f in by_file.get(rel, ()):
                if f.line <= i and (owner is None or f.line > owner.line):
                    owner = f
            if owner is not None:
                out[owner.name] = (("set",) + mm.groups(), rel)
    return out


def pairs_for(f, spec):
    ptr = [p["n"] for p in f.params if p.get("p") and not p.get("pf")]
    if spec[0] == "all":
        cand = [(a, b) for a in ptr for b in ptr if a != b]
    elif spec[0] == "all-but":
        ex = {spec[1], spec[2]}
        cand = [(a, b) for a in ptr for b in ptr if a != b and {a, b} != ex]
    else:
        names = [n for n in spec[1:] if n in ptr]
        cand = [(a, b) for a in names for b in names if a != b]
    # ordered pairs (written P, read Q): P must be writable
    wr = {p["n"] for p in f.params if p.get("p") and not p.get("pc")}
    return [(a, b) for a, b in cand if a in wr]


class Touch:
    """per-function reads/writes of pointer parameters at each atomic operation"""

    def __init__(self, prog, E):
        self.prog, self.E = prog, E
        self.memo = {}
        self.active = set()

    def op_effects(self, f, e, pidx, orig):
        """list of operations inside expression e in evaluation order: (reads set, writes set, call node or None)"""
        ops = []

        def origins(x):
            return {o[1] for o in self.E._origins(x, pidx, orig) if isinstance(o, tuple)}

        def rec(n, lhs=False):
            if not isinstance(n, dict):
                return
            k = n.get("k")
            if k == "Call":
                cn = n.get("callee")
                if cn == "utilAssert":
                    return
                for a in n["a"]:
                    rec(a)
                reads, writes = set(), set()
                callee = self.prog.resolve(cn, f.unit) if cn and not n.get("indirect") else None
                s = self.E.summ.get(self.E.key(callee)) if callee is not None else None
                for i, a in enumerate(n["a"]):
                    os_ = origins(a)
                    if not os_:
                        continue
                    sa = strip(a)
                    if not (sa.get("p") or sa.get("k") in ("Ref", "Bin", "Cast", "Un", "Member", "Index")):
                        continue
                    if s is not None:
                        if i in s.get("reads", set()):
                            reads |= os_
                        if i in s["writes"]:
                            writes |= os_
                    else:
                        proto = self.prog.protos.get(cn) if cn else None
                        if cn in ("memset", "__builtin_memset"):
                            if i == 0:
                                writes |= os_
                            continue
                        if proto is not None and i < len(proto.params):
                            if proto.params[i].get("p"):
                                if proto.params[i].get("pc"):
                                    reads |= os_
                                else:
                                    writes |= os_
                                    if not (cn in ("memcpy", "memmove", "strcpy", "__builtin_memcpy", "__builtin_memmove") and i == 0):
                                        reads |= os_
                        else:
                            reads |= os_
                            if not sa.get("pc"):
                                writes |= os_
                ops.append((reads, writes, n))
                return
            if k == "Bin" and n["op"] in ir.ASSIGN_OPS:
                rec(n["y"])
                l = strip(n["x"])
                if l.get("k") != "Ref":
                    # address computation of the lvalue may read (a[i] index expr)
                    if l.get("k") == "Index":
                        rec(l["i"])
                    w = origins(l)
                    r = set(w) if n["op"] != "=" else set()
                    if w or r:
                        ops.append((r, w, None))
                return
            if k == "Un" and n["op"] in ("pre++", "pre--", "post++", "post--"):
                l = strip(n["e"])
                if l.get("k") != "Ref":
                    w = origins(l)
                    if w:
                        ops.append((set(w), set(w), None))
                return
            if k == "Un" and n["op"] == "&":
                return
            if k in ("Index",) or (k == "Un" and n["op"] == "*") or (k == "Member" and n.get("arrow")):
                base = n["b"] if k in ("Index", "Member") else n["e"]
                rec(base)
                if k == "Index":
                    rec(n["i"])
                # loading a pointer-typed member/element is a read of the object too
                r = origins(n)
                if r and not (n.get("p") and k == "Member" and "[" in (n.get("t") or "")):
                    ops.append((r, set(), None))
                return
            for c in ir.kids(n):
                rec(c)
        rec(e)
        return ops


class OverlapClient(ir.Client):
    def __init__(self, f, touch, pairs_idx, tolerant_cb):
        self.f, self.touch = f, touch
        self.pidx, self.orig = touch.E._local_aliases(f)
        self.pairs = pairs_idx     # set of (p, q) index pairs: p written, q read later is bad
        self.tolerant_cb = tolerant_cb
        self.viol = {}

    def init(self, func):
        return frozenset()

    def _v(self, key, node, p, q, detail):
        self.viol.setdefault(key, dict(line=node.line, p=p, q=q, detail=detail))

    def eval(self, e, st, env, node):
        dirty = set(st)
        for reads, writes, call in self.touch.op_effects(self.f, e, self.pidx, self.orig):
            for q in reads:
                for p in dirty:
                    if p != q and (p, q) in self.pairs:
                        self._v(("raw", p, q, node.line), node, p, q,
                                "`%s` reads through %s after %s has been written" % (
                                    show(call)[:60] if call else show(e)[:60], self.f.params[q]["n"], self.f.params[p]["n"]))
            if call is not None:
                for p in writes:
                    for q in reads:
                        if p != q and (p, q) in self.pairs and p not in dirty:
                            ok, why = self.tolerant_cb(call, p, q, self.f, self.pidx, self.orig)
                            if not ok:
                                self._v(("prim", p, q, node.line), node, p, q,
                                        "`%s` reads %s and writes %s in one operation that does not tolerate overlap (%s)" %
                                        (show(call)[:60], self.f.params[q]["n"], self.f.params[p]["n"], why))
            dirty |= writes
        return frozenset(dirty)


class Analysis:
    def __init__(self, prog):
        self.prog = prog
        self.E = eff.Effects(prog)
        self._add_reads()
        self.touch = Touch(prog, self.E)
        self.memo = {}
        self.stack = set()

    def _add_reads(self):
        """reads per parameter (fixpoint), added to the Effects summaries"""
        E = self.E
        funcs = [f for f in self.prog.all_funcs(with_headers=True) if f.body is not None]
        info = {E.key(f): E._local_aliases(f) for f in funcs}
        for f in funcs:
            E.summ[E.key(f)]["reads"] = set()
        t = Touch(self.prog, E)
        changed = True
        rounds = 0
        while changed and rounds < 20:
            changed = False
            rounds += 1
            for f in funcs:
                s = E.summ[E.key(f)]
                pidx, orig = info[E.key(f)]
                r = set(s["reads"])
                for node in f.cfg().nodes:
                    if node.e is None:
                        continue
                    ex = node.e if node.kind != "decl" else node.e.get("init")
                    if ex is None:
                        continue
                    for reads, writes, call in t.op_effects(f, ex, pidx, orig):
                        r |= reads
                if r != s["reads"]:
                    s["reads"] = r
                    changed = True

    def tolerant_call(self, call, p, q, caller, pidx, orig):
        """is the single call `call` (made by caller) tolerant for caller-params (p written, q read)?"""
        cn = call.get("callee")
        if cn in TRUSTED_TOLERANT:
            return True, TRUSTED_TOLERANT[cn]
        if cn in NOT_TOLERANT:
            return False, NOT_TOLERANT[cn]
        callee = self.prog.resolve(cn, caller.unit) if cn and not call.get("indirect") else None
        if callee is None:
            return False, "callee %s has no body to analyse" % cn
        # which callee params carry p and q?
        ip, iq = [], []
        for i, a in enumerate(call["a"]):
            os_ = {o[1] for o in self.E._origins(a, pidx, orig) if isinstance(o, tuple)}
            if p in os_:
                ip.append(i)
            if q in os_:
                iq.append(i)
        s = self.E.summ[self.E.key(callee)]
        for i in ip:
            if i not in s["writes"]:
                continue
            for j in iq:
                if j not in s.get("reads", set()) or i == j:
                    continue
                ok, why = self.tolerant(callee, i, j)
                if not ok:
                    return False, "%s: %s" % (cn, why)
        return True, ""

    def tolerant(self, f, i, j):
        key = (self.E.key(f), i, j)
        if key in self.memo:
            return self.memo[key]
        if key in self.stack:
            return False, "recursive"
        self.stack.add(key)
        cl = OverlapClient(f, self.touch, {(i, j)}, self.tolerant_call)
        r = ir.run_paths(f, cl)
        self.stack.discard(key)
        if r.truncated:
            res = (False, "analysis of %s truncated" % f.name)
        elif cl.viol:
            v = sorted(cl.viol.values(), key=lambda x: x["line"])[0]
            res = (False, "%s:%d %s" % (f.name, v["line"], v["detail"]))
        else:
            res = (True, "")
        self.memo[key] = res
        return res


class GuardedMoves(ir.Client):
    """memJoin-style primitives: each block move is justified by a memIsDisjoint2 guard assumed on the path.
    state: (disjointness facts, regions written so far)"""

    def __init__(self, f):
        from . import vp
        self.f = f
        self.canon = vp.Canon(f)
        self.bad = {}
        self.moves = 0

    def init(self, func):
        return (frozenset(), frozenset())

    def assume(self, c, pol, st, env, node):
        facts, written = st
        c = strip(c)
        while c.get("k") == "Un" and c.get("op") == "!":
            c, pol = strip(c["e"]), not pol
        if ir.is_call(c, ("memIsDisjoint2",)) and len(c["a"]) == 4:
            a = (self.canon(c["a"][0]), self.canon(c["a"][1]))
            b = (self.canon(c["a"][2]), self.canon(c["a"][3]))
            # the same test of the same regions cannot come out both ways on one path (a case analysis by
            # elimination: `while (!A && !B && !C && !D) ..; if (A) .. else if (B) .. else if (C) .. else /* D */`)
            if pol:
                if ("not", a, b) in facts:
                    return None
                facts = facts | {(a, b), (b, a)}
            else:
                if (a, b) in facts:
                    return None
                facts = facts | {("not", a, b), ("not", b, a)}
        return (facts, written)

    def eval(self, e, st, env, node):
        facts, written = st
        for l, rhs, op in ir.assigned_vars(e):
            # a parameter is re-based: what was known about the old regions no longer applies
            if l.get("rk") == "param":
                facts, written = frozenset(), frozenset()
        for c in ir.calls(e):
            if c.get("callee") in ("memMove", "memCopy", "memmove", "memcpy") and len(c["a"]) == 3:
                self.moves += 1
                wr = (self.canon(c["a"][0]), self.canon(c["a"][2]))
                rd = (self.canon(c["a"][1]), self.canon(c["a"][2]))
                rbase = ir.root_ref(c["a"][1])
                for w in written:
                    wbase = w[2]
                    if rbase is not None and wbase == rbase.get("n"):
                        continue          # moving data inside the buffer that was written
                    if ((w[0], w[1]), rd) not in facts:
                        self.bad.setdefault((node.line, w[:2], rd), (w, rd))
                wb = ir.root_ref(c["a"][0])
                written = written | {(wr[0], wr[1], wb.get("n") if wb is not None else "?")}
        return (facts, written)


def check_guarded_primitive(prog, res, name):
    f = prog.funcs.get(name)
    if f is None or f.body is None:
        raise AnalysisBroken("%s vanished" % name)
    cl = GuardedMoves(f)
    ir.run_paths(f, cl)
    if cl.moves < 4:
        raise AnalysisBroken("%s: fewer block moves than expected" % name)
    if cl.bad:
        for (line, w, rd), _ in sorted(cl.bad.items()):
            res.violation("R11-guarded-moves", function=name, file=f.relfile, line=line,
                          construct="move reads [%s, %s) after [%s, %s) was written without a disjointness guard" % (rd[0], rd[1], w[0], w[1]),
                          detail="%s is documented overlap-tolerant; on this path the region [%s, +%s) is read after [%s, +%s) "
                                 "was written, and no memIsDisjoint2 test of exactly these regions was passed" %
                                 (name, rd[0], rd[1], w[0], w[1]))
    else:
        res.proved("R11-guarded-moves", function=name, file=f.relfile, line=f.line,
                   construct="%d block move(s) on guarded paths" % cl.moves,
                   detail="every read of a source region after a write is covered by a memIsDisjoint2 guard assumed on the path "
                          "(the element-wise fallback arm is trusted)")


FROZEN_UNDECIDED = [
    {"rule": "R11-overlap-order", "function": "memMove", "construct": "trusted primitive"},
    {"rule": "R11-overlap-order", "function": "memJoin", "construct": "trusted primitive"},
]


def run(tier, seed=0):
    res = Result("C11", "other", tier)
    prog = ir.Program("w64")
    A = Analysis(prog)
    ninst = 0
    npairs = 0
    src_specs = parse_source_remarks(prog)
    groups = [(hdr, parse_docs(hdr)) for hdr in HEADERS]
    by_src = {}
    for name, (spec, rel) in src_specs.items():
        if not any(name in sp for _, sp in groups):
            by_src.setdefault(rel, {})[name] = spec
    groups += sorted(by_src.items())
    res.coverage["source_remark_instances"] = sorted(n_ for sp in by_src.values() for n_ in sp)
    for hdr, specs in groups:
        for name, spec in sorted(specs.items()):
            f = prog.funcs.get(name)
            if f is None or f.body is None:
                # macros (derBITEnc ...) and prototypes without a body in this configuration
                continue
            pairs = pairs_for(f, spec)
            if not pairs:
                continue
            if name in TRUSTED_TOLERANT:
                res.undecided("R11-overlap-order", function=name, file=f.relfile, line=f.line, construct="trusted primitive",
                              detail="%s: %s" % (name, TRUSTED_TOLERANT[name]))
                continue
            ninst += 1
            pidx = {p["n"]: i for i, p in enumerate(f.params)}
            pi = {(pidx[a], pidx[b]) for a, b in pairs}
            npairs += len(pi)
            cl = OverlapClient(f, A.touch, pi, A.tolerant_call)
            r = ir.run_paths(f, cl)
            if r.truncated:
                raise AnalysisBroken("overlap analysis truncated in %s" % name)
            seen = set()
            for key, v in sorted(cl.viol.items(), key=lambda kv: kv[1]["line"]):
                pn, qn = f.params[v["p"]]["n"], f.params[v["q"]]["n"]
                if (pn, qn) in seen:
                    continue
                seen.add((pn, qn))
                res.violation("R11-write-then-read" if key[0] == "raw" else "R11-tolerant-primitive",
                              function=name, file=f.relfile, line=v["line"],
                              construct="%s written, %s read afterwards" % (pn, qn) if key[0] == "raw" else
                              "%s and %s in one intolerant operation" % (pn, qn),
                              detail="%s documents that %s and %s may overlap (%s), but %s" %
                                     (os.path.basename(hdr), pn, qn, " ".join(spec), v["detail"]))
            good = [(a, b) for a, b in pairs if (a, b) not in seen]
            if good:
                res.proved("R11-overlap-order", function=name, file=f.relfile, line=f.line,
                           construct="%d ordered pair(s): %s" % (len(good), ", ".join("%s<-%s" % p for p in good[:6])),
                           detail="on every path, once the writable buffer has been written the other one is never read again, "
                                  "and operations touching both at once are overlap-tolerant")
    check_guarded_primitive(prog, res, "memJoin")
    res.floor("documented overlap-tolerant functions", ninst, 45)
    res.coverage["ordered_pairs"] = npairs
    res.coverage["explanation"] = (
        "Instances are read from the headers' own remarks (belt.h, bash.h, brng.h, der.h, mem.h; three sentence forms). "
        "For each documented-tolerant function and each ordered pair (P writable, Q) a path-sensitive analysis tracks which "
        "caller buffers have been written (effects of callees from bottom-up read/write summaries per parameter) and "
        "reports a read of Q after a write of P, or a single operation that reads Q and writes P whose callee is not "
        "itself tolerant for those parameters (tolerance is computed recursively from bodies; memmove tolerant, memcpy "
        "not; memMove/memJoin trusted by contract). This decides the ordering mechanism the property rests on, not the "
        "equality of outputs.")
    res.assumptions = COMMON_ASSUMPTIONS + [
        "trusted tolerant primitives: " + "; ".join("%s (%s)" % kv for kv in TRUSTED_TOLERANT.items()),
        "a callee may read/write a buffer only through the parameters its summary lists (prototype const-ness for functions without a body)",
        "identical buffers (P == Q in place) are always fine; the rule concerns distinct parameters that may alias partially",
    ]
    return res
