"""Documented extents of pointer parameters.  bee2's headers describe every buffer as `[extent]name` in the doxygen
comment of the function (`К числу [n]b добавляется число [n]a`, `[count]buf`, `[2n]c`): this module reads them from the
current tree's headers, on every run, and keeps those that are linear in the function's integer parameters."""
import re, glob, os, collections


def parse_lin(expr, names):
    """{name: coefficient, "": constant} for `2n`, `n + m`, `2 * n + 1`, `count`; None for anything else"""
    s = expr.replace(" ", "")
    toks = re.findall(r"\d+|[A-Za-z_]\w*|[+\-*]", s)
    if "".join(toks) != s or not toks:
        return None
    pos = [0]

    def term():
        coef, var, first = 1, None, True
        while pos[0] < len(toks):
            t = toks[pos[0]]
            if t.isdigit():
                coef *= int(t)
            elif re.match(r"[A-Za-z_]", t):
                if var is not None or t not in names:
                    return None
                var = t
            elif t == "*":
                pos[0] += 1
                continue
            else:
                break
            pos[0] += 1
            first = False
        return None if first else (var, coef)
    out = collections.Counter()
    sign = 1
    if toks[0] in "+-":
        sign = -1 if toks[0] == "-" else 1
        pos[0] = 1
    while True:
        t = term()
        if t is None:
            return None
        out[t[0] or ""] += sign * t[1]
        if pos[0] >= len(toks):
            break
        if toks[pos[0]] in "+-":
            sign = -1 if toks[pos[0]] == "-" else 1
            pos[0] += 1
        else:
            return None
    return {k: v for k, v in out.items() if v}


def load(repo):
    """{function: {pointer parameter: {int parameter: coefficient, "": constant}}} from include/bee2/*/*.h"""
    res, stats = {}, collections.Counter()
    for h in sorted(glob.glob(os.path.join(repo, "include", "bee2", "*", "*.h"))):
        txt = open(h, encoding="utf-8", errors="replace").read()
        for m in re.finditer(r"/\*!(.*?)\*/\s*([A-Za-z_][\w\s\*]*?)\b(\w+)\s*\(([^;{]*?)\)\s*;", txt, re.S):
            doc, name, params = m.group(1), m.group(3), m.group(4)
            if "\\brief" not in doc:
                continue
            ps = []
            for p in re.sub(r"/\*.*?\*/", "", params, flags=re.S).split(","):
                mm = re.match(r"(.*?)(\w+)\s*(\[\d*\])?$", p.strip())
                if mm:
                    ps.append((mm.group(2), mm.group(1).strip(), mm.group(3)))
            names = {n for n, _, _ in ps}
            ints = {n for n, t, a in ps if a is None and "*" not in t}
            ext = collections.defaultdict(set)
            for e, n in re.findall(r"\[([^\]\[]{1,40})\]\s*(\w+)", doc):
                if n in names and n not in ints:
                    ext[n].add(e.strip())
            for n, es in ext.items():
                stats["documented"] += 1
                if len(es) > 1:
                    stats["ambiguous"] += 1
                    continue
                l = parse_lin(list(es)[0], ints)
                if l is None or not any(k for k in l):
                    stats["not_linear"] += 1
                    continue
                stats["linear"] += 1
                res.setdefault(name, {})[n] = l
    return res, dict(stats)
