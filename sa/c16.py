"""C16: bign96, g12s, dstu, pfok -- validation-presence clauses (same templates as C02)."""
from . import ir, vp, vprules
from .vprules import T, F, OK, FACT, CMP, ANY
from .ir import AnalysisBroken
from .report import Result, COMMON_ASSUMPTIONS

FILES = {"src/crypto/bign96.c", "src/crypto/g12s.c", "src/crypto/dstu.c", "src/crypto/pfok.c"}

POINT_LEVELS = {}
ALTERNATIVES = {}


def nfield(k):
    return lambda fs: sum(1 for x in fs if x[0] == "field") >= k


def canon_stmt(s, names):
    """structural text of a statement with local variables renamed in order of first appearance"""
    if s is None:
        return ""
    if not isinstance(s, dict):
        return str(s)
    k = s.get("k")
    if k == "Ref":
        if s.get("rk") == "local":
            return names.setdefault(s["id"], "L%d" % len(names))
        return s["n"]
    if k == "Int":
        return str(s.get("v"))
    parts = [k, s.get("op", ""), s.get("callee", ""), s.get("f", "")]
    for key in ("c", "x", "y", "e", "b", "i", "then", "else", "body", "init", "inc", "sub"):
        if isinstance(s.get(key), dict):
            parts.append(key + "=" + canon_stmt(s[key], names))
    for key in ("a", "d"):
        if isinstance(s.get(key), list):
            parts.append(key + "=[" + ",".join(canon_stmt(x, names) for x in s[key]) + "]")
    if k == "Block":
        parts.append("[" + ";".join(canon_stmt(x, names) for x in s["b"]) + "]")
    if k == "Cast":
        parts.append(s.get("t") or "")
    return "(" + " ".join(p for p in parts if p) + ")"


def hash_slice(f):
    """top-level statements of f that turn (hash, hash_len) into the field element: from the first statement whose
    condition mentions hash_len up to and including the first qrFrom call"""
    body = f.body.get("b", [])
    out, on = [], False
    for st in body:
        mentions = False
        if st.get("k") == "If":
            c = ir.strip(st["c"])
            mentions = c.get("k") == "Bin" and c["op"] in ("<", "<=", ">", ">=") and any(
                ir.strip(x).get("k") == "Ref" and ir.strip(x).get("n") == "hash_len" for x in (c["x"], c["y"]))
        if not on and mentions:
            on = True
        if on:
            out.append(st)
            if any(c.get("callee") == "qrFrom" for c in ir.calls(st)):
                break
    return out


def check_sibling_hash_conversion(prog, res):
    """writer/reader agreement: dstuSign and dstuVerify must turn the hash into a field element identically"""
    fs = [prog.funcs.get(n) for n in ("dstuSign", "dstuVerify")]
    if any(f is None or f.body is None for f in fs):
        raise AnalysisBroken("dstuSign/dstuVerify vanished")
    slices = [hash_slice(f) for f in fs]
    if not all(slices) or not all(any(c.get("callee") == "qrFrom" for st in sl for c in ir.calls(st)) for sl in slices):
        raise AnalysisBroken("hash-to-field conversion slice not found in dstuSign/dstuVerify")
    texts = []
    for sl in slices:
        names = {}
        texts.append(";".join(canon_stmt(st, names) for st in sl))
    f = fs[1]
    if texts[0] == texts[1]:
        res.proved("R16.6-sign-verify-agree-on-hash-conversion", function="dstuVerify", file=f.relfile, line=slices[1][0]["l"],
                   construct="dstuSign / dstuVerify hash-to-field slice",
                   detail="the %d statement(s) that map (hash, hash_len) to the field element are structurally identical in both" % len(slices[1]))
    else:
        # first differing position for the report
        i = next((k for k in range(min(len(texts[0]), len(texts[1]))) if texts[0][k] != texts[1][k]), 0)
        res.violation("R16.6-sign-verify-agree-on-hash-conversion", function="dstuVerify", file=f.relfile, line=slices[1][0]["l"],
                      construct="dstuSign / dstuVerify hash-to-field slice",
                      detail="signer and verifier convert the hash to a field element differently (first difference near `%s` vs `%s`): "
                             "a signature produced by dstuSign need not verify" % (texts[0][max(0, i - 30):i + 30], texts[1][max(0, i - 30):i + 30]))


CONVERSION = {"memCopy", "memMove", "memRev", "wwFrom", "u32From", "u64From", "zzMod", "wwIsZero", "memIsValid", "memIsDisjoint2",
              "wwTrimHi", "memSetZero", "wwSetZero"}


def check_hash_image_nonzero(prog, res):
    """R16.7 (GOST R 34.10 / STB 1176.2 step `e = 0 => e <- 1`): in g12sSign and g12sVerify the image e of the hash is
    known to be non-zero (tested non-zero, or set to 1, after its last reduction) at every call that consumes it.
    Signer and verifier must map a hash divisible by q to the same e, and e = 0 discloses the private key."""
    for fname in ("g12sSign", "g12sVerify"):
        f = prog.funcs.get(fname)
        if f is None or f.body is None:
            raise AnalysisBroken("%s vanished" % fname)
        sites = {}
        canon = vp.Canon(f)
        imgs = {canon(c["a"][0]) for c in ir.calls(f.body)
                if c.get("callee") in ("memCopy", "memMove", "wwFrom") and len(c["a"]) >= 2 and canon(c["a"][1]) == "hash"}
        if not imgs:
            raise AnalysisBroken("%s: the copy of `hash` into the working buffer was not found" % fname)

        def on_call(c, facts, node, cl):
            cn = c.get("callee")
            if not cn or cn in CONVERSION:
                return
            names = [cl.canon(a) for a in c["a"]]
            for i, nm in enumerate(names):
                if nm in imgs and i >= 1:
                    sites.setdefault((c["l"], cn, nm), []).append(("nz", nm) in facts)

        vp.run_facts(f, prog, on_call=on_call, track_generic=False)
        if not sites:
            raise AnalysisBroken("%s: no call consumes the image of `hash` any more" % fname)
        # the first consumer in program order: later calls may see e after it was overwritten (e <- e^{-1})
        first = sorted(sites)[0]
        for (line, cn, nm), oks in [(first, sites[first])]:
            if all(oks):
                res.proved("R16.7-hash-image-nonzero", function=fname, file=f.relfile, line=line,
                           construct="%s consumes e = H mod q" % cn, detail="e was tested non-zero or set to 1 after its reduction on all %d path state(s)" % len(oks))
            else:
                res.violation("R16.7-hash-image-nonzero", function=fname, file=f.relfile, line=line,
                              construct="%s consumes e = H mod q that may be 0" % cn,
                              detail="on %d of %d path state(s) the rule `e = 0 => e <- 1` has not been applied to the reduced "
                                     "value (it was applied before the reduction, or not at all): for a hash divisible by q the "
                                     "signer and the verifier disagree and s = r d discloses the key" % (oks.count(False), len(oks)))


def run(tier, seed=0):
    res = Result("C16", "other", tier)
    prog = ir.Program("w64")
    n1 = vprules.check_sampling(prog, res, "R16.1-sampling-modulus", FILES)
    # pfok private keys are r-bit numbers: the scheme's own range test is `wwGetBits(x, r, ..) != 0 -> ERR_BAD_PRIVKEY`
    def pfok_form(facts, d):
        return any(x[0] == "cmp" and x[1] is False and x[2].startswith("wwGetBits(%s,params->r," % d) for x in facts)
    n2 = vprules.check_privkey_range(prog, res, "R16.2-private-key-range", FILES, accept=pfok_form)
    n3 = vprules.check_modular_operands(prog, res, "R16.3-modular-operands-reduced", FILES)
    n4 = vprules.check_points(prog, res, "R16.4-points-validated", FILES, POINT_LEVELS, ALTERNATIVES, default="field")
    M = vprules.check_must
    M(prog, res, "R16.5-accept-only-verified", "bign96Verify",
      [("s1 < q", FACT("ltc", r"order$")), ("hash comparison", ANY(T("beltHashStepV2("), T("memEq("))),
       ("public key coordinates reduced (qrFrom x2)", nfield(2))])
    M(prog, res, "R16.5-accept-only-verified", "g12sVerify",
      [("r != 0 and s != 0", lambda fs: sum(1 for x in fs if x[0] == "nz") >= 2),
       ("r < q and s < q", lambda fs: sum(1 for x in fs if x[0] == "ltc" and x[2].endswith("order")) >= 2),
       ("r == x_R mod q (wwEq)", T("wwEq(")), ("public key coordinates reduced (qrFrom x2)", nfield(2))])
    M(prog, res, "R16.5-accept-only-verified", "dstuVerify",
      [("r != 0 and s != 0", lambda fs: sum(1 for x in fs if x[0] == "nz") >= 2),
       ("r < n and s < n", lambda fs: sum(1 for x in fs if x[0] == "ltc" and x[2].endswith("order")) >= 2),
       ("r == recomputed r (wwEq)", T("wwEq(")), ("public key coordinates reduced (qrFrom x2)", nfield(2))])
    M(prog, res, "R16.5-accept-only-verified", "bign96PubkeyVal",
      [("coordinates reduced (qrFrom x2)", nfield(2)), ("on-curve test", ANY(FACT("oncurve", r"."), T("ecpIsOnA(")))])
    M(prog, res, "R16.5-accept-only-verified", "bign96KeypairVal",
      [("0 < d", FACT("nz", r".")), ("d < q", FACT("lt", r".")), ("Q == dG (memEq)", T("memEq("))])
    M(prog, res, "R16.5-accept-only-verified", "dstuPointVal",
      [("coordinates reduced (qrFrom x2)", nfield(2)), ("on-curve test", ANY(FACT("oncurve", r"."), T("ec2IsOnA("))),
       ("order test", T("ecHasOrderA("))])
    check_sibling_hash_conversion(prog, res)
    check_hash_image_nonzero(prog, res)
    res.floor("sampling sites", n1, 4)
    res.floor("private-key loads", n2, 3)
    res.floor("modular call sites", n3, 10)
    res.floor("decoded points", n4, 4)
    res.coverage["explanation"] = (
        "Validation-presence analysis (see C02) on bign96.c, g12s.c, dstu.c, pfok.c: sampling modulo the group order, "
        "private-key range before use, operands of zz*Mod routines provably reduced, decoded public keys reduced "
        "(and validated where the scheme has a validator), signature components non-zero and below the order before "
        "use, and success returns of verifiers dominated by the accepting comparison.")
    res.assumptions = COMMON_ASSUMPTIONS + [
        "verification uses public scalars only, so reduced coordinates are what is required of the public key there",
        "pfok works in Z_p*: its range clauses come out through the modular-operand rule",
    ]
    return res
