"""C16: bign96, g12s, dstu, pfok -- validation-presence clauses (same templates as C02)."""
from . import ir, vp, vprules
from .vprules import T, F, OK, FACT, CMP, ANY
from .ir import AnalysisBroken
from .report import Result, COMMON_ASSUMPTIONS

FILES = {"src/crypto/bign96.c", "src/crypto/g12s.c", "src/crypto/dstu.c", "src/crypto/pfok.c"}

POINT_LEVELS = {}
ALTERNATIVES = {}


def nfield(k):
    return lambda fs: sum(1 for x in fs if x[0] == "field") >= k


def run(tier, seed=0):
    res = Result("C16", "other", tier)
    prog = ir.Program("w64")
    n1 = vprules.check_sampling(prog, res, "R16.1-sampling-modulus", FILES)
    # pfok private keys are r-bit numbers: the scheme's own range test is `wwGetBits(x, r, ..) != 0 -> ERR_BAD_PRIVKEY`
    def pfok_form(facts, d):
        return any(x[0] == "cmp" and x[1] is False and x[2].startswith("wwGetBits(%s,params->r," % d) for x in facts)
    n2 = vprules.check_privkey_range(prog, res, "R16.2-private-key-range", FILES, accept=pfok_form)
    n3 = vprules.check_modular_operands(prog, res, "R16.3-modular-operands-reduced", FILES)
    n4 = vprules.check_points(prog, res, "R16.4-points-validated", FILES, POINT_LEVELS, ALTERNATIVES, default="field")
    M = vprules.check_must
    M(prog, res, "R16.5-accept-only-verified", "bign96Verify",
      [("s1 < q", FACT("ltc", r"order$")), ("hash comparison", ANY(T("beltHashStepV2("), T("memEq("))),
       ("public key coordinates reduced (qrFrom x2)", nfield(2))])
    M(prog, res, "R16.5-accept-only-verified", "g12sVerify",
      [("r != 0 and s != 0", lambda fs: sum(1 for x in fs if x[0] == "nz") >= 2),
       ("r < q and s < q", lambda fs: sum(1 for x in fs if x[0] == "ltc" and x[2].endswith("order")) >= 2),
       ("r == x_R mod q (wwEq)", T("wwEq(")), ("public key coordinates reduced (qrFrom x2)", nfield(2))])
    M(prog, res, "R16.5-accept-only-verified", "dstuVerify",
      [("r != 0 and s != 0", lambda fs: sum(1 for x in fs if x[0] == "nz") >= 2),
       ("r < n and s < n", lambda fs: sum(1 for x in fs if x[0] == "ltc" and x[2].endswith("order")) >= 2),
       ("r == recomputed r (wwEq)", T("wwEq(")), ("public key coordinates reduced (qrFrom x2)", nfield(2))])
    M(prog, res, "R16.5-accept-only-verified", "bign96PubkeyVal",
      [("coordinates reduced (qrFrom x2)", nfield(2)), ("on-curve test", ANY(FACT("oncurve", r"."), T("ecpIsOnA(")))])
    M(prog, res, "R16.5-accept-only-verified", "bign96KeypairVal",
      [("0 < d", FACT("nz", r".")), ("d < q", FACT("lt", r".")), ("Q == dG (memEq)", T("memEq("))])
    M(prog, res, "R16.5-accept-only-verified", "dstuPointVal",
      [("coordinates reduced (qrFrom x2)", nfield(2)), ("on-curve test", ANY(FACT("oncurve", r"."), T("ec2IsOnA("))),
       ("order test", T("ecHasOrderA("))])
    res.floor("sampling sites", n1, 4)
    res.floor("private-key loads", n2, 3)
    res.floor("modular call sites", n3, 10)
    res.floor("decoded points", n4, 4)
    res.coverage["explanation"] = (
        "Validation-presence analysis (see C02) on bign96.c, g12s.c, dstu.c, pfok.c: sampling modulo the group order, "
        "private-key range before use, operands of zz*Mod routines provably reduced, decoded public keys reduced "
        "(and validated where the scheme has a validator), signature components non-zero and below the order before "
        "use, and success returns of verifiers dominated by the accepting comparison.")
    res.assumptions = COMMON_ASSUMPTIONS + [
        "verification uses public scalars only, so reduced coordinates are what is required of the public key there",
        "pfok works in Z_p*: its range clauses come out through the modular-operand rule",
    ]
    return res
