"""Result collection, known-findings matching, evidence and violation reports."""
import json, os, sys, time
from .frontend import VERIF, AnalysisBroken

KNOWN_FILE = os.path.join(VERIF, "known_findings.json")


def load_known():
    if not os.path.exists(KNOWN_FILE):
        return []
    return json.load(open(KNOWN_FILE))["findings"]


class Result:
    def __init__(self, pid, level, tier):
        self.pid = pid
        self.level = level
        self.tier = tier
        self.instances = []     # dicts: rule, function, file, line, status, construct, detail, path
        self.coverage = {}
        self.assumptions = []
        self.notes = []
        self.samples = []
        self.floors = {}        # name -> (count, floor)
        self.t0 = time.time()

    def add(self, rule, status, function="", file="", line=0, construct="", detail="", path=None, nontrivial=True):
        assert status in ("proved", "violation", "undecided")
        self.instances.append(dict(rule=rule, status=status, function=function, file=file, line=line,
                                   construct=construct, detail=detail, path=path or [], nontrivial=nontrivial))

    def proved(self, rule, **kw):
        self.add(rule, "proved", **kw)

    def violation(self, rule, **kw):
        self.add(rule, "violation", **kw)

    def undecided(self, rule, **kw):
        self.add(rule, "undecided", **kw)

    def floor(self, name, count, floor):
        self.floors[name] = (count, floor)

    def count(self, rule=None, status=None):
        return sum(1 for i in self.instances if (rule is None or i["rule"] == rule) and
                   (status is None or i["status"] == status))


def finish(res, seed=0, frozen_undecided=None):
    """prints the verdict lines, writes evidence, returns the exit code"""
    known = load_known()
    frozen_undecided = frozen_undecided or []
    viol = [i for i in res.instances if i["status"] == "violation"]
    und = [i for i in res.instances if i["status"] == "undecided"]
    broken = []
    for name, (cnt, fl) in res.floors.items():
        if cnt < fl:
            broken.append("floor %s: %d instances found, at least %d expected" % (name, cnt, fl))
    new_viol, known_hit = [], []
    for v in viol:
        hit = None
        for k in known:
            if k.get("status") != "known":
                continue
            if k["property"] == res.pid and k["rule"] == v["rule"] and k["function"] == v["function"] and \
                    k.get("construct", "") == v["construct"]:
                hit = k
                break
        if hit:
            known_hit.append((v, hit))
        else:
            new_viol.append(v)
    for u in und:
        key = (u["rule"], u["function"], u["construct"])
        if not any((f["rule"], f["function"], f.get("construct", "")) == key for f in frozen_undecided):
            broken.append("undecided %s at %s:%s %s [%s]: %s" % (u["rule"], u["file"], u["line"], u["function"],
                                                                u["construct"], u["detail"]))
    for v, k in known_hit:
        print("KNOWN-FINDING: property=%s %s %s: %s" % (res.pid, v["rule"], v["function"], k.get("what", v["detail"])))
    rc = 0
    replay = None
    if new_viol:
        rdir = os.environ.get("VERIF_REPORT_DIR") or os.path.join(VERIF, "reports")
        os.makedirs(rdir, exist_ok=True)
        replay = os.path.join(rdir, "%s.json" % res.pid)
        json.dump({"property": res.pid, "tier": res.tier, "violations": new_viol}, open(replay, "w"), indent=1)
        for v in new_viol:
            print("%s:%s %s: %s — %s — %s" % (v["file"], v["line"], v["function"], v["rule"], v["construct"], v["detail"]))
            for p in v["path"][:40]:
                print("      via %s" % p)
        print("VIOLATION property=%s replay=%s" % (res.pid, replay))
        rc = 1
    if broken:
        for b in broken:
            print("ANALYSIS-BROKEN property=%s %s" % (res.pid, b))
        if rc == 0:
            rc = 2
    # evidence
    inst = res.instances
    distinct = len({(i["rule"], i["function"], i["file"], i["line"], i["construct"]) for i in inst if i["nontrivial"]})
    cov = dict(res.coverage)
    cov.setdefault("evaluations", max(len(inst), 1))
    cov.setdefault("distinct_nontrivial", distinct)
    cov.setdefault("rule", "one instance per (rule, function, site); non-trivial = required an inference "
                           "(path search, formula comparison, table walk) rather than a mere match")
    samples = res.samples or [
        {k: i[k] for k in ("rule", "function", "file", "line", "status", "construct", "detail")}
        for i in inst[:: max(1, len(inst) // 8)][:10]]
    cov.setdefault("samples", samples)
    by_rule = {}
    for i in inst:
        r = by_rule.setdefault(i["rule"], {"proved": 0, "violation": 0, "undecided": 0})
        r[i["status"]] += 1
    cov["by_rule"] = by_rule
    cov["floors"] = {k: {"found": c, "floor": f} for k, (c, f) in res.floors.items()}
    cov["known_findings"] = [{"rule": v["rule"], "function": v["function"], "construct": v["construct"]}
                             for v, _ in known_hit]
    cov["undecided_frozen"] = [{"rule": u["rule"], "function": u["function"], "construct": u["construct"]} for u in und]
    if res.notes:
        cov["notes"] = res.notes
    try:
        from . import ir as _ir
        cov["analysed"] = list(_ir.PROGRAM_STATS)
    except Exception:
        pass
    ev = {"property_id": res.pid, "tier": res.tier, "seed": seed, "level": res.level, "coverage": cov,
          "assumptions": res.assumptions, "wall_s": round(time.time() - res.t0, 2),
          "violations": len(new_viol)}
    evdir = os.environ.get("VERIF_EVIDENCE_DIR") or os.path.join(VERIF, "evidence")
    os.makedirs(evdir, exist_ok=True)
    json.dump(ev, open(os.path.join(evdir, "%s.json" % res.pid), "w"), indent=1, ensure_ascii=False)
    summary = ", ".join("%s %d/%d" % (r, c["proved"], sum(c.values())) for r, c in sorted(by_rule.items()))
    print("%s %s: %d instances (%s); %d known finding(s); %d new violation(s); exit %d" %
          (res.pid, res.tier, len(inst), summary, len(known_hit), len(new_viol), rc))
    return rc


COMMON_ASSUMPTIONS = [
    "Linux/x86-64 branches of every #if are analysed (OS_UNIX, LITTLE_ENDIAN); Windows, Apple, big-endian and B_PER_W=16 branches are not parsed",
    "clang 14 front end with -std=gnu11 -UNDEBUG; ASSERT(e) is treated as a no-op whose argument is pure (checked by C19 R19.1)",
    "nothing is executed: facts come from clang's type-checked AST (and, where stated, LLVM IR) of /repo's working tree",
]
