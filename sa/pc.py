"""PC: precondition establishment (C09(a)).
For each public err_t function F and each call in F to G: the scalar preconditions G itself asserts (its leading
ASSERT(P(formals)) statements, lifted through the callees on G's must-execute prefix) must be implied by the
conjunction of branch conditions on every path of F to the call.  Both sides are expression trees over F's scalar
parameters lifted from the AST by a whitelisting extractor; the implication is decided by evaluating guard and
precondition on every value of a range that contains all their literals (exhaustive, hence exact, for comparisons of
affine terms with literals below the range bound, % by literals and boolean connectives)."""
import itertools
from . import ir
from .ir import strip, walk, show, int_val, AnalysisBroken

MASK = {"size_t": (1 << 64) - 1, "unsigned long": (1 << 64) - 1, "u64": (1 << 64) - 1, "word": (1 << 64) - 1,
        "u32": (1 << 32) - 1, "unsigned int": (1 << 32) - 1, "u16": 0xFFFF, "octet": 0xFF, "unsigned char": 0xFF,
        "unsigned short": 0xFFFF}
RANGE1 = 70001
RANGE2 = 701
BOUNDARY = [(1 << 16) - 1, 1 << 16, (1 << 16) + 1, (1 << 31) - 1, 1 << 31, (1 << 32) - 1, 1 << 32, (1 << 32) + 1,
            (1 << 63), (1 << 64) - 2, (1 << 64) - 1]
LITERAL_LIMIT = 66000


class NotEvaluable(Exception):
    pass


def free_vars(e, out=None):
    out = set() if out is None else out
    for n in walk(e):
        if n.get("k") == "Ref" and n.get("rk") in ("param", "local"):
            out.add(n["id"])
    return out


def evaluable(e, allowed):
    """is e inside the whitelist, with variables restricted to `allowed` (ids)?  returns max literal or None"""
    mx = 0
    for n in walk(e):
        k = n.get("k")
        if k == "Int":
            v = int_val(n)
            if v is None:
                return None
            if v > LITERAL_LIMIT and v not in BOUNDARY:
                return None
            mx = max(mx, v if v <= LITERAL_LIMIT else 0)
        elif k == "Ref":
            if n.get("rk") not in ("param", "local") or n["id"] not in allowed or n.get("p"):
                return None
        elif k == "Bin":
            if n["op"] not in ("+", "-", "*", "/", "%", "<<", ">>", "&", "|", "^", "==", "!=", "<", "<=", ">", ">=", "&&", "||"):
                return None
        elif k == "Un":
            if n["op"] not in ("!", "-", "~"):
                return None
        elif k in ("Cond", "Cast"):
            pass
        else:
            return None
    return mx


def ev(e, env):
    e0 = e
    k = e.get("k")
    if k == "Int":
        return int_val(e)
    if k == "Ref":
        return env[e["id"]]
    if k == "Cast":
        v = ev(e["e"], env)
        m = MASK.get(e.get("t"))
        return v & m if m else v
    if k == "Un":
        v = ev(e["e"], env)
        if e["op"] == "!":
            return 0 if v else 1
        if e["op"] == "-":
            m = MASK.get(e.get("t"), (1 << 64) - 1)
            return (-v) & m
        if e["op"] == "~":
            return (~v) & MASK.get(e.get("t"), (1 << 32) - 1)
    if k == "Cond":
        return ev(e["x"], env) if ev(e["c"], env) else ev(e["y"], env)
    if k == "Bin":
        op = e["op"]
        if op == "&&":
            return 1 if (ev(e["x"], env) and ev(e["y"], env)) else 0
        if op == "||":
            return 1 if (ev(e["x"], env) or ev(e["y"], env)) else 0
        a, b = ev(e["x"], env), ev(e["y"], env)
        m = MASK.get(e.get("t"))
        if op == "+":
            r = a + b
        elif op == "-":
            r = a - b
        elif op == "*":
            r = a * b
        elif op == "/":
            if b == 0:
                raise NotEvaluable("division by zero")
            r = a // b
        elif op == "%":
            if b == 0:
                raise NotEvaluable("division by zero")
            r = a % b
        elif op == "<<":
            r = a << (b & 63)
        elif op == ">>":
            r = a >> (b & 63)
        elif op == "&":
            r = a & b
        elif op == "|":
            r = a | b
        elif op == "^":
            r = a ^ b
        else:
            return 1 if {"==": a == b, "!=": a != b, "<": a < b, "<=": a <= b, ">": a > b, ">=": a >= b}[op] else 0
        if m is None:
            m = (1 << 64) - 1 if e.get("t") in (None, "unsigned long") else None
        if m is not None:
            r &= m
        elif r < 0:
            r &= (1 << 32) - 1
        return r
    raise NotEvaluable(k)


def conj(e):
    e = strip(e) if e.get("k") == "Cast" and e.get("t") in ("int", "bool_t") else e
    if e.get("k") == "Un" and e["op"] == "!" and strip(e["e"]).get("k") == "Un" and strip(e["e"])["op"] == "!":
        return conj(strip(e["e"])["e"])
    if e.get("k") == "Bin" and e["op"] == "&&":
        return conj(e["x"]) + conj(e["y"])
    return [e]


def subst(e, mapping):
    """copy of e with Ref ids replaced by expressions (mapping id -> expr); None if a ref has no image"""
    if not isinstance(e, dict):
        return e
    if e.get("k") == "Ref" and e.get("rk") in ("param", "local"):
        if e["id"] in mapping:
            return mapping[e["id"]]
        return None
    out = {}
    for k, v in e.items():
        if isinstance(v, dict):
            r = subst(v, mapping)
            if r is None:
                return None
            out[k] = r
        elif isinstance(v, list):
            lst = []
            for x in v:
                if isinstance(x, dict):
                    r = subst(x, mapping)
                    if r is None:
                        return None
                    lst.append(r)
                else:
                    lst.append(x)
            out[k] = lst
        else:
            out[k] = v
    return out


class Preconditions:
    def __init__(self, prog):
        self.prog = prog
        self.memo = {}

    def of(self, f, depth=0):
        """list of (predicate expr over f's scalar formals, origin text)"""
        key = (f.unit if f.static else None, f.name)
        if key in self.memo:
            return self.memo[key]
        self.memo[key] = []
        out = []
        scal = {p["id"] for p in f.params if not p.get("p")}
        body = f.body.get("b", []) if f.body else []
        for s in body:
            k = s.get("k")
            if k == "Call" and s.get("callee") == "utilAssert":
                for c in conj(s["a"][0]):
                    if free_vars(c) and free_vars(c) <= scal and evaluable(c, scal) is not None:
                        out.append((c, "%s: ASSERT(%s)" % (f.name, show(c)[:50])))
                continue
            if k == "Decls":
                # simple declarations without calls do not end the prefix
                if any(d.get("init") is not None and any(True for _ in ir.calls(d["init"])) for d in s["d"]):
                    inits = [d["init"] for d in s["d"] if d.get("init") is not None]
                    self._lift(f, inits, scal, out, depth)
                continue
            if k in ("If", "While", "Do", "For", "Switch", "Return", "Goto", "Label"):
                break
            # expression statement on the must-execute prefix
            self._lift(f, [s], scal, out, depth)
        self.memo[key] = out
        return out

    def _lift(self, f, exprs, scal, out, depth):
        if depth >= 3:
            return
        for e in exprs:
            for c in ir.calls(e):
                cn = c.get("callee")
                if not cn or cn == "utilAssert" or c.get("indirect"):
                    continue
                # only unconditionally evaluated calls: not under && || ?: inside the expression
                g = self.prog.resolve(cn, f.unit)
                if g is None or g.body is None:
                    continue
                if self._conditional(e, c):
                    continue
                pre = self.of(g, depth + 1)
                if not pre:
                    continue
                mapping = {}
                for p, a in zip(g.params, c["a"]):
                    if not p.get("p"):
                        a2 = strip(a)
                        if a2.get("k") == "Bin" and a2["op"] == "=":
                            a2 = strip(a2["y"])
                        mapping[p["id"]] = a2
                for pe, origin in pre:
                    se = subst(pe, mapping)
                    if se is not None and free_vars(se) <= scal and free_vars(se) and evaluable(se, scal) is not None:
                        out.append((se, origin + " via " + f.name))

    @staticmethod
    def _conditional(root, target):
        def rec(n, cond):
            if n is target:
                return cond
            if not isinstance(n, dict):
                return None
            k = n.get("k")
            if k == "Bin" and n["op"] in ("&&", "||"):
                r = rec(n["x"], cond)
                if r is not None:
                    return r
                return rec(n["y"], True)
            if k == "Cond":
                r = rec(n["c"], cond)
                if r is not None:
                    return r
                for a in (n["x"], n["y"]):
                    r = rec(a, True)
                    if r is not None:
                        return r
                return None
            for c in ir.kids(n):
                r = rec(c, cond)
                if r is not None:
                    return r
            return None
        return bool(rec(root, False))


class GuardClient(ir.Client):
    """state: frozenset of (cond index, polarity) for evaluable branch conditions over scalar parameters"""

    def __init__(self, f, scal, calls_of_interest):
        self.f = f
        self.scal = scal
        self.conds = {}     # node id -> (index, expr)
        self.sites = {}     # call node line/callee -> set of guard frozensets
        self.interest = calls_of_interest    # set of id(call dict)
        self.assigned = set()

    def init(self, func):
        return frozenset()

    def eval(self, e, st, env, node):
        for l, rhs, op in ir.assigned_vars(e):
            if l["id"] in self.scal:
                self.assigned.add(l["id"])
        for c in ir.calls(e):
            if id(c) in self.interest:
                self.sites.setdefault(id(c), set()).add(st)
        return st

    def assume(self, c, pol, st, env, node):
        fv = free_vars(c)
        if fv and fv <= self.scal and evaluable(c, self.scal) is not None:
            idx = self.conds.setdefault(node.id, (len(self.conds), c))[0]
            return st | {(idx, pol)}
        return st


def domain_for(nvars):
    if nvars == 1:
        return [list(range(RANGE1)) + BOUNDARY]
    base = list(range(RANGE2)) + [65535, 65536, (1 << 32) - 1, (1 << 64) - 1]
    return [base] * nvars


def check_preconditions(prog, res, tier):
    P = Preconditions(prog)
    nobl = 0
    npub = 0
    for f in prog.all_funcs():
        if not f.public or f.body is None or f.ret.get("t") != "err_t":
            continue
        npub += 1
        scal = {p["id"]: p for p in f.params if not p.get("p")}
        if not scal:
            continue
        # obligations
        obl = []     # (call, predicate over F's params, origin)
        for c in ir.calls(f.body):
            cn = c.get("callee")
            if not cn or cn == "utilAssert" or c.get("indirect"):
                continue
            g = prog.resolve(cn, f.unit)
            if g is None or g.body is None:
                continue
            pre = P.of(g)
            if not pre:
                continue
            mapping = {}
            for p, a in zip(g.params, c["a"]):
                if not p.get("p"):
                    mapping[p["id"]] = strip(a)
            for pe, origin in pre:
                se = subst(pe, mapping)
                if se is None:
                    continue
                fv = free_vars(se)
                if not fv or not fv <= set(scal) or evaluable(se, set(scal)) is None:
                    continue
                obl.append((c, se, origin))
        if not obl:
            continue
        interest = {id(c) for c, _, _ in obl}
        cl = GuardClient(f, set(scal), interest)
        r = ir.run_paths(f, cl, max_states=400000)
        if r.truncated:
            raise AnalysisBroken("precondition analysis: state space truncated in %s" % f.name)
        cond_by_idx = {i: e for (i, e) in cl.conds.values()}
        seen = set()
        for c, se, origin in obl:
            key = (c.get("l"), c.get("callee"), show(se))
            if key in seen:
                continue
            seen.add(key)
            fv = sorted(free_vars(se))
            nobl += 1
            if any(v in cl.assigned for v in fv):
                res.undecided("R09a-precondition-established", function=f.name, file=f.relfile, line=c["l"],
                              construct="%s requires %s" % (c["callee"], show(se)[:50]),
                              detail="a parameter in this precondition is reassigned inside %s" % f.name)
                continue
            if len(fv) > 2:
                continue
            guards = cl.sites.get(id(c), set())
            if not guards:
                continue        # call not reachable on any explored path
            # restrict each path guard to conditions over the precondition's variables
            paths = set()
            for g_ in guards:
                paths.add(frozenset((i, pol) for i, pol in g_ if free_vars(cond_by_idx[i]) <= set(fv)))
            counter = None
            doms = domain_for(len(fv))
            try:
                for vals in itertools.product(*doms):
                    env = dict(zip(fv, vals))
                    if ev(se, env):
                        continue
                    # precondition false here: is some path to the call open?
                    for pth in paths:
                        if all(bool(ev(cond_by_idx[i], env)) == pol for i, pol in pth):
                            counter = env
                            break
                    if counter:
                        break
            except NotEvaluable as ex:
                res.undecided("R09a-precondition-established", function=f.name, file=f.relfile, line=c["l"],
                              construct="%s requires %s" % (c["callee"], show(se)[:50]), detail="not evaluable: %s" % ex)
                continue
            names = {i: scal[i]["n"] for i in fv}
            if counter is None:
                res.proved("R09a-precondition-established", function=f.name, file=f.relfile, line=c["l"],
                           construct="%s requires %s" % (c["callee"], show(se)[:50]),
                           detail="implied by the argument checks on all %d path guard(s) to the call (%s)" % (len(paths), origin))
            else:
                res.violation("R09a-precondition-established", function=f.name, file=f.relfile, line=c["l"],
                              construct="%s requires %s" % (c["callee"], show(se)[:50]),
                              detail="%s reaches %s with %s, for which the callee's own precondition `%s` is false "
                                     "(%s): the argument is not rejected with an error first" %
                                     (f.name, c["callee"], ", ".join("%s = %d" % (names[i], v) for i, v in counter.items()),
                                      show(se)[:60], origin))
    res.floor("public err_t functions", npub, 150)
    res.floor("precondition obligations", nobl, 40)
    res.coverage["precondition_obligations"] = nobl
