"""Fixed-extent arrays (C07 rule SD.f): every access to an array whose number of elements is a constant of the
source -- a parameter declared `T p[N]`, a local `T a[N]`, a struct field `T f[N]`, a global table -- stays inside it.

Interval analysis over the CFG of one function.  The state maps scalar locals/parameters to integer intervals and
pointer locals to (array object, byte offset interval); states are kept apart per path (disjunctive) so constant-trip
loops are enumerated exactly, and only when a node has collected more than CAP states are they widened.  An access is

  inside     the whole interval lies in the object,
  VIOLATION  the interval is finite (or its lower end alone decides) and reaches past the object,
  undecided  the index is not bounded by anything the analysis tracks (symbolic lengths): counted, never reported.

Conditions with side effects (`i++ < N`, `while (n--)`) are interpreted in evaluation order, which is what decides
`do .. while (w[i] == 0 && i++ < W_OF_O(32))`.  ASSERT(c) is taken as an assumption (the admissible domain)."""
import re
from . import ir
from .ir import strip, int_val, walk

CAP = 48
BIG = 1 << 24        # bounds beyond this are type maxima, not facts about the program
INF = None
BASE = {"char": 1, "signed char": 1, "unsigned char": 1, "short": 2, "unsigned short": 2, "int": 4, "unsigned int": 4,
        "long": 8, "unsigned long": 8, "long long": 8, "unsigned long long": 8, "_Bool": 1, "float": 4, "double": 8,
        "__int128": 16, "unsigned __int128": 16, "size_t": 8, "ptrdiff_t": 8}
UNSIGNED = {"unsigned char": 255, "unsigned short": 65535, "unsigned int": (1 << 32) - 1, "unsigned long": (1 << 64) - 1,
            "unsigned long long": (1 << 64) - 1, "_Bool": 1}
# (pointer argument indices, length argument index, length unit in octets or "elem")
MEM_CALLS = {
    "memCopy": ((0, 1), 2), "memMove": ((0, 1), 2), "memSet": ((0,), 2), "memSetZero": ((0,), 1), "memNeg": ((0,), 1),
    "memEq": ((0, 1), 2), "memCmp": ((0, 1), 2), "memCmpRev": ((0, 1), 2), "memIsZero": ((0,), 1), "memRev": ((0,), 1),
    "memXor": ((0, 1, 2), 3), "memXor2": ((0, 1), 2), "memSwap": ((0, 1), 2), "memWipe": ((0,), 1),
    "memcpy": ((0, 1), 2), "memmove": ((0, 1), 2), "memset": ((0,), 2), "memcmp": ((0, 1), 2),
    "memIsValid": ((0,), 1), "memNonZeroSize": ((0,), 1),
}
CMP = ("<", "<=", ">", ">=", "==", "!=")
PROTO_OF = None     # callee name -> function/prototype object with .params (set by the driver)
DOC_OF = None       # callee name -> {pointer parameter: {integer parameter: coefficient, "": constant}} from the headers


class Types:
    def __init__(self, unit):
        self.td = {t["n"]: t for t in unit.get("typedefs", [])}
        self.rec = {r["n"]: r for r in unit.get("records", []) if r.get("n")}
        self.cache = {}

    def canon(self, t):
        t = re.sub(r"\b(const|volatile|register|restrict|__restrict|struct|union|enum)\b", " ", t or "")
        return " ".join(t.split())

    def sizeof(self, t):
        if t in self.cache:
            return self.cache[t]
        r = self._sizeof(self.canon(t))
        self.cache[t] = r
        return r

    def _sizeof(self, t):
        if not t:
            return None
        m = re.match(r"^(.*?)\s*\[(\d*)\]((?:\[\d+\])*)$", t)
        if m:
            if m.group(2) == "":
                return None
            inner = self._sizeof((m.group(1) + m.group(3)).strip())
            return None if inner is None else int(m.group(2)) * inner
        if t.endswith("*") or "(*" in t:
            return 8
        if t in BASE:
            return BASE[t]
        if t in self.td:
            ct = self.canon(self.td[t].get("ct") or "")
            if ct and ct != t:
                return self._sizeof(ct)
        if t in self.rec:
            return self.rec[t].get("size")
        return None

    def urange(self, t):
        """value range given by an unsigned type narrower than the index arithmetic"""
        t = self.canon(t)
        seen = 0
        while t in self.td and seen < 6:
            ct = self.canon(self.td[t].get("ct") or "")
            if not ct or ct == t:
                break
            t, seen = ct, seen + 1
        return UNSIGNED.get(t)

    def is_unsigned(self, t):
        return self.urange(t) is not None or self.canon(t) == "size_t"

    def array(self, t):
        """(element type, count) of `T[N]...`"""
        m = re.match(r"^(.*?)\s*\[(\d+)\]((?:\[\d+\])*)$", self.canon(t))
        if not m:
            return None
        return (m.group(1) + m.group(3)).strip(), int(m.group(2))

    def pointee(self, t):
        t = self.canon(t)
        if t.endswith("*"):
            return t[:-1].strip()
        a = self.array(t)
        return a[0] if a else None


# ---- intervals: (lo, hi) with None = unbounded

TOP = (None, None)


def iv_add(a, b):
    return (None if a[0] is None or b[0] is None else a[0] + b[0], None if a[1] is None or b[1] is None else a[1] + b[1])


def iv_neg(a):
    return (None if a[1] is None else -a[1], None if a[0] is None else -a[0])


def iv_mul(a, b):
    if a[0] is not None and a[0] == a[1]:
        a, b = b, a
    if b[0] is not None and b[0] == b[1]:
        k = b[0]
        if k >= 0:
            return (None if a[0] is None else a[0] * k, None if a[1] is None else a[1] * k)
        return iv_neg(iv_mul(a, (-k, -k)))
    if None in a or None in b:
        if a[0] is not None and b[0] is not None and a[0] >= 0 and b[0] >= 0:
            return (a[0] * b[0], None)
        return TOP
    ps = [a[0] * b[0], a[0] * b[1], a[1] * b[0], a[1] * b[1]]
    return (min(ps), max(ps))


def iv_hull(a, b):
    return (None if a[0] is None or b[0] is None else min(a[0], b[0]), None if a[1] is None or b[1] is None else max(a[1], b[1]))


def iv_meet(a, b):
    lo = a[0] if b[0] is None else b[0] if a[0] is None else max(a[0], b[0])
    hi = a[1] if b[1] is None else b[1] if a[1] is None else min(a[1], b[1])
    return (lo, hi)


def iv_empty(a):
    return a[0] is not None and a[1] is not None and a[0] > a[1]


class Env:
    """values of tracked variables / state fields plus linear facts  sum(coef * key) <= const  learnt from tests"""
    __slots__ = ("m", "facts", "_h")

    def __init__(self, m=(), facts=frozenset()):
        self.m = m if isinstance(m, dict) else dict(m)
        self.facts = facts
        self._h = None

    def get(self, k):
        return self.m.get(k)

    def set(self, k, v):
        """refinement or assignment of the value (facts untouched: see kill)"""
        if v is None or v == TOP:
            if k not in self.m:
                return self
            m = dict(self.m)
            del m[k]
            return Env(m, self.facts)
        if self.m.get(k) == v:
            return self
        m = dict(self.m)
        m[k] = v
        return Env(m, self.facts)

    def kill(self, k):
        """k is about to change: facts that mention it no longer hold"""
        if not self.facts:
            return self
        keep = frozenset(f for f in self.facts if all(t[0] != k for t in f[0]))
        return self if len(keep) == len(self.facts) else Env(self.m, keep)

    def add_fact(self, terms, const):
        f = (tuple(sorted(terms.items(), key=repr)), const)
        if f in self.facts or len(self.facts) >= 12 or not terms:
            return self
        if len(terms) == 1 and const >= 0 and all(v < 0 for v in terms.values()):
            return self           # -x <= c with c >= 0: nothing about an unsigned quantity
        # a stronger fact over the same terms replaces a weaker one
        fs = set(self.facts)
        for g in self.facts:
            if g[0] == f[0]:
                if g[1] <= const:
                    return self
                fs.discard(g)
        fs.add(f)
        return Env(self.m, frozenset(fs))

    def key(self):
        if self._h is None:
            self._h = (frozenset(self.m.items()), self.facts)
        return self._h


def join_facts(fa, fb):
    """facts implied by both: same terms, the weaker (larger) constant"""
    if not fa or not fb:
        return frozenset()
    da = {}
    for t, c in fa:
        da[t] = min(c, da[t]) if t in da else c
    out = set()
    for t, c in fb:
        if t in da:
            out.add((t, max(c, da[t])))
    return frozenset(out)


def widen_facts(old, new):
    """facts of old that new still satisfies (a constant that had to be weakened is given up)"""
    if not old or not new:
        return frozenset()
    dn = {}
    for t, c in new:
        dn[t] = min(c, dn[t]) if t in dn else c
    return frozenset((t, c) for t, c in old if t in dn and dn[t] <= c)


def facts_imply(strong, weak):
    if not weak:
        return True
    ds = {}
    for t, c in strong:
        ds[t] = min(c, ds[t]) if t in ds else c
    return all(t in ds and ds[t] <= c for t, c in weak)


def widen(old, new):
    """old ∇ new: keep what both agree on, open the bound that moved"""
    m = {k: v for k, v in new.m.items() if isinstance(k, tuple) and k[0] == "d"}      # markers: present in either
    for k, a in old.m.items():
        if isinstance(k, tuple) and k[0] == "d":
            m[k] = a
            continue
        b = new.m.get(k)
        if b is None:
            continue
        if a[0] == "p" or b[0] == "p":
            if a[0] == "p" and b[0] == "p" and a[1:3] == b[1:3]:
                oa, ob = a[3], b[3]
                o = (oa[0] if (oa[0] is not None and ob[0] is not None and oa[0] <= ob[0]) else None,
                     oa[1] if (oa[1] is not None and ob[1] is not None and oa[1] >= ob[1]) else None)
                m[k] = ("p", a[1], a[2], o)
            continue
        lo = a[0] if (a[0] is not None and b[0] is not None and a[0] <= b[0]) else None
        hi = a[1] if (a[1] is not None and b[1] is not None and a[1] >= b[1]) else None
        if (lo, hi) != TOP:
            m[k] = (lo, hi)
    return Env(m, widen_facts(old.facts, new.facts))


def contains(big, small):
    """every concrete state of small is one of big"""
    if not facts_imply(small.facts, big.facts):
        return False
    for k in small.m:
        if isinstance(k, tuple) and k[0] == "d" and k not in big.m:
            return False
    for k, a in big.m.items():
        if isinstance(k, tuple) and k[0] == "d":
            continue
        b = small.m.get(k)
        if b is None:
            return False
        if a[0] == "p" or b[0] == "p":
            if not (a[0] == "p" and b[0] == "p" and a[1:3] == b[1:3]):
                return False
            a, b = a[3], b[3]
        if a[0] is not None and (b[0] is None or b[0] < a[0]):
            return False
        if a[1] is not None and (b[1] is None or b[1] > a[1]):
            return False
    return True


class Access:
    __slots__ = ("line", "text", "obj", "size", "lo", "hi", "verdict", "func", "file")

    def __init__(self, **kw):
        for k, v in kw.items():
            setattr(self, k, v)


class FxAnalyzer:
    def __init__(self, func, types, cap=CAP, soft=True, state_ids=None, entry_fields=None, callee_post=None,
                 other_ptrs=None, state_rec=None, entry_facts=None, candidates=None, sym_ext=None):
        self.f, self.ty, self.cap = func, types, cap
        self.soft = soft           # use the value range of narrow unsigned types (sound for proofs; never the ground of a report)
        self.state_ids = state_ids or set()      # variables holding the pointer to the state structure
        self.entry_fields = entry_fields or {}   # field -> interval assumed at entry (a proved family invariant)
        self.callee_post = callee_post or {}     # family function -> {field: interval} guaranteed at its exit
        self.other_ptrs = other_ptrs or {}       # id of another structure pointer -> (group, record): fields tracked
        self.state_rec = state_rec               #   inside this function only (no invariant is assumed for them)
        self.ktype = {}                          # env key -> C type (for the sign of unknown values)
        self.exit_fields = None                  # field -> hull of its values at the exits and at calls into the family
        self.exit_seen = False
        self.entry_facts = entry_facts or ()     # relational family invariants ((field, coef).., const): sum <= const
        self.candidates = candidates or ()       # relations between fields to test at the exits
        self.cand_ok = {c: True for c in self.candidates}
        self.acc = {}              # (line, text) -> [verdicts..]
        self.detail = {}
        self.param_arr = {}
        for p in func.params:
            a = types.array(p.get("ot") or "")
            if a:
                sz = types.sizeof(p.get("ot"))
                if sz:
                    self.param_arr[p["id"]] = sz
        # variables whose address is taken are not tracked
        self.untracked = set()
        for n in walk(func.body):
            if n.get("k") == "Un" and n.get("op") == "&":
                l = strip(n["e"])
                if isinstance(l, dict) and l.get("k") == "Ref" and not self.ty.array(l.get("t") or ""):
                    self.untracked.add(l.get("id"))
        # documented extents of pointer parameters: id -> (name, linear form in elements over parameter ids, octets per element)
        self.sym_ext = dict(sym_ext or {})
        for pid in list(self.sym_ext):
            if pid in self.untracked or any(isinstance(n, dict) and n.get("k") in ("Bin", "Un") and
                                            ((n.get("k") == "Bin" and n.get("op") in ir.ASSIGN_OPS and strip(n["x"]).get("id") == pid and strip(n["x"]).get("k") == "Ref") or
                                             (n.get("k") == "Un" and n.get("op") in ("pre++", "pre--", "post++", "post--") and strip(n["e"]).get("id") == pid and strip(n["e"]).get("k") == "Ref"))
                                            for n in walk(func.body)):
                del self.sym_ext[pid]       # the parameter itself is advanced: its extent no longer starts at it
        # an extent is the value its parameter had at entry (`while (n--) b[n] = a[n]` changes n, not the extent): it is
        # expressed over ghost keys ("e", parameter id) that are tied to the parameters by equality facts at entry
        self.ext_params = set()
        for pid, (nm, l, esz) in list(self.sym_ext.items()):
            self.ext_params |= set(l[0])
            self.sym_ext[pid] = (nm, ({("e", k): c for k, c in l[0].items()}, l[1]), esz)
        for k in self.ext_params:
            self.ktype.setdefault(k, "size_t")
            self.ktype[("e", k)] = "size_t"
        self.truncated = False
        self.wrap_sites = set()    # (line, parameter, k): statements x = P - k split into the cases P >= k and P < k

    # ---- expression values
    def trackable(self, ref):
        return ref.get("rk") in ("local", "param") and ref.get("id") not in self.untracked

    def fkey(self, e):
        """env key of an integer field of the state structure reached through one of the state pointers"""
        if not (self.state_ids or self.other_ptrs) or not isinstance(e, dict):
            return None
        while e.get("k") == "Paren":
            e = e["e"]
        if e.get("k") != "Member" or not e.get("arrow") or e.get("p") or self.ty.array(e.get("t") or ""):
            return None
        b = strip(e["b"])
        while isinstance(b, dict) and b.get("k") == "Paren":
            b = strip(b["e"])
        if not (isinstance(b, dict) and b.get("k") == "Ref"):
            return None
        if self.ty.sizeof(e.get("t") or "") not in (1, 2, 4, 8):
            return None
        if b.get("id") in self.state_ids:
            k = ("f", e["f"])
        elif b.get("id") in self.other_ptrs and b.get("id") not in self.untracked:
            k = ("g", self.other_ptrs[b["id"]][0], e["f"])
        else:
            return None
        self.ktype[k] = e.get("t") or ""
        return k

    def key_of(self, e):
        """env key of a scalar variable or state field, or None"""
        if not isinstance(e, dict):
            return None
        if e.get("k") == "Ref":
            if e.get("p") or not self.trackable(e) or self.ty.array(e.get("t") or ""):
                return None
            self.ktype[e["id"]] = e.get("t") or ""
            return e["id"]
        return self.fkey(e)

    def type_range(self, e):
        u = self.ty.urange(e.get("t") or "")
        if u is not None:
            return (0, u if (self.soft and u < (1 << 63)) else None)
        if self.ty.canon(e.get("t") or "") == "size_t":
            return (0, None)
        return TOP

    def ival(self, e, env):
        r = self._ival(e, env)
        if r is None:
            r = TOP
        if isinstance(e, dict) and e.get("k") != "Int":
            tr = self.type_range(e)
            if tr != TOP and e.get("k") in ("Ref", "Member"):
                # a stored value is a machine value of that type (possibly widened): meet, do not replace
                m = iv_meet(r, tr)
                return tr if iv_empty(m) else m
            if tr != TOP:
                # the expression has an unsigned type: a mathematical value outside the type wraps, and then only the
                # type says something about it
                u = self.ty.urange(e.get("t") or "")
                inside = r[0] is not None and r[0] >= 0 and (u is None or r[1] is None or r[1] <= u)
                if inside and r[1] is None and tr[1] is not None:
                    return (r[0], tr[1])
                return r if inside else tr
        return r

    def _ival(self, e, env):
        if not isinstance(e, dict):
            return TOP
        k = e.get("k")
        if k == "Int":
            v = int_val(e)
            return (v, v) if v is not None else TOP
        if k in ("Paren",):
            return self.ival(e["e"], env)
        if k == "Cast":
            if e.get("p"):
                return TOP
            inner = self.ival(e["e"], env)
            return inner
        if k == "Ref":
            if e.get("p"):
                return TOP
            if self.trackable(e):
                v = env.get(e["id"])
                if v is not None and v[0] != "p":
                    return v
            return TOP
        if k == "Member":
            fk = self.fkey(e)
            if fk is not None:
                v = env.get(fk)
                if v is not None:
                    return v
            return TOP
        if k == "Un":
            op = e["op"]
            if op == "-":
                return iv_neg(self.ival(e["e"], env))
            if op == "+":
                return self.ival(e["e"], env)
            if op == "!":
                return (0, 1)
            if op in ("pre++", "pre--", "post++", "post--"):
                r = strip(e["e"])
                if r.get("k") == "Ref" and not r.get("p"):
                    old = self.ival(r, env)
                    if op.startswith("post"):
                        return old
                    return iv_add(old, (1, 1) if op == "pre++" else (-1, -1))
            return TOP
        if k == "Bin":
            op = e["op"]
            if op in CMP or op in ("&&", "||"):
                return (0, 1)
            if op == ",":
                return self.ival(e["y"], env)
            if op == "=":
                return self.ival(e["y"], env)
            if op in ("+", "-", "*", "/", "%", "&", ">>", "<<", "|", "^"):
                if strip(e["x"]).get("p") or strip(e["y"]).get("p"):
                    return self.ptr_diff(e, env) if op == "-" else TOP
                a, b = self.ival(e["x"], env), self.ival(e["y"], env)
                if op == "-" and not self.soft:
                    # runs a report may rest on: an upper bound of x - y must not come from "y is unsigned, hence >= 0"
                    rb = self._ival(e["y"], env)
                    if rb is None or rb[0] is None:
                        b = (None, b[1])
                r = self.arith(op, a, b)
                if op in ("+", "-") and env.facts:
                    l = self.lin(e)
                    if l is not None and l[0]:
                        ub = self.fact_bound(l, env)
                        if ub is not None and (r[1] is None or ub < r[1]):
                            r = (r[0], ub)
                return r
            return TOP
        if k == "Cond":
            c = e.get("c")
            t_env, f_env = self.assume(c, True, env), self.assume(c, False, env)
            vals = []
            if t_env is not None:
                vals.append(self.ival(e["x"], t_env))
            if f_env is not None:
                vals.append(self.ival(e["y"], f_env))
            if not vals:
                return TOP
            r = vals[0]
            for v in vals[1:]:
                r = iv_hull(r, v)
            return r
        if k == "Call":
            nm = e.get("callee")
            if nm in ("utilMin", "utilMax") and len(e["a"]) >= 2 and int_val(e["a"][0]) is not None:
                vals = [self.ival(a, env) for a in e["a"][1:]]
                if nm == "utilMin":
                    his = [v[1] for v in vals if v[1] is not None]
                    los = [v[0] for v in vals]
                    return (None if any(l is None for l in los) else min(los), min(his) if his else None)
                los = [v[0] for v in vals if v[0] is not None]
                his = [v[1] for v in vals]
                return (max(los) if los else None, None if any(h is None for h in his) else max(his))
            return TOP
        return TOP

    def ptr_diff(self, e, env):
        a, b = self.pval(e["x"], env), self.pval(e["y"], env)
        if a is None or b is None or a[1] != b[1]:
            return TOP
        sz = self.ty.sizeof(self.ty.pointee(strip(e["x"]).get("t") or "") or "") or None
        d = iv_add(a[3], iv_neg(b[3]))
        if not sz or sz == 1:
            return d
        if d[0] is not None and d[1] is not None and d[0] % sz == 0 and d[1] % sz == 0:
            return (d[0] // sz, d[1] // sz)
        return TOP

    def arith(self, op, a, b):
        if op == "+":
            return iv_add(a, b)
        if op == "-":
            return iv_add(a, iv_neg(b))
        if op == "*":
            return iv_mul(a, b)
        if op == "/":
            if b[0] is not None and b[0] == b[1] and b[0] > 0 and a[0] is not None and a[0] >= 0:
                return (a[0] // b[0], None if a[1] is None else a[1] // b[0])
            return TOP
        if op == "%":
            if b[0] is not None and b[0] >= 1 and b[1] is not None and (a[0] is not None and a[0] >= 0):
                hi = b[1] - 1
                if a[1] is not None and a[1] < hi:
                    hi = a[1]
                return (0, hi)
            return TOP
        if op == "&":
            c = [x for x in (a, b) if x[0] is not None and x[0] == x[1] and x[0] >= 0]
            if c:
                m = min(x[0] for x in c)
                return (0, m)
            his = [x[1] for x in (a, b) if x[0] is not None and x[0] >= 0 and x[1] is not None]
            if his:
                return (0, min(his))
            return TOP
        if op == ">>":
            if b[0] is not None and b[0] == b[1] and 0 <= b[0] < 64 and a[0] is not None and a[0] >= 0:
                return (a[0] >> b[0], None if a[1] is None else a[1] >> b[0])
            return TOP
        if op == "<<":
            if b[0] is not None and b[0] == b[1] and 0 <= b[0] < 64 and a[0] is not None and a[0] >= 0:
                return (a[0] << b[0], None if a[1] is None else a[1] << b[0])
            return TOP
        if op in ("|", "^"):
            if a[0] is not None and b[0] is not None and a[0] >= 0 and b[0] >= 0 and a[1] is not None and b[1] is not None:
                n = max(a[1], b[1]).bit_length()
                return (0, (1 << n) - 1)
            return TOP
        return TOP

    # ---- pointers into fixed arrays: ("p", objkey, size, (offlo, offhi)) in octets
    def obj_of(self, e):
        """the fixed-extent array the expression designates before decay"""
        if e.get("k") == "Ref":
            if e.get("rk") == "param" and e.get("id") in self.param_arr:
                return None        # a pointer variable initialised at entry (it may be advanced)
            a = self.ty.array(e.get("t") or "")
            if a:
                sz = self.ty.sizeof(e.get("t"))
                if sz:
                    return ("%s:%s" % (e.get("rk") or "var", e["n"]), sz)
            return None
        if e.get("k") == "Member":
            a = self.ty.array(e.get("t") or "")
            if a:
                sz = self.ty.sizeof(e.get("t"))
                ap = ir.access_path(e)
                if sz and ap:
                    return ("field:" + ap, sz)
            return None
        if e.get("k") == "Str":
            return None
        return None

    def pval(self, e, env):
        if not isinstance(e, dict):
            return None
        k = e.get("k")
        if k in ("Cast", "Paren"):
            return self.pval(e["e"], env)
        if k in ("Ref", "Member"):
            o = self.obj_of(e)
            if o is not None:
                return ("p", o[0], o[1], (0, 0))
            if k == "Ref" and e.get("p") and self.trackable(e):
                v = env.get(e["id"])
                if v is not None and v[0] == "p":
                    return v
            return None
        if k == "Index":
            # a[i] of a two-dimensional array designates the row
            base = self.pval(e["b"], env)
            if base is None or not self.ty.array(e.get("t") or ""):
                return None
            esz = self.ty.sizeof(e.get("t"))
            if not esz:
                return None
            off = iv_add(base[3], iv_mul(self.ival(e["i"], env), (esz, esz)))
            return ("p", base[1], base[2], off)
        if k == "Un" and e["op"] == "&":
            inner = strip(e["e"])
            if inner.get("k") == "Index":
                base = self.pval(inner["b"], env)
                esz = self.ty.sizeof(inner.get("t") or "")
                if base is None or not esz:
                    return None
                return ("p", base[1], base[2], iv_add(base[3], iv_mul(self.ival(inner["i"], env), (esz, esz))))
            if inner.get("k") in ("Ref", "Member"):
                return self.pval(inner, env)
            return None
        if k == "Bin" and e["op"] in ("+", "-"):
            x, y = e["x"], e["y"]
            px = self.pval(x, env)
            if px is None and e["op"] == "+":
                px, x, y = self.pval(y, env), y, x
            if px is None:
                return None
            if strip(y).get("p"):
                return None
            esz = self.ty.sizeof(self.ty.pointee(self.ptype(x)) or "")
            if not esz:
                return None
            d = iv_mul(self.ival(y, env), (esz, esz))
            if e["op"] == "-":
                d = iv_neg(d)
            return ("p", px[1], px[2], iv_add(px[3], d))
        if k == "Bin" and e["op"] == "=":
            return self.pval(e["y"], env)
        if k == "Cond":
            a, b = self.pval(e["x"], env), self.pval(e["y"], env)
            if a is not None and b is not None and a[1:3] == b[1:3]:
                return ("p", a[1], a[2], iv_hull(a[3], b[3]))
            return None
        return None

    # ---- linear forms over tracked integer variables: ({id: coefficient}, constant)
    def lin(self, e):
        if not isinstance(e, dict):
            return None
        k = e.get("k")
        if k == "Int":
            v = int_val(e)
            return None if v is None else ({}, v)
        if k == "Paren":
            return self.lin(e["e"])
        if k == "Cast":
            if e.get("p") or self.ty.urange(e.get("t") or "") not in (None, (1 << 64) - 1):
                return None
            return self.lin(e["e"])
        if k in ("Ref", "Member"):
            key = self.key_of(e)
            return None if key is None else ({key: 1}, 0)
        if k == "Bin" and e["op"] in ("+", "-"):
            a, b = self.lin(e["x"]), self.lin(e["y"])
            if a is None or b is None:
                return None
            return lin_add(a, b if e["op"] == "+" else lin_scale(b, -1))
        if k == "Bin" and e["op"] == "*":
            a, b = self.lin(e["x"]), self.lin(e["y"])
            if a is None or b is None:
                return None
            if not a[0]:
                return lin_scale(b, a[1])
            if not b[0]:
                return lin_scale(a, b[1])
        return None

    def lin_safe(self, e, env):
        """lin(e) if the machine value of e equals the linear form in env: every difference of unsigned operands is
        known not to wrap (its mathematical lower end is >= 0).  Sums of object lengths/offsets do not wrap
        (each is <= PTRDIFF_MAX: stated assumption)."""
        if not isinstance(e, dict):
            return None
        wp = env.get(("#wrapP",))
        if wp is not None:
            e = self.wrap_rewrite(e, wp[0], wp[1])
        for n in walk(e):
            if n.get("k") == "Bin" and n.get("op") == "-" and not strip(n["x"]).get("p"):
                if self.ty.is_unsigned(n.get("t") or "") or self.ty.canon(n.get("t") or "") in ("size_t", "unsigned long"):
                    r = self.arith("-", self.ival(n["x"], env), self.ival(n["y"], env))
                    lx, ly = self.lin(n["x"]), self.lin(n["y"])
                    if lx is not None and ly is not None:
                        lo2 = self.lower(lin_add(lx, lin_scale(ly, -1)), env)
                        if lo2 is not None and (r[0] is None or lo2 > r[0]):
                            r = (lo2, r[1])
                    if r[0] is None or r[0] < 0:
                        return None
            if n.get("k") == "Un" and n.get("op") in ("pre++", "pre--", "post++", "post--"):
                return None
            if n.get("k") == "Bin" and n.get("op") in ir.ASSIGN_OPS:
                return None
        return self.lin(e)

    def lower(self, l, env):
        """lower bound of a linear form: plain intervals, or -(upper bound of -l) through the facts"""
        lo = self.plain_eval(l, env)[0]
        if env.facts:
            ub = self.fact_bound(lin_scale(l, -1), env)
            if ub is not None and (lo is None or -ub > lo):
                lo = -ub
        return lo

    def plin(self, e, env):
        """octet offset of a pointer expression from the start of its array, as a linear form"""
        if not isinstance(e, dict):
            return None
        k = e.get("k")
        if k in ("Cast", "Paren"):
            return self.plin(e["e"], env)
        if k in ("Ref", "Member"):
            if self.obj_of(e) is not None:
                return ({}, 0)
            v = env.get(e.get("id")) if k == "Ref" else None
            if v is not None and v[0] == "p" and v[3][0] is not None and v[3][0] == v[3][1]:
                return ({}, v[3][0])
            return None
        if k == "Bin" and e["op"] in ("+", "-") and strip(e["x"]).get("p") and not strip(e["y"]).get("p"):
            a, b = self.plin(e["x"], env), self.lin_safe(e["y"], env)
            esz = self.ty.sizeof(self.ty.pointee(self.ptype(e["x"])) or "")
            if a is None or b is None or not esz:
                return None
            return lin_add(a, lin_scale(b, esz if e["op"] == "+" else -esz))
        return None

    def lin_eval(self, l, env):
        """interval of a linear form; its upper end also uses the facts"""
        r = self.plain_eval(l, env)
        if env.facts and l[0]:
            ub = self.fact_bound(l, env)
            if ub is not None and (r[1] is None or ub < r[1]):
                r = (r[0], ub)
        return r

    def plain_eval(self, l, env):
        r = (l[1], l[1])
        for key, c in l[0].items():
            v = env.get(key)
            if v is None or v[0] == "p":
                v = (0, None) if (self.ty.is_unsigned(self.ktype.get(key, "")) and (self.soft or c > 0)) else TOP
            r = iv_add(r, iv_mul(v, (c, c)))
        return r

    def fact_bound(self, l, env, depth=3, used=()):
        """upper bound of the linear form from the facts:  l = F + (l - F) <= c + ub(l - F)  for a fact F <= c, where
        the rest is bounded by intervals or, up to three facts deep, in the same way"""
        best = None
        for f in env.facts:
            terms, c = f
            if f in used:
                continue
            for k_ in _scales(l, terms):
                rest = lin_add(l, lin_scale((dict(terms), 0), -k_))
                if len(rest[0]) > len(l[0]) + 1:
                    continue
                ub = self.plain_eval(rest, env)[1]
                if depth > 1 and rest[0]:
                    ub2 = self.fact_bound(rest, env, depth - 1, used + (f,))
                    if ub2 is not None and (ub is None or ub2 < ub):
                        ub = ub2
                if ub is None:
                    continue
                if best is None or k_ * c + ub < best:
                    best = k_ * c + ub
        return best

    def ptype(self, e):
        """static type of a pointer expression (outermost cast wins)"""
        while isinstance(e, dict) and e.get("k") == "Paren":
            e = e["e"]
        return e.get("t") or ""

    # ---- access checks
    def derived_in(self, exprs, env):
        """does an expression mention a variable whose value was computed from other variables in a way the linear
        facts could not record (the relation to its operands is lost, so a bound on it proves nothing)"""
        for e in exprs:
            for n in walk(e):
                if n.get("k") in ("Ref", "Member"):
                    key = self.key_of(n)
                    if key is not None and env.get(("d", key)) is not None:
                        return True
                    if n.get("k") == "Ref" and n.get("p") and env.get(("d", n.get("id"))) is not None:
                        return True
        return False

    def note(self, line, text, obj, size, lo, hi, exprs=(), env=None, min_end=None):
        """octets [lo, hi) relative to the object's start are touched (either end may be unknown); min_end: the least
        possible end of the touched range -- if even that lies beyond the object, every execution reaching here overruns"""
        if min_end is not None and min_end > size and size > 0 and not (env is not None and self.derived_in(exprs, env)):
            key = (line, text)
            self.acc.setdefault(key, []).append("violation")
            self.acc.setdefault(("#definite",) + key, []).append("violation")
            self.detail.setdefault(key, (obj, size, lo, min_end))
            return
        if not self.soft:
            if hi is not None and hi > BIG:
                hi = None
            if lo is not None and (lo < -BIG or lo > BIG):
                lo = None
        if lo is not None and hi is not None:
            verdict = "inside" if (lo >= 0 and hi <= size) else "violation"
        elif lo is not None and lo >= size and size > 0:
            verdict = "violation"          # already the first octet touched lies beyond the object
        else:
            verdict = "undecided"
        if verdict == "violation" and env is not None and self.derived_in(exprs, env):
            verdict = "undecided"
        key = (line, text)
        self.acc.setdefault(key, []).append(verdict)
        if verdict != "inside":
            self.detail.setdefault(key, (obj, size, lo, hi))

    # ---- documented (symbolic) extents
    def sroot(self, e, env):
        """(parameter id, octet offset as a linear form) of a pointer expression built on a parameter whose extent the
        header documents, or None"""
        if not isinstance(e, dict):
            return None
        k = e.get("k")
        if k in ("Cast", "Paren"):
            return self.sroot(e["e"], env)
        if k == "Ref" and e.get("rk") == "param" and e.get("id") in self.sym_ext:
            return e["id"], ({}, 0)
        if k == "Bin" and e["op"] in ("+", "-") and strip(e["x"]).get("p") and not strip(e["y"]).get("p"):
            a = self.sroot(e["x"], env)
            if a is None:
                return None
            b = self.lin_safe(e["y"], env)
            esz = self.ty.sizeof(self.ty.pointee(self.ptype(e["x"])) or "") or (1 if "void" in self.ptype(e["x"]) else None)
            if b is None or not esz:
                return a[0], None
            return a[0], lin_add(a[1], lin_scale(b, esz if e["op"] == "+" else -esz))
        if k == "Un" and e["op"] == "&" and strip(e["e"]).get("k") == "Index":
            ix = strip(e["e"])
            a = self.sroot(ix["b"], env)
            if a is None:
                return None
            b = self.lin_safe(ix["i"], env)
            esz = self.ty.sizeof(ix.get("t") or "")
            if b is None or not esz or a[1] is None:
                return a[0], None
            return a[0], lin_add(a[1], lin_scale(b, esz))
        return None

    def rel_bound(self, l, env, depth=3, used=()):
        """upper bound of l that rests on the facts alone: every variable is eliminated through facts learnt from tests
        (an index and an extent related by `i <= n`), none through the interval of an unrelated variable"""
        if not l[0]:
            return l[1]
        best = None
        if depth <= 0:
            return None
        for f in env.facts:
            terms, c = f
            if f in used:
                continue
            for k_ in _scales(l, terms):
                rest = lin_add(l, lin_scale((dict(terms), 0), -k_))
                if len(rest[0]) > len(l[0]):
                    continue
                r = self.rel_bound(rest, env, depth - 1, used + (f,))
                if r is not None and (best is None or k_ * c + r < best):
                    best = k_ * c + r
        return best

    def note_sym(self, line, text, pid, start, length, env, exprs):
        """octets [start, start + length) of the parameter with the documented extent (linear forms)"""
        nm, ext, esz = self.sym_ext[pid]
        size = lin_scale(ext, esz)
        key = (line, text)
        if start is None or length is None:
            self.acc.setdefault(key, []).append("undecided")
            self.detail.setdefault(key, ("param:" + nm, "doc", None, None))
            return
        over = lin_add(lin_add(start, length), lin_scale(size, -1))          # end - size, must be <= 0
        ub = self.lin_eval(over, env)[1]
        lo = self.lower(start, env)
        if ub is not None and ub <= 0 and lo is not None and lo >= 0:
            verdict = "inside"
        else:
            verdict = "undecided"
            rb = self.rel_bound(over, env)
            if rb is not None and rb > 0 and not self.derived_in(exprs, env):
                verdict = "violation"
            if lo is not None and lo < 0:
                rl = self.rel_bound(lin_scale(start, -1), env)
                if rl is not None and rl > 0 and not self.derived_in(exprs, env):
                    verdict = "violation"
        wr = env.get(("#wrap",))
        if wr is not None and verdict != "inside" and not self.derived_in(exprs, env):
            # the case P < k of an unvalidated `P - k`: does every execution of this case overrun?
            lo_over = self.lower(over, env)
            if lo_over is not None and lo_over > 0:
                verdict = "violation"
                self.acc.setdefault(("#wrapped",) + key, []).append("violation")
                self.detail[key] = ("param:" + nm, "documented [%s]; a length computed at line %d by an unsigned "
                                    "subtraction that wraps when the parameter is smaller than the constant, which no "
                                    "test on the path excludes" % (self.show_lin(ext), wr[0]), lo, lo_over)
        self.acc.setdefault(key, []).append(verdict)
        if verdict != "inside":
            self.detail.setdefault(key, ("param:" + nm, "documented [%s]" % self.show_lin(ext), lo, ub))

    def show_lin(self, l):
        names = {p["id"]: p["n"] for p in self.f.params}
        parts = ["%s%s" % ("" if c == 1 else "%d*" % c, names.get(k, str(k))) for k, c in sorted(l[0].items(), key=repr)]
        if l[1] or not parts:
            parts.append(str(l[1]))
        return " + ".join(parts)

    def callee_extents(self, call, env):
        """(argument index, octets as interval, octets as linear form or None, expressions used) for the buffers of a
        call whose extents the callee's prototype (`T p[N]`) or its header comment (`[n]p`) gives"""
        proto = PROTO_OF(call.get("callee")) if PROTO_OF is not None else None
        if proto is None or getattr(proto, "static", False):
            return
        doc = DOC_OF(call["callee"]) or {}
        names = {p_["n"]: i for i, p_ in enumerate(proto.params)}
        for pi, p_ in enumerate(proto.params):
            if pi >= len(call["a"]) or not p_.get("p"):
                continue
            arr = self.ty.array(p_.get("ot") or "")
            if arr:
                sz = self.ty.sizeof(p_.get("ot"))
                if sz:
                    yield pi, (sz, sz), ({}, sz), (call["a"][pi],)
                continue
            l = doc.get(p_["n"])
            if l is None or any(k and (k not in names or names[k] >= len(call["a"])) for k in l):
                continue
            pt = self.ty.pointee(self.ty.canon(p_.get("t") or "")) or ""
            esz = 1 if pt in ("void", "") else self.ty.sizeof(pt)
            if not esz:
                continue
            iv, lf, used = (l.get("", 0), l.get("", 0)), ({}, l.get("", 0)), [call["a"][pi]]
            for k, c in l.items():
                if not k:
                    continue
                a = call["a"][names[k]]
                used.append(a)
                va = self.ival(a, env)
                if c < 0 and not self.soft:
                    ra = self._ival(a, env)
                    if ra is None or ra[0] is None:
                        va = (None, va[1])          # not "unsigned, hence >= 0" as the ground of an upper bound
                iv = iv_add(iv, iv_mul(va, (c, c)))
                la = self.lin_safe(a, env) if lf is not None else None
                lf = None if la is None else lin_add(lf, lin_scale(la, c))
            iv = iv_mul(iv, (esz, esz))
            lf = None if lf is None else lin_scale(lf, esz)
            if iv[0] is not None and iv[0] < 0:
                iv = (0, iv[1])
            yield pi, iv, lf, tuple(used)

    def touch_range(self, call, pi, ln, nl, env, line, used):
        """the call touches ln (interval) / nl (linear form) octets from its argument pi on"""
        arg = call["a"][pi]
        label = "%s(.., %s, ..)" % (call["callee"], self.text(arg))
        p = self.pval(arg, env)
        if p is None and self.sym_ext:
            sr = self.sroot(arg, env)
            if sr is not None and ln[1] != 0:
                self.note_sym(line, label, sr[0], sr[1], nl, env, used)
        if p is None or ln[1] == 0:
            return
        lo = p[3][0]
        hi = None if p[3][1] is None or ln[1] is None else p[3][1] + ln[1]
        pl = self.plin(arg, env)
        if pl is not None and nl is not None:
            # offset and length as one linear form: `block + n, 32 - n` ends at 32 whatever n is
            end = self.lin_eval(lin_add(pl, nl), env)
            if end[1] is not None and (hi is None or end[1] < hi):
                hi = end[1]
        # a state that went round a loop may owe its values to the unrolling of a sentinel loop: not "definite"
        first_pass = env.get(("#be",)) is None
        self.note(line, label, p[1], p[2], lo, hi, used, env,
                  min_end=None if (not first_pass or p[3][0] is None or ln[0] is None) else p[3][0] + ln[0])

    def check_expr(self, e, env, line, under_addr=False):
        """examine the accesses of e (sub-expressions included) in env"""
        if not isinstance(e, dict):
            return
        k = e.get("k")
        if k == "Index":
            base = self.pval(e["b"], env)
            esz = self.ty.sizeof(e.get("t") or "")
            if base is not None and esz:
                i = self.ival(e["i"], env)
                off = iv_add(base[3], iv_mul(i, (esz, esz)))
                if under_addr:
                    # &a[N] is a valid one-past pointer: nothing is touched
                    self.note(line, "&" + self.text(e), base[1], base[2], off[0], off[1], (e,), env)
                else:
                    self.note(line, self.text(e), base[1], base[2], off[0], None if off[1] is None else off[1] + esz, (e,), env)
            elif base is None and esz and self.sym_ext:
                sr = self.sroot(e["b"], env)
                if sr is not None:
                    il = self.lin_safe(e["i"], env)
                    start = None if (sr[1] is None or il is None) else lin_add(sr[1], lin_scale(il, esz))
                    self.note_sym(line, ("&" if under_addr else "") + self.text(e), sr[0], start, ({}, 0 if under_addr else esz), env, (e,))
            self.check_expr(e["b"], env, line)
            self.check_expr(e["i"], env, line)
            return
        if k == "Un" and e["op"] == "*":
            p = self.pval(e["e"], env)
            esz = self.ty.sizeof(e.get("t") or "")
            if p is not None and esz:
                self.note(line, self.text(e), p[1], p[2], p[3][0], None if p[3][1] is None else p[3][1] + esz, (e,), env)
            elif p is None and esz and self.sym_ext:
                sr = self.sroot(e["e"], env)
                if sr is not None:
                    self.note_sym(line, self.text(e), sr[0], sr[1], ({}, esz), env, (e,))
            self.check_expr(e["e"], env, line)
            return
        if k == "Un" and e["op"] == "&":
            self.check_expr(e["e"], env, line, under_addr=True)
            return
        if k == "Call":
            spec = MEM_CALLS.get(e.get("callee"))
            if spec and len(e["a"]) > spec[1]:
                ln = self.ival(e["a"][spec[1]], env)
                nl = self.lin_safe(e["a"][spec[1]], env)
                for pi in spec[0]:
                    self.touch_range(e, pi, ln, nl, env, line, (e["a"][pi], e["a"][spec[1]]))
            elif e.get("callee") and e.get("callee") != "utilAssert" and DOC_OF is not None:
                # a callee whose header documents how much of each buffer it uses: `[count]buf`, `octet hash[32]`
                for pi, ln, nl, used in self.callee_extents(e, env):
                    self.touch_range(e, pi, ln, nl, env, line, used)
            for a in e["a"]:
                self.check_expr(a, env, line)
            return
        if k == "Bin" and e["op"] in ("&&", "||", ","):
            # evaluated in order with effects in between: the CFG has split them where they branch
            self.check_expr(e["x"], env, line)
            env2 = self.effects(e["x"], env)
            if e["op"] == "&&":
                env2 = self.assume(e["x"], True, env)
            elif e["op"] == "||":
                env2 = self.assume(e["x"], False, env)
            if env2 is not None:
                self.check_expr(e["y"], env2, line)
            return
        if k == "Cond":
            self.check_expr(e["c"], env, line)
            t_env, f_env = self.assume(e["c"], True, env), self.assume(e["c"], False, env)
            if t_env is not None:
                self.check_expr(e["x"], t_env, line)
            if f_env is not None:
                self.check_expr(e["y"], f_env, line)
            return
        for c in ir.kids(e):
            self.check_expr(c, env, line)

    def text(self, e):
        try:
            return ir.show(e)
        except Exception:
            return "<expr@%s>" % e.get("l")

    # ---- effects
    def assign(self, ref, val_e, env, op="="):
        if ref.get("k") != "Ref" or not self.trackable(ref):
            return env
        vid = ref["id"]
        if ref.get("p"):
            if op == "=":
                return env.set(vid, self.pval(val_e, env))
            if op in ("+=", "-="):
                cur = env.get(vid)
                if cur is None or cur[0] != "p":
                    return env.set(vid, None)
                esz = self.ty.sizeof(self.ty.pointee(ref.get("t") or "") or "")
                if not esz:
                    return env.set(vid, None)
                d = iv_mul(self.ival(val_e, env), (esz, esz))
                if op == "-=":
                    d = iv_neg(d)
                return env.set(vid, ("p", cur[1], cur[2], iv_add(cur[3], d)))
            return env.set(vid, None)
        if self.ty.array(ref.get("t") or ""):
            return env
        return self.store(vid, ref, val_e, env, op)

    def store(self, key, lhs, val_e, env, op):
        """scalar variable or state field `key` := value; facts about its old value go"""
        if op == "=":
            v = self.ival(val_e, env)
        else:
            v = self.arith(op[:-1], self.ival(lhs, env), self.ival(val_e, env))
            if op in ("+=", "-=") and env.facts:
                # x += e under a fact  x + e <= c
                l = self.lin_safe({"k": "Bin", "op": op[0], "x": lhs, "y": val_e, "t": lhs.get("t")}, env)
                if l is not None and l[0]:
                    ub = self.fact_bound(l, env)
                    if ub is not None and (v[1] is None or ub < v[1]):
                        v = (v[0], ub)
                    lo = self.lower(l, env)
                    if lo is not None and (v[0] is None or lo > v[0]):
                        v = (lo, v[1])
        self.ktype[key] = lhs.get("t") or ""
        eq = None
        derived = False
        if op == "=":
            l = self.lin_safe(val_e, env)
            if l is not None and l[0] and key not in l[0] and len(l[0]) <= 3:
                eq = l
            elif l is None or l[0]:
                # computed from other variables in a way that is not recorded: remember that the relation is lost
                derived = any(self.key_of(n) not in (None, key) for n in walk(val_e) if n.get("k") in ("Ref", "Member"))
        else:
            derived = env.get(("d", key)) is not None or any(self.key_of(n) not in (None, key) for n in walk(val_e)
                                                              if n.get("k") in ("Ref", "Member"))
            if op in ("+=", "-=") and self.lin_safe(val_e, env) is not None and env.get(("d", key)) is None:
                derived = False       # x += e keeps x an interval quantity; the facts about the old x were dropped
        moved = None
        if op in ("+=", "-=") and env.facts:
            le = self.lin_safe(val_e, env)
            fv = self.fit(lhs, v)
            if le is not None and key not in le[0] and fv is not None:
                # x' = x + e: a fact about x holds for x' - e
                moved = []
                for terms, c in env.facts:
                    cf = dict(terms).get(key)
                    if cf is None:
                        continue
                    t2 = lin_add((dict(terms), 0), lin_scale(le, -cf if op == "+=" else cf))
                    if len(t2[0]) <= max(2, len(terms)) and all(abs(v_) == 1 for v_ in t2[0].values()):
                        moved.append((t2[0], c - t2[1]))
        env = env.kill(key).set(key, self.fit(lhs, v))
        for t2, c2 in (moved or ()):
            if t2:
                env = env.add_fact(t2, c2)
        env = env.set(("d", key), (1, 1) if derived else None)
        if eq is not None:
            # key == l as two facts
            d1 = lin_add(({key: 1}, 0), lin_scale(eq, -1))
            env = env.add_fact(d1[0], -d1[1])
            d2 = lin_scale(d1, -1)
            env = env.add_fact(d2[0], -d2[1])
        if isinstance(key, tuple) and self.other_ptrs:
            # two pointers to the same structure type may point to the same object
            rec = self.state_rec if key[0] == "f" else self.group_rec(key[1])
            for k2 in [k2 for k2 in env.m if isinstance(k2, tuple) and k2 != key and k2[-1] == key[-1]]:
                rec2 = self.state_rec if k2[0] == "f" else self.group_rec(k2[1])
                if rec is None or rec2 is None or rec == rec2:
                    env = env.kill(k2).set(k2, None)
        return env

    def group_rec(self, grp):
        for g, rec in self.other_ptrs.values():
            if g == grp:
                return rec
        return None

    def fit(self, ref, v):
        """a value stored into a variable of unsigned type: out-of-range values wrap, so nothing is known"""
        if v is None or v == TOP:
            return None
        t = ref.get("t") or ""
        if self.ty.is_unsigned(t):
            u = self.ty.urange(t)
            if v[0] is None or v[0] < 0 or (u is not None and (v[1] is None or v[1] > u)):
                if v[0] is not None and v[0] >= 0 and v[1] is None:
                    return (v[0], None)
                return None
        return v

    def incdec(self, ref, op, env):
        if ref.get("k") != "Ref" or not self.trackable(ref):
            return env
        d = 1 if "++" in op else -1
        cur = env.get(ref["id"])
        if ref.get("p"):
            if cur is None or cur[0] != "p":
                return env
            esz = self.ty.sizeof(self.ty.pointee(ref.get("t") or "") or "")
            if not esz:
                return env.set(ref["id"], None)
            return env.set(ref["id"], ("p", cur[1], cur[2], iv_add(cur[3], (d * esz, d * esz))))
        return self.store(ref["id"], ref, {"k": "Int", "v": 1, "t": "int"}, env, "+=" if d == 1 else "-=")

    def seen_in_test(self, c, env):
        """remember which documented length parameters a branch condition on this path has mentioned"""
        if self.ext_params and isinstance(c, dict):
            for n in walk(c):
                if n.get("k") == "Ref" and n.get("rk") == "param" and n.get("id") in self.ext_params:
                    env = env.set(("#seen", n["id"]), (1, 1))
        return env

    def is_param_minus_const(self, x):
        """(parameter id, name, k) if x is `P - k`, P a size_t parameter with a documented extent role, k a positive constant"""
        while isinstance(x, dict) and (x.get("k") == "Paren" or (x.get("k") == "Cast" and not x.get("p") and
                                       self.ty.urange(x.get("t") or "") == (1 << 64) - 1)):
            x = x["e"]
        if not (isinstance(x, dict) and x.get("k") == "Bin" and x.get("op") == "-"):
            return None
        a = x["x"]
        while isinstance(a, dict) and a.get("k") == "Paren":
            a = a["e"]
        kc = int_val(x["y"])
        if not (isinstance(a, dict) and a.get("k") == "Ref" and a.get("rk") == "param" and kc is not None and 0 < kc < (1 << 31)):
            return None
        if a.get("id") not in self.ext_params or a.get("id") in self.untracked:
            return None
        if self.ty.canon(a.get("t") or "") not in ("size_t", "unsigned long"):
            return None
        return a["id"], a.get("n"), kc

    def wrap_rewrite(self, e, P, kc):
        """e with every `P - kc` replaced by `P + (2^64 - kc)`: the machine value in the case P < kc"""
        if isinstance(e, list):
            return [self.wrap_rewrite(x, P, kc) for x in e]
        if not isinstance(e, dict):
            return e
        m = self.is_param_minus_const(e) if e.get("k") == "Bin" else None
        if m is not None and m[0] == P and m[2] == kc:
            x = e
            return dict(x, op="+", y={"k": "Int", "v": str((1 << 64) - kc), "t": x.get("t")})
        return {k_: (self.wrap_rewrite(v, P, kc) if isinstance(v, (dict, list)) else v) for k_, v in e.items()}

    def fresh_param(self, P, env):
        """no test on the path mentioned P, no interval was learnt for it, every fact about it is its entry equality"""
        if env.get(("#seen", P)) is not None or env.get(P) not in (None, TOP, (0, None)):
            return False
        ghost = 0
        for terms, c in env.facts:
            if P in dict(terms):
                if set(dict(terms)) == {P, ("e", P)} and c == 0:
                    ghost += 1
                else:
                    return False
        return ghost == 2

    def wrap_cases_arg(self, e, env, line):
        """the same two cases for a call argument that is `P - k` itself (`f(in, in_len - 8)` before in_len is tested)"""
        for c in walk(e):
            if c.get("k") != "Call" or re.search(r"Is[A-Z]|^utilAssert$", c.get("callee") or "Is_"):
                continue        # validity predicates (memIsValid, ASSERT conditions) touch nothing
            for a in c.get("a") or ():
                m = self.is_param_minus_const(a)
                if m is not None and self.fresh_param(m[0], env):
                    P, pn, kc = m
                    self.wrap_sites.add((line, pn, kc))
                    wenv = env.set(P, (0, kc - 1)).set(("#wrapP",), (P, kc)).set(("#wrap",), (line, line))
                    return [(env.set(P, (kc, None)), lambda x: x), (wenv, lambda x: x)]
        return None

    def wrap_cases(self, e, target, env, line):
        """[(environment before, fix-up after)] for the statement `x = P - k` (target: the declared variable, or None
        for an assignment statement), where P is a length parameter whose extent the header documents, k a positive
        constant, and nothing on the path so far has compared P with anything: P < k is then a case of its own, in
        which the machine value of x is P + 2^64 - k.  Any other statement: one case, unchanged."""
        one = [(env, lambda x: x)]
        if not self.sym_ext or env.get(("#wrap",)) is not None or self.f.static or "err_t" not in str(self.f.ret):
            return one          # the err_t functions of the API validate their lengths themselves: every value is admissible
        r = self._wrap_cases_assign(e, target, env, line)
        if r is not None:
            return r
        return self.wrap_cases_arg(e, env, line) or one

    def _wrap_cases_assign(self, e, target, env, line):
        one = None
        x = e
        while isinstance(x, dict) and x.get("k") == "Paren":
            x = x["e"]
        if target is None:
            if not (isinstance(x, dict) and x.get("k") == "Bin" and x.get("op") == "="):
                return one
            target, x = strip(x["x"]), x["y"]
            if not (isinstance(target, dict) and target.get("k") == "Ref" and self.trackable(target)):
                return one
        if target.get("p") or self.ty.canon(target.get("t") or "") not in ("size_t", "unsigned long"):
            return one
        while isinstance(x, dict) and (x.get("k") == "Paren" or (x.get("k") == "Cast" and not x.get("p") and
                                       self.ty.urange(x.get("t") or "") == (1 << 64) - 1)):
            x = x["e"]
        if not (isinstance(x, dict) and x.get("k") == "Bin" and x.get("op") == "-"):
            return one
        a, b = x["x"], x["y"]
        while isinstance(a, dict) and a.get("k") == "Paren":
            a = a["e"]
        kc = int_val(b)
        if not (isinstance(a, dict) and a.get("k") == "Ref" and a.get("rk") == "param" and kc is not None and 0 < kc < (1 << 31)):
            return one
        P = a.get("id")
        if P not in self.ext_params or P in self.untracked or P == target.get("id"):
            return one
        if self.ty.canon(a.get("t") or "") not in ("size_t", "unsigned long"):
            return one
        # fresh: no test on the path mentioned P, no interval was learnt for it, every fact about it is its entry equality
        if env.get(("#seen", P)) is not None or env.get(P) not in (None, TOP, (0, None)):
            return one
        ghost = 0
        for terms, c in env.facts:
            if P in dict(terms):
                if set(dict(terms)) == {P, ("e", P)} and c == 0:
                    ghost += 1
                else:
                    return one
        if ghost != 2:
            return one
        W = (1 << 64) - kc
        tid = target["id"]

        def wrapped(env2):
            env2 = env2.kill(tid).set(tid, (W, W + kc - 1)).set(("d", tid), None)
            env2 = env2.add_fact({tid: 1, P: -1}, W).add_fact({tid: -1, P: 1}, -W)
            return env2.set(("#wrap",), (line, line))
        self.wrap_sites.add((line, a.get("n"), kc))
        return [(env.set(P, (kc, None)), lambda x: x), (env.set(P, (0, kc - 1)), wrapped)]

    def eval_split(self, e, env):
        """environments after an expression statement; `x = c ? a : b` is evaluated once per arm under the arm's
        condition, so that what the arms establish is not merged"""
        x = e
        while isinstance(x, dict) and x.get("k") == "Paren":
            x = x["e"]
        if isinstance(x, dict) and x.get("k") == "Bin" and x.get("op") == "=":
            r = x["y"]
            while isinstance(r, dict) and r.get("k") in ("Paren", "Cast") and not r.get("p"):
                r = r["e"]
            if isinstance(r, dict) and r.get("k") == "Cond" and not any(n.get("k") == "Call" for n in walk(r["c"])):
                outs = []
                for pol, arm in ((True, r["x"]), (False, r["y"])):
                    e1 = self.assume(r["c"], pol, env)
                    if e1 is not None:
                        outs.append(self.effects(dict(x, y=arm), e1))
                if outs:
                    return outs
        return [self.effects(e, env)]

    def call_effects(self, e, env):
        """a call that receives the state pointer may change every field; a member of the family leaves the fields
        inside the family invariant (and must be entered with them inside it: recorded like an exit)"""
        if not (self.state_ids or self.other_ptrs):
            return env
        whole, single, groups = False, [], set()
        proto = PROTO_OF(e.get("callee")) if PROTO_OF is not None else None
        for ai, a in enumerate(e["a"]):
            if proto is not None and ai < len(proto.params) and proto.params[ai].get("pc"):
                continue           # pointer to const: the callee does not write through it
            x = strip(a)
            while isinstance(x, dict) and x.get("k") == "Paren":
                x = strip(x["e"])
            if not isinstance(x, dict):
                continue
            if x.get("k") == "Ref" and x.get("id") in self.state_ids:
                whole = True
            elif x.get("k") == "Ref" and x.get("id") in self.other_ptrs:
                groups.add(self.other_ptrs[x["id"]][0])
            elif x.get("k") == "Un" and x.get("op") == "&":
                fk = self.fkey(x["e"])
                if fk is not None:
                    single.append(fk)
        for fk in single:
            env = env.kill(fk).set(fk, None)
        for k in [k for k in env.m if isinstance(k, tuple) and k[0] == "g" and k[1] in groups]:
            env = env.kill(k).set(k, None)
        if not whole:
            return env
        post = self.callee_post.get(e.get("callee"))
        if post is not None:
            self.record_exit(env)
        for k in [k for k in env.m if isinstance(k, tuple) and k[0] == "f"]:
            env = env.kill(k).set(k, None)
        for t in list(env.facts):
            if any(isinstance(k, tuple) for k, _ in t[0]):
                env = Env(env.m, frozenset(f for f in env.facts if not any(isinstance(k, tuple) for k, _ in f[0])))
                break
        if post:
            for f_, v in post.items():
                if f_ == "#facts":
                    continue
                if v is not None and v != TOP:
                    env = env.set(("f", f_), v)
            for terms, c in post.get("#facts", ()):
                env = env.add_fact({("f", f_): cf for f_, cf in terms}, c)
        return env

    def record_exit(self, env):
        for cand in self.candidates:
            if self.cand_ok[cand]:
                terms, c = cand
                l = ({("f", f_): cf for f_, cf in terms}, 0)
                for f_, _ in terms:
                    self.ktype.setdefault(("f", f_), "size_t")
                ub = self.lin_eval(l, env)[1]
                if ub is None or ub > c:
                    self.cand_ok[cand] = False
        cur = {}
        for k, v in env.m.items():
            if isinstance(k, tuple) and k[0] == "f":
                cur[k[1]] = v
        if self.exit_fields is None:
            self.exit_fields = dict(cur)
        else:
            for f_ in list(self.exit_fields):
                v = cur.get(f_)
                if v is None:
                    del self.exit_fields[f_]
                else:
                    self.exit_fields[f_] = iv_hull(self.exit_fields[f_], v)

    def effects(self, e, env):
        """env after evaluating e (evaluation order: operands left to right, post-effects last)"""
        if not isinstance(e, dict):
            return env
        k = e.get("k")
        if k == "Bin" and e["op"] in ir.ASSIGN_OPS:
            env = self.effects(e["y"], env)
            l = strip(e["x"]) if e["x"].get("k") == "Cast" else e["x"]
            while isinstance(l, dict) and l.get("k") == "Paren":
                l = l["e"]
            if l.get("k") == "Ref":
                return self.assign(l, e["y"], env, e["op"])
            fk = self.fkey(l)
            if fk is not None:
                return self.store(fk, l, e["y"], env, e["op"])
            return self.effects(e["x"], env)
        if k == "Un" and e["op"] in ("pre++", "pre--", "post++", "post--"):
            l = e["e"]
            while isinstance(l, dict) and l.get("k") in ("Paren", "Cast"):
                l = l["e"]
            if l.get("k") == "Ref":
                return self.incdec(l, e["op"], env)
            fk = self.fkey(l)
            if fk is not None:
                one = {"k": "Int", "v": 1, "t": "int"}
                return self.store(fk, l, one, env, "+=" if "++" in e["op"] else "-=")
            return self.effects(e["e"], env)
        if k == "Call":
            for a in e["a"]:
                env = self.effects(a, env)
            if e.get("callee") == "utilAssert" and e["a"]:
                c = e["a"][0]
                r = self.assume(c, True, env)
                return r if r is not None else env
            return self.call_effects(e, env)
        if k == "Cond":
            env1 = self.effects(e["c"], env)
            a, b = self.effects(e["x"], env1), self.effects(e["y"], env1)
            if a is b or a.key() == b.key():
                return a
            return widen_join(a, b)
        for c in ir.kids(e):
            env = self.effects(c, env)
        return env

    # ---- conditions
    def assume(self, c, pol, env):
        """env after c evaluated to pol, effects of c included; None = infeasible"""
        if not isinstance(c, dict):
            return env
        k = c.get("k")
        if k in ("Paren",):
            return self.assume(c["e"], pol, env)
        if k == "Cast" and not c.get("p"):
            return self.assume(c["e"], pol, env)
        if k == "Un" and c["op"] == "!":
            return self.assume(c["e"], not pol, env)
        if k == "Bin" and c["op"] == "&&":
            if pol:
                e1 = self.assume(c["x"], True, env)
                return None if e1 is None else self.assume(c["y"], True, e1)
            a = self.assume(c["x"], False, env)
            e1 = self.assume(c["x"], True, env)
            b = None if e1 is None else self.assume(c["y"], False, e1)
            return b if a is None else a if b is None else widen_join(a, b)
        if k == "Bin" and c["op"] == "||":
            if not pol:
                e1 = self.assume(c["x"], False, env)
                return None if e1 is None else self.assume(c["y"], False, e1)
            a = self.assume(c["x"], True, env)
            e1 = self.assume(c["x"], False, env)
            b = None if e1 is None else self.assume(c["y"], True, e1)
            return b if a is None else a if b is None else widen_join(a, b)
        if k == "Bin" and c["op"] in CMP:
            return self.assume_cmp(c, pol, env)
        # truth of a scalar: x, x--, --x, x = e
        base, pre, post = self.operand(c)
        env1 = self.effects_list(pre, env)
        bkey = self.key_of(base) if base is not None else None
        if bkey is not None:
            v = self.ival(base, env1)
            if pol:
                if v == (0, 0):
                    return None
                if v[0] == 0:
                    v = (1, v[1])
                elif v[1] == 0:
                    v = (v[0], -1)
            else:
                if (v[0] is not None and v[0] > 0) or (v[1] is not None and v[1] < 0):
                    return None
                v = (0, 0)
            env1 = env1.set(bkey, v)
            return self.effects_list(post, env1)
        if base is not None:
            v = self.ival(base, env1)
            if pol and v == (0, 0):
                return None
            if not pol and ((v[0] is not None and v[0] > 0) or (v[1] is not None and v[1] < 0)):
                return None
            return self.effects_list(post, env1)
        return self.effects(c, env)

    def operand(self, e):
        """(variable or expression compared, effects before, effects after)"""
        x = e
        while isinstance(x, dict) and x.get("k") in ("Paren",) or (isinstance(x, dict) and x.get("k") == "Cast" and not x.get("p")):
            x = x["e"]
        if not isinstance(x, dict):
            return None, [], []
        if x.get("k") == "Un" and x["op"] in ("post++", "post--"):
            r = x["e"]
            while isinstance(r, dict) and r.get("k") in ("Paren", "Cast"):
                r = r["e"]
            if r.get("k") == "Ref":
                return r, [], [x]
        if x.get("k") == "Un" and x["op"] in ("pre++", "pre--"):
            r = x["e"]
            while isinstance(r, dict) and r.get("k") in ("Paren", "Cast"):
                r = r["e"]
            if r.get("k") == "Ref":
                return r, [x], []
        if x.get("k") == "Bin" and x["op"] in ir.ASSIGN_OPS:
            l = x["x"]
            while isinstance(l, dict) and l.get("k") in ("Paren", "Cast"):
                l = l["e"]
            if l.get("k") == "Ref" or self.fkey(l) is not None:
                return l, [x], []
        if x.get("k") == "Ref" or self.fkey(x) is not None:
            return x, [], []
        if not any(n.get("k") == "Call" or (n.get("k") == "Un" and n.get("op", "").endswith(("++", "--"))) or
                   (n.get("k") == "Bin" and n.get("op") in ir.ASSIGN_OPS) for n in walk(x)):
            return x, [], []       # no side effects
        return x, [x], []

    def effects_list(self, es, env):
        for e in es:
            env = self.effects(e, env)
        return env

    def assume_cmp(self, c, pol, env):
        op = c["op"]
        if not pol:
            op = {"<": ">=", "<=": ">", ">": "<=", ">=": "<", "==": "!=", "!=": "=="}[op]
        if strip(c["x"]).get("p") or strip(c["y"]).get("p"):
            return self.effects(c, env)
        lx, prex, postx = self.operand(c["x"])
        env1 = self.effects_list(prex, env)
        ly, prey, posty = self.operand(c["y"])
        # an operand with effects that is not a plain variable was evaluated by effects_list: its value is that of
        # the expression in the environment before
        a = self.ival(lx, env1 if (lx is not None and (lx.get("k") == "Ref" or self.fkey(lx) is not None)) else env)
        env2 = self.effects_list(prey, env1)
        b = self.ival(ly, env2 if (ly is not None and (ly.get("k") == "Ref" or self.fkey(ly) is not None)) else env1)
        ex, ey = c["x"], c["y"]
        if op in (">", ">="):
            op = "<" if op == ">" else "<="
            lx, ly, a, b, ex, ey = ly, lx, b, a, ey, ex
        na, nb = a, b
        if op == "<":
            na = iv_meet(a, (None, None if b[1] is None else b[1] - 1))
            nb = iv_meet(b, (None if a[0] is None else a[0] + 1, None))
        elif op == "<=":
            na = iv_meet(a, (None, b[1]))
            nb = iv_meet(b, (a[0], None))
        elif op == "==":
            na = nb = iv_meet(a, b)
        elif op == "!=":
            if a[0] is not None and a[0] == a[1] and b[0] is not None and b[0] == b[1] and a[0] == b[0]:
                return None
            if b[0] is not None and b[0] == b[1]:
                if a[0] == b[0]:
                    na = (a[0] + 1, a[1])
                elif a[1] == b[0]:
                    na = (a[0], a[1] - 1)
            if a[0] is not None and a[0] == a[1]:
                if b[0] == a[0]:
                    nb = (b[0] + 1, b[1])
                elif b[1] == a[0]:
                    nb = (b[0], b[1] - 1)
        if iv_empty(na) or iv_empty(nb):
            return None
        env3 = env2
        for l, v in ((lx, na), (ly, nb)):
            key = self.key_of(l) if l is not None else None
            if key is not None:
                env3 = env3.set(key, v)
        if not (prex or prey or postx or posty) and op in ("<", "<=", "=="):
            l1, l2 = self.lin_safe(ex, env2), self.lin_safe(ey, env2)
            if l1 is not None and l2 is not None and len(set(l1[0]) | set(l2[0])) >= 2:
                d = lin_add(l1, lin_scale(l2, -1))
                if d[0] and len(d[0]) <= 4:
                    env3 = env3.add_fact(d[0], -d[1] - (1 if op == "<" else 0))
                    if op == "==":
                        d2 = lin_scale(d, -1)
                        env3 = env3.add_fact(d2[0], -d2[1])
        return self.effects_list(postx + posty, env3)

    # ---- fixpoint, one state per node (join at merges, widening at loop heads, two narrowing sweeps)
    def step(self, node, env, check):
        """[(successor, env)] for one CFG node"""
        kind = node.kind
        if kind in ("entry", "nop"):
            return [(s, env) for _, s in node.succ]
        if kind == "eval":
            if check:
                self.check_expr(node.e, env, node.line)
            outs = []
            for env2 in self.eval_split(node.e, env):
                outs.extend((s, env2) for _, s in node.succ)
            return outs
        if kind == "decl":
            d = node.e
            if d.get("init") is not None:
                if check:
                    self.check_expr(d["init"], env, node.line)
                env2 = self.effects(d["init"], env)
                ref = {"k": "Ref", "id": d["id"], "n": d["n"], "t": d.get("t"), "p": d.get("p"), "rk": "local"}
                if d["init"].get("k") != "InitList":
                    env2 = self.assign(ref, d["init"], env2)
            else:
                env2 = env.set(d["id"], None)
            return [(s, env2) for _, s in node.succ]
        if kind == "cond":
            if check:
                self.check_expr(node.e, env, node.line)
            outs = []
            for lab, s in node.succ:
                e2 = self.assume(node.e, bool(lab), env)
                if e2 is not None:
                    outs.append((s, e2))
            return outs
        if kind == "switch":
            if check:
                self.check_expr(node.e, env, node.line)
            env1 = self.effects(node.e, env)
            v = self.ival(node.e, env)
            sw = strip(node.e)
            cases = [l[1] for l, _ in node.succ if l != "default"]
            outs = []
            for lab, s in node.succ:
                e2 = env1
                if lab != "default":
                    cv = lab[1]
                    if isinstance(cv, int):
                        if (v[0] is not None and cv < v[0]) or (v[1] is not None and cv > v[1]):
                            continue
                        if sw.get("k") == "Ref" and self.trackable(sw) and not sw.get("p"):
                            e2 = env1.set(sw["id"], (cv, cv))
                elif v[0] is not None and v[0] == v[1] and v[0] in cases:
                    continue
                outs.append((s, e2))
            return outs
        if kind == "return":
            if check and node.e is not None:
                self.check_expr(node.e, env, node.line)
            if check and self.state_ids:
                self.record_exit(env)
            return [(s, env) for _, s in node.succ]
        return []

    def entry_env(self):
        m = {p["id"]: ("p", "param:%s" % p["n"], self.param_arr[p["id"]], (0, 0))
             for p in self.f.params if p["id"] in self.param_arr and p["id"] not in self.untracked}
        for f_, v in self.entry_fields.items():
            if v is not None and v != TOP:
                m[("f", f_)] = v
        env = Env(m)
        for terms, c in self.entry_facts:
            env = env.add_fact({("f", f_): cf for f_, cf in terms}, c)
        for k in sorted(getattr(self, "ext_params", ()), key=repr):
            if k not in self.untracked:
                env = env.add_fact({k: 1, ("e", k): -1}, 0).add_fact({k: -1, ("e", k): 1}, 0)
        return env

    def loop_heads(self, cfg):
        """(targets of DFS back edges, reverse postorder)"""
        heads, color, order = set(), {}, []

        stack = [(cfg.entry, iter(cfg.entry.succ))]
        color[cfg.entry.id] = 1
        while stack:
            n, it = stack[-1]
            for _, s in it:
                c = color.get(s.id)
                if c is None:
                    color[s.id] = 1
                    stack.append((s, iter(s.succ)))
                    break
                if c == 1:
                    heads.add(s.id)
            else:
                color[n.id] = 2
                order.append(n.id)
                stack.pop()
        order.reverse()
        return heads, order

    def run_classic(self):
        cfg = self.f.cfg()
        nodes = cfg.nodes
        heads, order = self.loop_heads(cfg)
        rank = {nid: i for i, nid in enumerate(order)}
        preds = {}
        for n in nodes:
            for _, s in n.succ:
                preds.setdefault(s.id, []).append(n.id)
        IN, OUT, visits = {cfg.entry.id: self.entry_env()}, {}, {}

        def incoming(nid):
            acc = None
            for p in preds.get(nid, []):
                for s, e in OUT.get(p, []):
                    if s.id == nid:
                        acc = e if acc is None else join(acc, e)
            return acc

        import heapq
        work = [(0, cfg.entry.id)]
        queued = {cfg.entry.id}
        steps = 0
        while work:
            _, nid = heapq.heappop(work)
            queued.discard(nid)
            steps += 1
            if steps > 50000:
                self.truncated = True
                break
            if nid != cfg.entry.id:
                new = incoming(nid)
                if new is None:
                    continue
                old = IN.get(nid)
                if old is not None:
                    if contains(old, new):
                        if nid in OUT:
                            continue
                    else:
                        visits[nid] = visits.get(nid, 0) + 1
                        new = widen(old, join(old, new)) if (nid in heads and visits[nid] > 2) else join(old, new)
                IN[nid] = new
            OUT[nid] = self.step(nodes[nid], IN[nid], False)
            for s, _ in OUT[nid]:
                if s.id not in queued and s.id in rank:
                    queued.add(s.id)
                    heapq.heappush(work, (rank[s.id], s.id))
        # narrowing: recompute without widening, in reverse postorder
        for _ in range(2):
            for nid in order:
                if nid != cfg.entry.id:
                    new = incoming(nid)
                    if new is None:
                        IN.pop(nid, None)
                        OUT[nid] = []
                        continue
                    IN[nid] = new
                OUT[nid] = self.step(nodes[nid], IN[nid], False)
        self.acc, self.detail = {}, {}
        for nid in order:
            if nid in IN:
                self.step(nodes[nid], IN[nid], True)
        return self

    # ---- fixpoint, path states kept apart
    def run(self):
        cfg = self.f.cfg()
        heads, order_ = self.loop_heads(cfg)
        rank_ = {nid: i for i, nid in enumerate(order_)}
        env0 = self.entry_env()
        at = {}            # node id -> {key: env}
        summary = {}       # node id -> widened env
        work = [(cfg.entry.id, env0)]
        at[cfg.entry.id] = {env0.key(): env0}
        steps = 0
        nodes = cfg.nodes
        while work:
            nid, env = work.pop()
            node = nodes[nid]
            steps += 1
            if steps > 200000:
                self.truncated = True
                break
            outs = []
            kind = node.kind
            if kind in ("entry", "nop"):
                outs = [(s, env) for _, s in node.succ]
            elif kind == "eval":
                outs = []
                for env1, fin in self.wrap_cases(node.e, None, env, node.line):
                    self.check_expr(node.e, env1, node.line)
                    for env2 in self.eval_split(node.e, env1):
                        outs.extend((s, fin(env2)) for _, s in node.succ)
            elif kind == "decl":
                d = node.e
                outs = []
                if d.get("init") is not None:
                    ref = {"k": "Ref", "id": d["id"], "n": d["n"], "t": d.get("t"), "p": d.get("p"), "rk": "local"}
                    for env1, fin in self.wrap_cases(d["init"], ref, env, node.line):
                        self.check_expr(d["init"], env1, node.line)
                        env2 = self.effects(d["init"], env1)
                        if d["init"].get("k") != "InitList":
                            env2 = self.assign(ref, d["init"], env2)
                        outs.extend((s, fin(env2)) for _, s in node.succ)
                else:
                    env2 = env.set(d["id"], None)
                    outs = [(s, env2) for _, s in node.succ]
            elif kind == "cond":
                env = self.seen_in_test(node.e, env)
                self.check_expr(node.e, env, node.line)
                for lab, s in node.succ:
                    e2 = self.assume(node.e, bool(lab), env)
                    if e2 is not None:
                        outs.append((s, e2))
            elif kind == "switch":
                env = self.seen_in_test(node.e, env)
                self.check_expr(node.e, env, node.line)
                env1 = self.effects(node.e, env)
                v = self.ival(node.e, env)
                sw = strip(node.e)
                cases = [l[1] for l, _ in node.succ if l != "default"]
                for lab, s in node.succ:
                    e2 = env1
                    if lab != "default":
                        cv = lab[1]
                        if isinstance(cv, int):
                            if (v[0] is not None and cv < v[0]) or (v[1] is not None and cv > v[1]):
                                continue
                            if sw.get("k") == "Ref" and self.trackable(sw) and not sw.get("p"):
                                e2 = env1.set(sw["id"], (cv, cv))
                    else:
                        if v[0] is not None and v[0] == v[1] and v[0] in cases:
                            continue
                    outs.append((s, e2))
            elif kind == "return":
                if node.e is not None:
                    self.check_expr(node.e, env, node.line)
                if self.state_ids:
                    self.record_exit(env)
                outs = [(s, env) for _, s in node.succ]
            for s, e2 in outs:
                sid = s.id
                if sid in heads and rank_.get(nid, 0) >= rank_.get(sid, 0) and e2.get(("#be",)) is None:
                    e2 = e2.set(("#be",), (1, 1))        # went round a loop
                if sid in summary:
                    if contains(summary[sid], e2):
                        continue
                    w = join(summary[sid], e2)
                    if sid in heads:
                        w = widen(summary[sid], w)
                    summary[sid] = w
                    work.append((sid, w))
                    continue
                d = at.setdefault(sid, {})
                kx = e2.key()
                if kx in d:
                    continue
                if len(d) >= self.cap:
                    # too many path states here: continue with one widened state
                    w = e2
                    for o in d.values():
                        w = join(w, o)
                    summary[sid] = w
                    work.append((sid, w))
                    continue
                d[kx] = e2
                work.append((sid, e2))
        return self


def _scales(l, terms):
    """positive integers k for which k * (fact) cancels a variable of l (k = 1 first)"""
    ks = []
    for key, cf in terms:
        lc = l[0].get(key)
        if lc is not None and cf != 0 and lc % cf == 0 and lc // cf > 0:
            k = lc // cf
            if k not in ks:
                ks.append(k)
    return sorted(ks)[:2]


def lin_add(a, b):
    m = dict(a[0])
    for k, c in b[0].items():
        m[k] = m.get(k, 0) + c
        if m[k] == 0:
            del m[k]
    return (m, a[1] + b[1])


def lin_scale(a, k):
    return ({v: c * k for v, c in a[0].items()} if k else {}, a[1] * k)


def join(a, b):
    """hull (no widening)"""
    m = {k: v for k, v in b.m.items() if isinstance(k, tuple) and k[0] == "d"}
    for k, x in a.m.items():
        if isinstance(k, tuple) and k[0] == "d":
            m[k] = x
            continue
        y = b.m.get(k)
        if y is None:
            continue
        if x[0] == "p" or y[0] == "p":
            if x[0] == "p" and y[0] == "p" and x[1:3] == y[1:3]:
                m[k] = ("p", x[1], x[2], iv_hull(x[3], y[3]))
            continue
        h = iv_hull(x, y)
        if h != TOP:
            m[k] = h
    return Env(m, join_facts(a.facts, b.facts))


widen_join = join
