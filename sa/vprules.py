"""Rule instances built on the VP engine: S2 modular operands, S4 sampling modulus,
S1 point validation, private-key range, S3 acceptance, must-call validator sets."""
import re
from . import ir, vp
from .ir import strip, show, walk, is_int, int_val, AnalysisBroken


# --------------------------------------------------------------------------
# callee preconditions of the form wwCmp(a, mod, n) < 0 read from the callee's own ASSERTs

def modular_preconditions(prog):
    """callee -> list of (operand param index, modulus param index)"""
    out = {}
    for f in prog.all_funcs():
        if not f.relfile.startswith("src/math/") or f.body is None:
            continue
        pidx = {p["id"]: i for i, p in enumerate(f.params)}
        pres = []
        body = f.body.get("b", [])
        for s in body:
            if not (s.get("k") == "Call" and s.get("callee") == "utilAssert"):
                continue
            for n in walk(s["a"][0]):
                if n.get("k") == "Bin" and n["op"] == "<" and ir.is_call(n["x"], "wwCmp") and is_int(n["y"], 0):
                    a = strip(strip(n["x"])["a"][0])
                    m = strip(strip(n["x"])["a"][1])
                    if a.get("k") == "Ref" and a["id"] in pidx and m.get("k") == "Ref" and m["id"] in pidx:
                        pres.append((pidx[a["id"]], pidx[m["id"]]))
        if pres:
            name = f.name
            # SAFE/FAST editions share the unsuffixed public name
            for suf in ("_safe", "_fast"):
                if name.endswith(suf):
                    name = name[:-len(suf)]
            out.setdefault(name, sorted(set(pres)))
            out.setdefault(f.name, sorted(set(pres)))
    return out


def check_modular_operands(prog, res, rule, files, pre=None):
    """S2: every call in `files` to a routine that asserts operand < modulus has lt(operand, modulus) on every path"""
    pre = pre or modular_preconditions(prog)
    if len(pre) < 8:
        raise AnalysisBroken("only %d modular routines with an operand<modulus assertion found" % len(pre))
    nsites = 0
    for f in prog.all_funcs():
        if f.relfile not in files or f.body is None:
            continue
        if re.search(r"ParamsGen$|ParamsVal$", f.name):
            continue     # parameter generation / validation: not a user of keys and signatures
        sites = {}   # (line, callee, operand idx) -> list of bool

        def on_call(c, facts, node, cl):
            cn = c.get("callee")
            if cn not in pre or not cn.startswith("zz"):
                return
            names = [cl.canon(a) for a in c["a"]]
            for oi, mi in pre[cn]:
                if oi >= len(names) or mi >= len(names):
                    continue
                ok = ("lt", names[oi], names[mi]) in facts
                # protocol-state scalars (sampled / range-checked by the step that stored them) and the
                # function's own parameters (precondition handed to the caller) are not this call site's duty
                rr = ir.root_ref(c["a"][oi])
                if not ok and re.search(r"->(u|d)$", names[oi]):
                    ok = True
                if not ok and rr is not None and rr.get("rk") == "param" and f.static:
                    continue
                # operands that are the modulus' own field elements (curve coefficients, base point) are reduced by construction
                if not ok and re.search(r"->(A|B|base|unity)\b", names[oi]):
                    ok = True
                sites.setdefault((c["l"], cn, oi, names[oi], names[mi]), []).append(ok)

        vp.run_facts(f, prog, on_call=on_call, track_generic=False)
        for (line, cn, oi, x, m), oks in sorted(sites.items()):
            nsites += 1
            if all(oks):
                res.proved(rule, function=f.name, file=f.relfile, line=line,
                           construct="%s operand %d (%s) < %s" % (cn, oi, x, m),
                           detail="reduced on all %d path state(s): range test, reducing producer or sampled modulo %s" % (len(oks), m))
            else:
                res.violation(rule, function=f.name, file=f.relfile, line=line,
                              construct="%s operand `%s` not known to be < %s" % (cn, x.split("+")[-1] if False else _short(x), _short(m)),
                              detail="%s asserts operand %d < modulus, but on %d of %d path state(s) reaching this call `%s` was "
                                     "loaded/computed without a range test or reduction modulo `%s`" %
                                     (cn, oi, oks.count(False), len(oks), x, m))
    return nsites


def _short(s):
    return s if len(s) < 40 else "..." + s[-36:]


# --------------------------------------------------------------------------
# S4 sampling modulus

def check_sampling(prog, res, rule, files):
    n = 0
    for f in prog.all_funcs():
        if f.relfile not in files or f.body is None:
            continue
        canon = vp.Canon(f)
        for c in ir.calls(f.body):
            if c.get("callee") not in ("zzRandNZMod", "zzRandMod"):
                continue
            n += 1
            m = canon(c["a"][1])
            dest = canon(c["a"][0])
            if re.search(r"(^|->|\.)order$", m):
                res.proved(rule, function=f.name, file=f.relfile, line=c["l"], construct="%s(%s, modulus)" % (c["callee"], _short(dest)),
                           detail="sampled modulo the group order `%s`" % m)
            else:
                res.violation(rule, function=f.name, file=f.relfile, line=c["l"],
                              construct="%s modulus is not the group order" % c["callee"],
                              detail="the secret scalar `%s` is sampled modulo `%s`; private keys and nonces must lie in [1, q-1] "
                                     "(q = the `order` member of the curve)" % (_short(dest), m))
    return n


# --------------------------------------------------------------------------
# private-key range: wwFrom(d, <privkey param>, ..) must be followed by nz(d) and lt(d, order) before d is used

def check_privkey_range(prog, res, rule, files, keyparam=re.compile(r"privkey|^da$|^db$"), exempt=(), accept=None):
    n = 0
    for f in prog.all_funcs():
        if f.relfile not in files or f.body is None:
            continue
        kp = {p["id"]: p["n"] for p in f.params if keyparam.search(p["n"]) and p.get("p")}
        if not kp:
            continue
        loads = {}    # canon name of d -> line
        for c in ir.calls(f.body):
            if c.get("callee") in ("wwFrom", "u64From", "u32From", "u16From") and len(c["a"]) >= 2:
                r = ir.root_ref(c["a"][1])
                if r is not None and r.get("id") in kp:
                    loads[vp.Canon(f)(c["a"][0])] = (c["l"], kp[r["id"]])
        if not loads:
            continue
        uses = {}

        def on_call(c, facts, node, cl):
            cn = c.get("callee")
            if cn in ("wwFrom", "u64From", "u32From", "u16From", "wwIsZero", "wwCmp", "utilAssert", "memIsValid", "wwTo",
                      "wwSetZero", "memSetZero", "wwGetBits") or cn is None:
                return
            names = [cl.canon(a) for a in c["a"]]
            for d, (line, pn) in loads.items():
                if d in names and ("ext", d) in facts:
                    i = names.index(d)
                    proto = prog.proto(cn, f.unit)
                    # being overwritten (output position 0 only) is not a use
                    if proto is not None and i < len(proto.params) and not proto.params[i].get("pc") and i == 0 and names.count(d) == 1:
                        continue
                    def is_order(m):
                        return m.endswith("order") or any(y[0] == "from" and y[1] == m and re.search(r"->q$", y[2]) for y in facts)
                    need_nz = not pn.startswith("id_")   # an identity key e = s1 may be 0; only e < q is required
                    ok = (("nz", d) in facts or not need_nz) and any(x[0] == "lt" and x[1] == d and is_order(x[2]) for x in facts)
                    if not ok and accept is not None:
                        ok = accept(facts, d)
                    uses.setdefault((d, pn, line), []).append((ok, c["l"], cn))

        vp.run_facts(f, prog, on_call=on_call, track_generic=False)
        for (d, pn, line), us in sorted(uses.items()):
            n += 1
            bad = [u for u in us if not u[0]]
            if (f.name, pn) in exempt:
                continue
            if not bad:
                res.proved(rule, function=f.name, file=f.relfile, line=line, construct="range of %s" % pn,
                           detail="0 < d < order is tested before each of the %d use(s) of the loaded key on all paths" % len(us))
            else:
                res.violation(rule, function=f.name, file=f.relfile, line=bad[0][1],
                              construct="%s used without the test 0 < d < order" % pn,
                              detail="the private key loaded from `%s` at line %d reaches %s (line %d) on a path without "
                                     "`wwIsZero(d) || wwCmp(d, order) >= 0 -> error`" % (pn, line, bad[0][2], bad[0][1]))
    return n


# --------------------------------------------------------------------------
# S1 external points

EC_USE = re.compile(r"^(ecMulA|ecAddMulA|ecpSubAA|ecpAddAA|ecpNegA|ec2AddAA|ec2SubAA|ec2NegA|ecHasOrderA|ecpDblA|ecDblAddA)$")


def check_points(prog, res, rule, files, levels, alternatives=None, default="full"):
    """every point buffer loaded by qrFrom must carry field(X), field(Y) [, oncurve] when it enters EC arithmetic.
       levels: (function, point canon) -> 'field' (public scalars only) with a reason"""
    alternatives = alternatives or {}
    n = 0
    for f in prog.all_funcs():
        if f.relfile not in files or f.body is None:
            continue
        if not any(c.get("callee") == "qrFrom" for c in ir.calls(f.body)):
            continue
        uses = {}

        def on_call(c, facts, node, cl):
            cn = c.get("callee")
            if cn is None or not EC_USE.match(cn):
                return
            names = [cl.canon(a) for a in c["a"]]
            proto = prog.proto(cn, f.unit)
            for i, nm in enumerate(names):
                if ("ext", nm) not in facts:
                    continue
                # an ext fact set by wwFrom on a scalar is irrelevant: only buffers that went through qrFrom count
                if not any(x[0] in ("T", "F") and x[1].startswith("qrFrom(%s," % nm) for x in facts):
                    continue
                if i == 0 and names.count(nm) == 1 and cn != "ecHasOrderA":
                    continue   # pure output
                fx = ("field", nm) in facts
                fy = any(x[0] == "field" and re.match(re.escape(nm) + r"\+", x[1]) for x in facts)
                oc = ("oncurve", nm) in facts
                alt = alternatives.get(f.name)
                altok = bool(alt) and any(x[0] == "T" and x[1].startswith(alt) for x in facts)
                uses.setdefault(nm, []).append((fx, fy, oc, altok, c["l"], cn))

        vp.run_facts(f, prog, on_call=on_call, track_generic=False)
        short = {}
        for nm, us in sorted(uses.items()):
            n += 1
            level = levels.get((f.name, _ptname(nm)), (default, ""))[0]
            bad = []
            for fx, fy, oc, altok, line, cn in us:
                if level == "field":
                    ok = fx and fy
                else:
                    ok = fx and ((fy and oc) or altok)
                if not ok:
                    bad.append((fx, fy, oc, line, cn))
            pn = _ptname(nm)
            if not bad:
                res.proved(rule, function=f.name, file=f.relfile, line=us[0][4], construct="point %s [%s]" % (pn, level),
                           detail="%s before each of %d use(s) in EC arithmetic on all paths%s" %
                                  ("coordinates reduced and on-curve test accepted" if level == "full" else "coordinates reduced",
                                   len(us), (" (" + levels[(f.name, pn)][1] + ")") if (f.name, pn) in levels else ""))
            else:
                fx, fy, oc, line, cn = bad[0]
                missing = [t for t, v in (("qrFrom(x)", fx), ("qrFrom(y)", fy), ("on-curve test", oc)) if not v]
                res.violation(rule, function=f.name, file=f.relfile, line=line,
                              construct="point %s enters %s without %s" % (pn, cn, " / ".join(missing)),
                              detail="the point `%s` decoded from caller-supplied octets is used by %s at line %d on a path where "
                                     "%s was not accepted" % (pn, cn, line, ", ".join(missing)))
    return n


def _ptname(canon):
    """short stable name of a carved buffer: its offset expression tail"""
    return canon if len(canon) < 60 else canon[-60:]


# --------------------------------------------------------------------------
# must-call: every success return passes each required accepted fact

def check_must(prog, res, rule, fname, required, success="zero", file_hint=None, forbid_unknown=False, post_nonzero=None):
    """required: list of (label, predicate(facts) -> bool).  Every return whose class is success must satisfy all."""
    f = prog.funcs.get(fname)
    if f is None or f.body is None:
        raise AnalysisBroken("validator anchor %s vanished" % fname)
    rets = []

    def on_return(e, rc, facts, node, cl, pend, env):
        rets.append((rc, facts, node.line, e, pend, cl))

    vp.run_facts(f, prog, on_return=on_return, track_generic=True, post_nonzero=post_nonzero)
    nsucc = 0
    missing = {}
    for rc, facts, line, e, pend, cl in rets:
        is_succ = False
        if success == "zero" and rc == "zero":
            is_succ = True
        elif success == "nonzero" and rc == "nonzero":
            is_succ = True
        elif rc in ("unknown", "cond-call"):
            # `return f(..)` / `return code` with a pending call: success iff that call accepts -> add its acceptance
            r = strip(e) if e is not None else None
            extra = set()
            if r is not None and r.get("k") == "Call":
                cs = cl.callstr(r)
                extra |= {("ok", cs), ("T", cs)}
                is_succ = True
            elif r is not None and r.get("k") == "Ref" and r["id"] in pend:
                cs, t = pend[r["id"]]
                if cs.startswith("?T:"):
                    extra |= {("T", cs[3:])}
                else:
                    extra |= {("ok", cs), ("T", cs)}
                is_succ = True
            elif r is not None and r.get("k") == "Cond" and ir.is_call(r["c"]):
                extra |= {("T", cl.callstr(strip(r["c"])))}
                is_succ = True
            elif r is not None and r.get("k") == "Bin" and r["op"] in ("&&",):
                # return a && b: both accepted on success
                for part in _conj(r):
                    if ir.is_call(part):
                        extra.add(("T", cl.callstr(strip(part))))
                    elif strip(part).get("k") == "Bin" and ir.is_call(strip(part)["x"]):
                        pp = strip(part)
                        extra.add(("T", "%s%s%s" % (cl.callstr(strip(pp["x"])), pp["op"], cl.canon(pp["y"]))))
                        if pp["op"] == "==":
                            extra.add(("T", "%s==%s" % (cl.callstr(strip(pp["x"])), cl.canon(pp["y"]))))
                is_succ = True
            elif forbid_unknown:
                missing.setdefault("return value not classifiable", []).append(line)
            else:
                is_succ = True     # value unknown: it may be the success value
            facts = frozenset(set(facts) | extra)
        if not is_succ:
            continue
        nsucc += 1
        for label, pred in required:
            if not pred(facts):
                missing.setdefault(label, []).append(line)
    if nsucc == 0:
        raise AnalysisBroken("%s: no success return found" % fname)
    for label, pred in required:
        if label in missing:
            res.violation(rule, function=fname, file=f.relfile, line=missing[label][0],
                          construct="success without %s" % label,
                          detail="a success return (line %s) is reachable on a path where `%s` was not accepted" %
                                 (sorted(set(missing[label])), label))
        else:
            res.proved(rule, function=fname, file=f.relfile, line=f.line, construct="success requires %s" % label,
                       detail="accepted on the path to each of %d success return state(s)" % nsucc)
    if "return value not classifiable" in missing:
        res.undecided(rule, function=fname, file=f.relfile, line=missing["return value not classifiable"][0],
                      construct="unclassified return", detail="return value is neither constant nor a direct call")
    return nsucc


def _conj(e):
    e = strip(e)
    if e.get("k") == "Bin" and e["op"] == "&&":
        return _conj(e["x"]) + _conj(e["y"])
    return [e]


def T(prefix):
    return lambda facts: any(x[0] == "T" and x[1].startswith(prefix) for x in facts)


def F(prefix):
    return lambda facts: any(x[0] == "F" and x[1].startswith(prefix) for x in facts)


def OK(prefix):
    return lambda facts: any(x[0] in ("ok", "T") and x[1].startswith(prefix) for x in facts)


def FACT(kind, pat):
    rx = re.compile(pat)
    return lambda facts: any(x[0] == kind and rx.search(":".join(str(y) for y in x[1:])) for x in facts)


def CMP(pol, pat):
    rx = re.compile(pat)
    return lambda facts: any(x[0] == "cmp" and x[1] == pol and rx.search(x[2]) for x in facts)


def ANY(*preds):
    return lambda facts: any(p(facts) for p in preds)
