"""C18: shared RNG / once / atomic primitives under every interleaving.
Lockset discipline on file-scope state of units that own a mutex, lock/unlock
pairing on all paths, stale-guard (check-then-act across critical sections),
once-protocol shape of mtCallOnce, atomic primitives are real atomics."""
from . import ir
from .ir import AnalysisBroken, strip, show, walk
from .report import Result, COMMON_ASSUMPTIONS

LOCK, UNLOCK = "mtMtxLock", "mtMtxUnlock"
ATOMICS = {"mtAtomicCmpSwap", "mtAtomicIncr", "mtAtomicDecr"}


def unit_model(prog, unit):
    """file-scope facts of one unit"""
    d = prog.units[unit]
    globs = {g["id"]: g for g in d["globals"] if g["file"] == unit and not g.get("extern_decl")}
    mutexes = {i for i, g in globs.items() if "mt_mtx_t" in g["t"]}
    funcs = [f for f in prog.by_unit[unit] if f.file == unit]
    triggers, initialisers = set(), {}
    for f in funcs:
        for c in ir.calls(f.body):
            if c.get("callee") == "mtCallOnce" and len(c["a"]) == 2:
                a0, a1 = strip(c["a"][0]), strip(c["a"][1])
                if a0.get("k") == "Un" and a0["op"] == "&" and strip(a0["e"]).get("k") == "Ref":
                    triggers.add(strip(a0["e"])["id"])
                    if a1.get("k") == "Ref" and a1.get("rk") == "func":
                        initialisers[a1["n"]] = strip(a0["e"])["id"]
    # functions registered as destructors (utilOnExit / atexit argument)
    destructors = set()
    for f in funcs:
        for c in ir.calls(f.body):
            if c.get("callee") in ("utilOnExit", "atexit"):
                a = strip(c["a"][0])
                if a.get("k") == "Ref" and a.get("rk") == "func":
                    destructors.add(a["n"])
    return globs, mutexes, funcs, triggers, initialisers, destructors


def global_accesses(e, globs):
    """(Ref, is_write, deref) for every mention of a unit global in expression e, skipping &g passed to mt* functions"""
    out = []

    def rec(n, write=False, deref=False, in_assert=False):
        if not isinstance(n, dict):
            return
        k = n.get("k")
        if k == "Ref":
            if n.get("id") in globs:
                out.append((n, write, deref, in_assert))
            return
        if k == "Bin" and n["op"] in ir.ASSIGN_OPS:
            rec(n["x"], True, deref, in_assert)
            if n["op"] != "=":
                rec(n["x"], False, deref, in_assert)
            rec(n["y"], False, False, in_assert)
            return
        if k == "Un" and n["op"] in ("pre++", "pre--", "post++", "post--"):
            rec(n["e"], True, deref, in_assert)
            return
        if k in ("Member", "Index") or (k == "Un" and n["op"] == "*"):
            sub = n["b"] if k in ("Member", "Index") else n["e"]
            is_deref = (k == "Member" and n.get("arrow")) or k == "Index" or k == "Un"
            rec(sub, False, is_deref or deref, in_assert)   # reading the pointer
            if k == "Index":
                rec(n["i"], False, False, in_assert)
            return
        if k == "Call":
            ia = in_assert or n.get("callee") == "utilAssert"
            for a in n["a"]:
                rec(a, False, False, ia)
            if n.get("fn"):
                rec(n["fn"], False, False, ia)
            return
        for c in ir.kids(n):
            rec(c, False, False, in_assert)
    rec(e)
    return out


class LockClient(ir.Client):
    """state: (held, epoch, guard_epoch, once_done)"""

    def __init__(self, func, model, prot, init_only, requires_lock, entry_held=False):
        self.func = func
        self.globs, self.mutexes, _, self.triggers, self.initialisers, _ = model
        self.prot = prot
        self.init_only = init_only
        self.requires_lock = requires_lock
        self.entry_held = entry_held
        self.viol = {}
        self.accesses = 0
        self.locks = 0
        self.touches_unlocked = False

    def init(self, func):
        return (1 if self.entry_held else 0, 0, -1, frozenset())

    def _v(self, rule, node, construct, detail):
        self.viol.setdefault((rule, construct, node.line), dict(rule=rule, line=node.line, construct=construct, detail=detail))

    def _mutex_arg(self, c):
        a = strip(c["a"][0]) if c["a"] else None
        r = ir.root_ref(a) if a else None
        return r is not None and r.get("id") in self.mutexes

    def eval(self, e, st, env, node):
        held, epoch, gep, once = st
        is_cond = node.kind == "cond"
        # calls in evaluation order (approximation: pre-order)
        for n in walk(e):
            if n.get("k") != "Call":
                continue
            cn = n.get("callee")
            if cn == LOCK and self._mutex_arg(n):
                self.locks += 1
                if held:
                    self._v("R18.2-pairing", node, "second mtMtxLock while held", "the mutex is locked again on a path where it is already held (self-deadlock)")
                held, epoch = 1, epoch + 1
            elif cn == UNLOCK and self._mutex_arg(n):
                if not held:
                    self._v("R18.2-pairing", node, "mtMtxUnlock while not held", "the mutex is unlocked on a path where it is not held")
                held = 0
            elif cn == "mtCallOnce":
                a0 = strip(n["a"][0])
                if a0.get("k") == "Un" and strip(a0["e"]).get("k") == "Ref":
                    once = once | {strip(a0["e"])["id"]}
            elif cn in self.requires_lock:
                self.accesses += 1
                if not held:
                    self.touches_unlocked = True
                    if not self.entry_held:
                        self._v("R18.1-lockset", node, "call %s without the mutex" % cn,
                                "%s reads the shared state and relies on its caller holding the mutex" % cn)
        for r, write, deref, in_assert in global_accesses(e, self.globs):
            gid = r["id"]
            if gid in self.prot:
                self.accesses += 1
                if not held:
                    self.touches_unlocked = True
                    self._v("R18.1-lockset", node, "%s %s without the mutex" % ("write of" if write else "read of", r["n"]),
                            "%s is shared between threads and is %s here while the unit's mutex is not held" %
                            (r["n"], "written" if write else "read"))
                else:
                    # gep: per shared variable, the critical section (epoch) in which it was last tested or written.
                    # Acting on a variable whose last test belongs to an earlier critical section is check-then-act;
                    # re-testing another variable does not refresh it.
                    g = dict(gep) if gep != -1 else {}
                    last = g.get(gid)
                    if (write or deref) and not is_cond and last is not None and last < epoch:
                        self._v("R18.6-stale-guard", node, "%s of %s after the mutex was released and re-acquired" %
                                ("write" if write else "dereference", r["n"]),
                                "this access relies on a test of %s made in an earlier critical section; "
                                "another thread may have changed it in between (check-then-act)" % r["n"])
                    if is_cond or write:
                        g[gid] = epoch
                        gep = tuple(sorted(g.items()))
            elif gid in self.init_only and not in_assert:
                trig = self.init_only[gid]
                self.accesses += 1
                if not write and not held and trig not in once:
                    self._v("R18.1-init-only", node, "read of %s without mtCallOnce" % r["n"],
                            "%s is written by the once-initialiser; reading it without a preceding mtCallOnce on the same "
                            "trigger (or the mutex) races with the initialiser" % r["n"])
                if write:
                    self._v("R18.1-init-only", node, "write of %s outside the initialiser" % r["n"],
                            "%s is meant to be written by the once-initialiser only" % r["n"])
        return (held, epoch, gep, once)

    def ret(self, e, st, env, node):
        held, epoch, gep, once = st
        if held and not self.entry_held:
            self._v("R18.2-pairing", node, "return with the mutex held", "return at line %d is reached with the mutex still locked" % node.line)
        return st


def check_unit(prog, unit, res):
    model = unit_model(prog, unit)
    globs, mutexes, funcs, triggers, initialisers, destructors = model
    rel = ir.relpath(unit)
    # which globals are written only inside initialisers -> init-only
    writers = {}
    for f in funcs:
        for n in walk(f.body):
            for r, w, d, ia in global_accesses(n, globs) if n.get("k") in ("Bin", "Un") and n is not None and False else []:
                pass
        for node in f.cfg().nodes:
            if node.e is None:
                continue
            for r, w, d, ia in global_accesses(node.e, globs):
                if w:
                    writers.setdefault(r["id"], set()).add(f.name)
    init_only = {}
    for gid, g in globs.items():
        if gid in mutexes or gid in triggers or g.get("const"):
            continue
        ws = writers.get(gid, set())
        if ws and ws <= set(initialisers):
            init_only[gid] = initialisers[sorted(ws)[0]]
    prot = {gid for gid, g in globs.items()
            if gid not in mutexes and gid not in triggers and gid not in init_only and not g.get("const")
            and writers.get(gid)} if mutexes else set()
    res.coverage.setdefault("units", {})[rel] = {
        "mutex": [globs[i]["n"] for i in mutexes], "protected": sorted(globs[i]["n"] for i in prot),
        "init_only": sorted(globs[i]["n"] for i in init_only), "triggers": sorted(globs[i]["n"] for i in triggers),
        "initialisers": sorted(initialisers), "destructors": sorted(destructors)}
    # summaries: static helpers that touch protected state without locking -> requires-lock
    requires_lock = set()
    for rnd in range(2):
        for f in funcs:
            if not f.static or f.name in initialisers or f.name in destructors:
                continue
            cl = LockClient(f, model, prot, init_only, requires_lock, entry_held=True)
            ir.run_paths(f, cl)
            if cl.accesses and cl.locks == 0:
                requires_lock.add(f.name)
    n_acc = 0
    n_lock = 0
    for f in funcs:
        exempt = None
        if f.name in initialisers:
            exempt = "once-initialiser: runs in exactly one thread under the once protocol (R18.3)"
        elif f.name in destructors and not any(c.get("callee") == LOCK for c in ir.calls(f.body)):
            exempt = "at-exit handler: runs after all other users are done"
        if f.name in requires_lock:
            res.proved("R18.1-lockset", function=f.name, file=rel, line=f.line, construct="helper requires the mutex",
                       detail="accesses shared state without locking: every call site is checked to hold the mutex")
            continue
        cl = LockClient(f, model, prot, init_only, requires_lock)
        r = ir.run_paths(f, cl)
        if r.truncated:
            raise AnalysisBroken("lockset: state space truncated in %s" % f.name)
        n_acc += cl.accesses
        n_lock += cl.locks
        if exempt:
            if cl.accesses:
                res.proved("R18.1-lockset", function=f.name, file=rel, line=f.line, construct="exempt: " + exempt.split(":")[0],
                           detail=exempt, nontrivial=False)
            continue
        for v in cl.viol.values():
            res.violation(v["rule"], function=f.name, file=rel, line=v["line"], construct=v["construct"], detail=v["detail"])
        if cl.accesses or cl.locks:
            if not cl.viol:
                res.proved("R18.1-lockset", function=f.name, file=rel, line=f.line,
                           construct="all shared accesses under the mutex",
                           detail="%d access(es) to shared state / lock-requiring helpers on all paths, %d lock site(s), "
                                  "every return reached with the mutex released" % (cl.accesses, cl.locks))
            # R18.5 generator step under the mutex: listed separately
            for c in ir.calls(f.body):
                if c.get("callee", "").startswith("brngCTR") and any(
                        r["id"] in prot for a in c["a"] for r, w, d, ia in global_accesses(a, globs)):
                    bad = [v for v in cl.viol.values() if v["line"] == c["l"]]
                    if not bad:
                        res.proved("R18.5-generator-step-locked", function=f.name, file=rel, line=c["l"],
                                   construct="%s on the shared state" % c["callee"],
                                   detail="the shared generator is stepped only while the mutex is held")
    return n_acc, n_lock


class OnceClient(ir.Client):
    """mtCallOnce shape.  state: (claimed, ran, published, not0, notmax)"""

    def __init__(self, f):
        self.f = f
        self.once = f.params[0]["id"]
        self.fn = f.params[1]["id"]
        self.viol = {}
        self.tvar = None
        self.seen_call = False
        self.seen_cas = 0

    def _v(self, rule, node, construct, detail):
        self.viol.setdefault((rule, construct), dict(rule=rule, line=node.line, construct=construct, detail=detail))

    def init(self, func):
        return (False, False, False, False, False)

    def _is_once(self, e):
        e = strip(e)
        return e.get("k") == "Ref" and e.get("id") == self.once

    def eval(self, e, st, env, node):
        claimed, ran, pub, n0, nmax = st
        # plain accesses to *once
        for n in walk(e):
            k = n.get("k")
            if k == "Call" and n.get("callee") == "utilAssert":
                continue
            if (k == "Un" and n["op"] == "*" and self._is_once(n["e"])) or (k == "Index" and self._is_once(n["b"])):
                # is it inside an ASSERT?  (walk is pre-order; find parent lazily)
                if not _inside_assert(e, n):
                    self._v("R18.3-once-atomic-access", node, "plain access to *once",
                            "`%s` touches the trigger without an mtAtomic* primitive: it races with other threads' "
                            "compare-and-swap and gives no ordering for the initialiser's effects" % show(e)[:60])
        for n in walk(e):
            if n.get("k") != "Call":
                continue
            if n.get("callee") in ATOMICS and n["a"] and self._is_once(n["a"][0]):
                self.seen_cas += 1
                if n["callee"] == "mtAtomicCmpSwap" and len(n["a"]) == 3:
                    cmpv, swapv = ir.int_val(n["a"][1]), n["a"][2]
                    if ran and cmpv is not None and cmpv != 0:
                        pub = True
                    n0 = nmax = False
            fn = n.get("fn")
            if fn is not None and strip(fn).get("k") == "Ref" and strip(fn)["id"] == self.fn:
                self.seen_call = True
                if not claimed:
                    self._v("R18.3-once-claim", node, "fn() without winning the compare-and-swap",
                            "the initialiser is called on a path where mtAtomicCmpSwap(once, 0, ..) == 0 was not established")
                if ran:
                    self._v("R18.3-once-claim", node, "fn() called twice", "the initialiser can run twice on one path")
                ran = True
        # t = CAS(...)
        for l, rhs, op in ir.assigned_vars(e):
            if rhs is not None and ir.is_call(rhs, "mtAtomicCmpSwap"):
                self.tvar = l["id"]
            # plain store *once = v handled above; publication through plain store counts as published for rule (ii)
        for n in walk(e):
            if n.get("k") == "Bin" and n["op"] == "=" and strip(n["x"]).get("k") == "Un" and self._is_once(strip(n["x"])["e"]):
                if ran:
                    pub = True
        return (claimed, ran, pub, n0, nmax)

    def assume(self, c, pol, st, env, node):
        claimed, ran, pub, n0, nmax = st
        c = strip(c)
        if c.get("k") == "Bin" and c["op"] in ("==", "!="):
            eq = pol if c["op"] == "==" else not pol
            x, y = strip(c["x"]), strip(c["y"])
            lhs_is_t = False
            if x.get("k") == "Bin" and x["op"] == "=" and ir.is_call(x["y"], "mtAtomicCmpSwap"):
                lhs_is_t = True
                cas = strip(x["y"])
                cas_on_once = self._is_once(cas["a"][0]) and ir.int_val(cas["a"][1]) == 0
            elif x.get("k") == "Ref" and x.get("id") == self.tvar:
                lhs_is_t = True
                cas_on_once = True
            elif ir.is_call(x, "mtAtomicCmpSwap"):
                lhs_is_t = True
                cas = x
                cas_on_once = self._is_once(cas["a"][0]) and ir.int_val(cas["a"][1]) == 0
            if lhs_is_t and cas_on_once:
                v = ir.int_val(y)
                if v == 0:
                    if eq:
                        claimed = True
                    else:
                        n0 = True
                elif v is not None and v != 1:
                    if not eq:
                        nmax = True
                elif v == 1 and eq:
                    n0 = nmax = True
        return (claimed, ran, pub, n0, nmax)

    def ret(self, e, st, env, node):
        claimed, ran, pub, n0, nmax = st
        if ran and not pub:
            self._v("R18.3-once-publish", node, "return after fn() without completion write",
                    "the thread that ran the initialiser returns without marking the trigger as done: waiters spin forever")
        if not ran and not (n0 and nmax):
            self._v("R18.3-once-wait", node, "return before the initialiser finished",
                    "a caller that did not run the initialiser returns although the trigger was not observed in the done "
                    "state (it may still be SIZE_MAX = in progress): the initialiser's effects are not yet visible")
        return st


def _inside_assert(root, target):
    for n in walk(root):
        if n.get("k") == "Call" and n.get("callee") == "utilAssert":
            for m in walk(n):
                if m is target:
                    return True
    return False


def check_once(prog, res):
    f = prog.funcs.get("mtCallOnce")
    if f is None or f.body is None or len(f.params) != 2:
        raise AnalysisBroken("mtCallOnce not found")
    cl = OnceClient(f)
    r = ir.run_paths(f, cl)
    if not cl.seen_call or not cl.seen_cas:
        raise AnalysisBroken("mtCallOnce: no indirect call of the initialiser / no compare-and-swap on the trigger found")
    rules = ["R18.3-once-atomic-access", "R18.3-once-claim", "R18.3-once-publish", "R18.3-once-wait"]
    for rule in rules:
        vs = [v for v in cl.viol.values() if v["rule"] == rule]
        if vs:
            for v in vs:
                res.violation(rule, function="mtCallOnce", file=f.relfile, line=v["line"], construct=v["construct"], detail=v["detail"])
        else:
            res.proved(rule, function="mtCallOnce", file=f.relfile, line=f.line, construct=rule.split("-", 1)[1],
                       detail="holds on all %d explored path states" % r.steps)


def check_primitives(prog, res):
    want = {"mtAtomicIncr": "__sync_add_and_fetch", "mtAtomicDecr": "__sync_sub_and_fetch",
            "mtAtomicCmpSwap": "__sync_val_compare_and_swap",
            "mtMtxLock": "pthread_mutex_lock", "mtMtxUnlock": "pthread_mutex_unlock"}
    for name, prim in want.items():
        f = prog.funcs.get(name)
        if f is None or f.body is None:
            raise AnalysisBroken("%s not found" % name)
        cs = [c for c in ir.calls(f.body) if c.get("callee") != "utilAssert" and not _in_assert_fn(f.body, c)]
        good = [c for c in cs if (c.get("callee") or "").startswith(prim) and c["a"] and
                strip(c["a"][0]).get("k") == "Ref" and strip(c["a"][0])["id"] == f.params[0]["id"]]
        plain = [n for n in walk(f.body) if (n.get("k") == "Un" and n["op"] in ("pre++", "pre--", "post++", "post--")) or
                 (n.get("k") == "Bin" and n["op"] in ir.ASSIGN_OPS)]
        if len(good) == 1 and not plain:
            res.proved("R18.4-primitives", function=name, file=f.relfile, line=f.line, construct="%s on the parameter" % prim,
                       detail="body is a single %s(%s, ..)" % (good[0]["callee"], f.params[0]["n"]))
        else:
            res.violation("R18.4-primitives", function=name, file=f.relfile, line=f.line, construct="%s on the parameter" % prim,
                          detail="%s is no longer a single %s on its parameter (found calls %s, %d plain update(s)): "
                                 "not atomic under concurrency" % (name, prim, [c.get("callee") for c in cs], len(plain)))


def _in_assert_fn(body, target):
    return _inside_assert(body, target)


def run(tier, seed=0):
    res = Result("C18", "other", tier)
    prog = ir.Program("w64", units=[ir.REPO + "/src/core/" + u for u in ("mt.c", "rng.c", "util.c", "tm.c")])
    tot_acc = tot_lock = 0
    for u in sorted(prog.units):
        if u.endswith("mt.c"):
            continue
        a, l = check_unit(prog, u, res)
        tot_acc += a
        tot_lock += l
    check_once(prog, res)
    check_primitives(prog, res)
    # any other unit with a mutex or mtCallOnce must be analysed too: scan the whole library cheaply (thorough)
    allp = ir.Program("w64", tag="w64-c18all")
    extra = []
    for u, d in allp.units.items():
        if any(u.endswith(x) for x in ("mt.c", "rng.c", "util.c", "tm.c")):
            continue
        for f in allp.by_unit[u]:
            if f.file != u:
                continue
            for c in ir.calls(f.body):
                if c.get("callee") in ({LOCK, UNLOCK, "mtCallOnce"} | ATOMICS):
                    extra.append((ir.relpath(u), f.name, c["callee"]))
    if extra:
        raise AnalysisBroken("synchronisation primitives used in units the lockset analysis does not cover: %s" % extra[:3])
    res.floor("shared-state accesses", tot_acc, 35)
    res.floor("lock sites", tot_lock, 8)
    res.coverage["explanation"] = (
        "Lockset analysis on every path of every function of rng.c, util.c and tm.c (file-scope mutable objects other than "
        "the mutex and the once trigger must be accessed with the unit's mutex held; variables written only by the "
        "once-initialiser may be read only after mtCallOnce on the same trigger), lock/unlock pairing at every return, "
        "a stale-guard rule (no write/dereference of shared state in a critical section that relies on a test made in an "
        "earlier one), the shape of mtCallOnce (initialiser only after a winning CAS; completion published; no return "
        "before the trigger was observed done; trigger touched only through atomics) and of the atomic/mutex primitives.")
    res.coverage["shared_accesses_checked"] = tot_acc
    res.coverage["lock_sites"] = tot_lock
    res.assumptions = COMMON_ASSUMPTIONS + [
        "the OS_UNIX branch of mt.c is analysed (pthread mutexes, __sync builtins are full barriers)",
        "once-initialisers run under the once protocol and at-exit handlers run after all users: both are exempt from the lockset rule",
        "ASSERT arguments are ignored by the init-only rule (debug builds only) but not by the lockset rule",
        "liveness/fairness and the caller's obligation to hold a reference (rngCreate before rngStepR) are not decided",
    ]
    return res
