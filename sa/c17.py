"""C17: token layer -- structural clauses.
R17.1 certificate chain validation is complete (issuer key passed to the unwrap, signature verified when a key is
given, name and date nesting checks with the right operands, explicit date inside the validity period);
R17.2 secure messaging: the counter-parity test refuses the call before the session keys are used, Wrap and Unwrap of
one direction refuse the same parity and the two directions opposite parities, the MAC is verified before decryption
(also C09(c)); R17.3 key/share containers release their content only after beltKWPUnwrap accepted."""
import re
from . import ir, vp, vprules, mustcall
from .vprules import T, F, OK, FACT, CMP, ANY
from .ir import AnalysisBroken, strip, walk, show, int_val
from .report import Result, COMMON_ASSUMPTIONS


PREMISE_HITS = {}


def implies(p, q, tag=None):
    """p => q on a success path; the premise must be seen on some success path of the current tree, otherwise the rule
    would hold vacuously (checked after the run: a vanished premise is an analysis failure, not a pass)"""
    if tag is not None:
        PREMISE_HITS.setdefault(tag, 0)

    def pred(fs):
        if not p(fs):
            return True
        if tag is not None:
            PREMISE_HITS[tag] += 1
        return q(fs)
    return pred


DATE_GIVEN = CMP(True, r"^date$")

def chain_pred(kind):
    """predicates for btokCVCVal/Val2 that do not depend on local names: c = certificate object, a = issuer object, as
    bound by the accepted call btokCVCUnwrap(c, cert, cert_len, a->pubkey, a->pubkey_len)"""
    def bind(fs):
        for x in fs:
            if x[0] == "ok":
                m = re.match(r"btokCVCUnwrap\(([^,]+),cert,cert_len,([^,]+)->pubkey,([^,]+)->pubkey_len\)$", x[1])
                if m and m.group(2) == m.group(3):
                    return m.group(1), m.group(2)
        return None

    def p(fs):
        b = bind(fs)
        if b is None:
            return False
        c, a = b
        has = lambda k, s: any(x[0] == k and x[1] == s for x in fs)
        date_given = any(x[0] == "cmp" and x[1] is True and x[2] == "date" for x in fs)
        if kind == "unwrap":
            return True
        if kind == "check2":
            return has("ok", "btokCVCCheck2(%s,%s)" % (c, a))
        if kind == "date-valid":
            return (not date_given) or has("T", "tmDateIsValid2(date)")
        if kind == "from<=date":
            return (not date_given) or has("T", "tmDateLeq2(%s->from,date)" % c)
        if kind == "date<=until":
            return (not date_given) or has("T", "tmDateLeq2(date,%s->until)" % c)
        return False
    return p


VAL_REQ = [
    ("certificate unwrapped under the issuer's key (btokCVCUnwrap(c, cert, cert_len, a->pubkey, a->pubkey_len))", chain_pred("unwrap")),
    ("name/date nesting btokCVCCheck2(c, a) on the same objects", chain_pred("check2")),
    ("date given => date is valid", chain_pred("date-valid")),
    ("date given => cert.from <= date", chain_pred("from<=date")),
    ("date given => date <= cert.until", chain_pred("date<=until")),
]

CVC_RULES = [
    ("btokCVCCheck2", [
        ("certificate body valid (btokCVCCheck)", OK("btokCVCCheck(cvc")),
        ("authority == issuer's holder (strEq)", ANY(T("strCmp(cvc->authority,cvca->holder)==0"), T("strCmp(cvca->holder,cvc->authority)==0"),
                                                      T("strEq(cvc->authority,cvca->holder"))),
        ("issuer dates valid", lambda fs: sum(1 for x in fs if x[0] == "T" and x[1].startswith("tmDateIsValid2(cvca->")) >= 2),
        ("issuer.from <= cert.from", T("tmDateLeq2(cvca->from,cvc->from)")),
        ("cert.from <= issuer.until", T("tmDateLeq2(cvc->from,cvca->until)")),
    ]),
    ("btokCVCVal", [("issuer certificate parsed (btokCVCUnwrap(.., 0, 0))", lambda fs: any(x[0] == "ok" and re.match(r"btokCVCUnwrap\([^,]+,certa,certa_len,0,0\)$", x[1]) for x in fs))] + VAL_REQ),
    ("btokCVCVal2", VAL_REQ),
    ("btokCVCUnwrap", [
        ("key given => signature verified (btokVerify)", implies(CMP(True, r"^pubkey_len$"), OK("btokVerify("), tag="btokCVCUnwrap: key given")),
        ("verification on the certificate's own key requested (pubkey == cvc->pubkey, pubkey_len == 0) => signature "
         "verified (btokVerify)", implies(CMP(True, r"^\((pubkey==cvc->pubkey|cvc->pubkey==pubkey)\)$"), OK("btokVerify("), tag="btokCVCUnwrap: self-key form")),
        ("outer SEQUENCE closed (derTSEQDecStop)", CMP(False, r"^derTSEQDecStop\(.*==")),
        ("no trailing octets", CMP(False, r"cert_len!=0")),
        ("content check (btokCVCCheck)", OK("btokCVCCheck(cvc")),
    ]),
    ("btokCVCIss", [
        ("issuer certificate parsed", OK("btokCVCUnwrap(cvca,")),
        ("name/date nesting (btokCVCCheck2)", OK("btokCVCCheck2(cvc,cvca)")),
        ("issuer key pair matches its certificate", OK("btokKeypairVal(privkeya,privkeya_len,cvca->pubkey,cvca->pubkey_len)")),
        ("certificate signed (btokCVCWrap)", OK("btokCVCWrap(")),
    ]),
    ("btokCVCMatch", [
        ("certificate parsed", OK("btokCVCUnwrap(cvc,")),
        ("key pair validated against the certificate key", OK("btokKeypairVal(privkey,privkey_len,cvc->pubkey,cvc->pubkey_len)")),
    ]),
    ("bpkiPrivkeyUnwrap", [("container key unwrapped (beltKWPUnwrap)", OK("beltKWPUnwrap(")), ("PBKDF2 succeeded", OK("beltPBKDF2("))]),
    ("bpkiShareUnwrap", [("container key unwrapped (beltKWPUnwrap)", OK("beltKWPUnwrap(")), ("PBKDF2 succeeded", OK("beltPBKDF2("))]),
]

SM_FUNCS = {"btokSMCmdWrap": ("cmd", "wrap"), "btokSMCmdUnwrap": ("cmd", "unwrap"),
            "btokSMRespWrap": ("resp", "wrap"), "btokSMRespUnwrap": ("resp", "unwrap")}


def eval_parity(e, ctr0):
    """evaluate an integer expression over the single unknown st->ctr[0]"""
    e = strip(e)
    k = e.get("k")
    if k == "Int":
        return int_val(e)
    if k == "Index" or (k == "Un" and e["op"] == "*"):
        s = show(e)
        if re.search(r"ctr", s):
            return ctr0
        raise ValueError(s)
    if k == "Un" and e["op"] == "!":
        return 0 if eval_parity(e["e"], ctr0) else 1
    if k == "Bin":
        a, b = eval_parity(e["x"], ctr0), eval_parity(e["y"], ctr0)
        op = e["op"]
        tbl = {"%": lambda: a % b, "&": lambda: a & b, "|": lambda: a | b, "^": lambda: a ^ b, "+": lambda: a + b,
               "-": lambda: a - b, "==": lambda: int(a == b), "!=": lambda: int(a != b), "<": lambda: int(a < b),
               ">": lambda: int(a > b), "<=": lambda: int(a <= b), ">=": lambda: int(a >= b), "&&": lambda: int(bool(a and b)),
               "||": lambda: int(bool(a or b)), ">>": lambda: a >> b, "<<": lambda: a << b, "*": lambda: a * b, "/": lambda: a // b}
        if op in tbl:
            return tbl[op]()
    raise ValueError(show(e))


class SMClient(ir.Client):
    """state: (refused parity set or None = not tested yet, unprot)"""

    def __init__(self, f):
        self.f = f
        self.state_param = [p["id"] for p in f.params if p["n"] == "state"]
        self.viol = {}
        self.tests = []      # refusing parity sets seen
        self.key_uses = 0

    def init(self, func):
        return (None, False, False)

    def _v(self, rule, node, construct, detail):
        self.viol.setdefault((rule, construct), dict(rule=rule, line=node.line, construct=construct, detail=detail))

    def eval(self, e, st, env, node):
        tested, unprot, fresh = st
        if node.kind != "return":
            fresh = False
        st = (tested, unprot, fresh)
        for c in ir.calls(e):
            if c.get("callee") == "utilAssert":
                continue
            for a in c["a"]:
                s = show(a)
                if re.search(r"->key[12]\b", s):
                    self.key_uses += 1
                    if tested is None and not unprot:
                        self._v("R17.2-parity-before-keys", node, "%s uses the session key before the counter-parity test" % c.get("callee"),
                                "%s(.., %s, ..) runs on a path where the parity of the message counter has not been tested: "
                                "a call at a counter of the wrong parity is not refused" % (c.get("callee"), s))
        return st

    def assume(self, c, pol, st, env, node):
        tested, unprot, fresh = st
        cs = strip(c)
        if cs.get("k") == "Ref" and cs.get("id") in self.state_param and pol is False:
            return (tested, True, False)
        if re.search(r"ctr\s*\[", show(c)):
            try:
                refuse = frozenset(p for p in (0, 1) if all(bool(eval_parity(c, v)) == pol for v in range(p, 256, 2)))
                accept_all = all(bool(eval_parity(c, v)) == pol for v in range(256))
            except ValueError:
                return st
            # this branch (c == pol) is taken for counters in `taken`
            taken = frozenset(v % 2 for v in range(256) if bool(eval_parity(c, v)) == pol)
            return (("cond", taken, node.line), unprot, True)
        return (tested, unprot, False)

    def ret(self, e, st, env, node):
        tested, unprot, fresh = st
        rv = ir.eval_abs(e, env) if e is not None else "void"
        if unprot:
            return st
        if isinstance(tested, tuple) and tested[0] == "cond":
            taken = tested[1]
            if fresh and rv not in ("void", ir.TOP) and rv[0] == "c" and rv[1] != 0:
                # a non-zero return right after the parity branch: parities in `taken` are refused here
                self.tests.append(("refuse", taken, tested[2], rv[1]))
            elif rv == ("c", 0):
                self.tests.append(("accept", taken, tested[2], 0))
        elif tested is None and rv == ("c", 0) and self.key_uses_on_path(st):
            pass
        return st

    def key_uses_on_path(self, st):
        return False


def check_sm(prog, res):
    refused = {}
    for fn, (direction, kind) in sorted(SM_FUNCS.items()):
        f = prog.funcs.get(fn)
        if f is None or f.body is None:
            raise AnalysisBroken("secure-messaging anchor %s vanished" % fn)
        cl = SMClient(f)
        r = ir.run_paths(f, cl, max_states=600000)
        if r.truncated:
            raise AnalysisBroken("secure messaging: state space truncated in %s" % fn)
        if cl.key_uses == 0:
            raise AnalysisBroken("%s: no use of st->key1/key2 recognised" % fn)
        for v in cl.viol.values():
            res.violation(v["rule"], function=fn, file=f.relfile, line=v["line"], construct=v["construct"], detail=v["detail"])
        if not cl.viol:
            res.proved("R17.2-parity-before-keys", function=fn, file=f.relfile, line=f.line, construct="session keys after the parity test",
                       detail="all %d uses of key1/key2 on protected paths are dominated by a test of ctr[0]" % cl.key_uses)
        ref = {t[1] for t in cl.tests if t[0] == "refuse"}
        acc = {t[1] for t in cl.tests if t[0] == "accept"}
        refuse_par = frozenset().union(*ref) if ref else frozenset()
        accept_par = set()
        # parities that reach the protected success return: those for which the refusing branch is not taken
        if len(refuse_par) != 1:
            res.violation("R17.2-parity-refused", function=fn, file=f.relfile, line=f.line,
                          construct="counter-parity test refuses exactly one parity",
                          detail="the test on st->ctr[0] refuses parities %s (0 = even, 1 = odd): it must refuse exactly the "
                                 "wrong one with an error return" % sorted(refuse_par))
        else:
            res.proved("R17.2-parity-refused", function=fn, file=f.relfile, line=f.line,
                       construct="counter-parity test refuses exactly one parity",
                       detail="calls at an %s counter are refused with an error return" % ("even" if 0 in refuse_par else "odd"))
        refused[fn] = refuse_par
    for direction in ("cmd", "resp"):
        w = [fn for fn, (d, k) in SM_FUNCS.items() if d == direction and k == "wrap"][0]
        u = [fn for fn, (d, k) in SM_FUNCS.items() if d == direction and k == "unwrap"][0]
        f = prog.funcs[u]
        if refused[w] == refused[u] and len(refused[w]) == 1:
            res.proved("R17.2-parity-agreement", function=u, file=f.relfile, line=f.line, construct="%s / %s" % (w, u),
                       detail="both refuse the same parity")
        else:
            res.violation("R17.2-parity-agreement", function=u, file=f.relfile, line=f.line, construct="%s / %s" % (w, u),
                          detail="%s refuses parities %s but %s refuses %s: a peer in step cannot recover what was protected" %
                                 (w, sorted(refused[w]), u, sorted(refused[u])))
    f = prog.funcs["btokSMRespWrap"]
    if refused["btokSMCmdWrap"] and refused["btokSMRespWrap"] and refused["btokSMCmdWrap"] != refused["btokSMRespWrap"]:
        res.proved("R17.2-parity-agreement", function="btokSMRespWrap", file=f.relfile, line=f.line, construct="command vs response",
                   detail="commands and responses use opposite counter parities")
    else:
        res.violation("R17.2-parity-agreement", function="btokSMRespWrap", file=f.relfile, line=f.line, construct="command vs response",
                      detail="commands and responses must be protected at opposite counter parities")
    # MAC before decryption in the Unwrap pair
    for fn in ("btokSMCmdUnwrap", "btokSMRespUnwrap"):
        f = prog.funcs[fn]
        bad = []

        def on_call(c, facts, node, cl):
            if c.get("callee") in ("beltCFBStepD", "beltCFBStart"):
                if not any(x[0] == "T" and x[1].startswith("beltMACStepV(") for x in facts):
                    bad.append(c["l"])
        vp.run_facts(f, prog, on_call=on_call, track_generic=False, max_states=800000)
        if bad:
            res.violation("R17.2-mac-before-decrypt", function=fn, file=f.relfile, line=bad[0], construct="beltCFB decrypt before beltMACStepV",
                          detail="the protected field is decrypted at line %d on a path where the MAC has not been verified" % bad[0])
        else:
            res.proved("R17.2-mac-before-decrypt", function=fn, file=f.relfile, line=f.line, construct="beltMACStepV dominates beltCFBStepD",
                       detail="decryption only after the MAC was accepted")


def body_postconditions(prog, res):
    """fields that a static container decoder leaves non-zero on success, computed by the decoder-bounds analysis
    (sa/db.py: states at the successful returns projected on the fields of the pointer parameters).  btokCVCUnwrap's
    `pubkey_len = cvc->pubkey_len` relies on btokCVCBodyDec having accepted only key lengths 48..128."""
    from . import db, c08
    contracts = c08.der_contracts(prog)
    out = {}
    for n in sorted(contracts):
        f = prog.funcs.get(n)
        if f is None or f.relfile != "src/crypto/btok/btok_cvc.c" or not f.static:
            continue
        A = db.Analyzer(f, prog, contracts)
        post = A.summary(A.run())
        nz = []
        for k, b in post:
            if len(k) == 1 and k[0][1] == -1 and b <= -1:
                m = re.match(r"m:\$(\d+)((?:->|\.).*)$", k[0][0])
                if m:
                    nz.append((int(m.group(1)), m.group(2)))
        if nz:
            out[n] = nz
    res.coverage["decoder_postconditions_used"] = {k: ["arg%d%s != 0" % x for x in v] for k, v in out.items()}
    return out


FIELD_CODECS = ("btokCVCBodyEnc", "btokCVCBodyDec")


def check_field_extents(prog, res):
    """R17.4: the encoder and the decoder of the certificate body handle each fixed-size field of the certificate
    structure over one and the same number of octets: the presence test of an optional field (memIsZero), the octets
    encoded and the octets decoded agree.  A presence test over fewer octets than are encoded drops a non-zero field
    from the signed body (round-9 seed C17/2); an encoder and a decoder that disagree cannot parse back what was made."""
    from . import docext
    doc, _ = docext.load(ir.REPO)
    uses = {}          # field -> [(function, callee, length, line)]
    for fn in FIELD_CODECS:
        f = prog.funcs.get(fn)
        if f is None or f.body is None:
            raise AnalysisBroken("R17.4: %s vanished" % fn)
        for c in ir.walk(f.body):
            if c.get("k") != "Call" or not c.get("callee"):
                continue
            proto = prog.funcs.get(c["callee"]) or prog.protos.get(c["callee"])
            d = doc.get(c["callee"]) or {}
            if proto is None:
                continue
            names = {p_["n"]: i for i, p_ in enumerate(proto.params)}
            for i, a in enumerate(c["a"]):
                m = strip(a)
                while isinstance(m, dict) and m.get("k") == "Paren":
                    m = strip(m["e"])
                if not (isinstance(m, dict) and m.get("k") == "Member" and "[" in (m.get("t") or "")) or i >= len(proto.params):
                    continue
                l = d.get(proto.params[i]["n"])
                if not l or set(l) - {""} and len(set(l) - {""}) != 1:
                    continue
                total = l.get("", 0)
                ok = True
                for k_, cf in l.items():
                    if not k_:
                        continue
                    v = ir.int_val(c["a"][names[k_]]) if k_ in names and names[k_] < len(c["a"]) else None
                    if v is None:
                        ok = False
                    else:
                        total += cf * v
                if ok:
                    uses.setdefault(m["f"], []).append((fn, c["callee"], total, c.get("l") or f.line))
    n = 0
    for fld, us in sorted(uses.items()):
        if len(us) < 2:
            continue
        n += 1
        f = prog.funcs[us[0][0]]
        lens = sorted({u[2] for u in us})
        text = ", ".join("%s:%s(%d)" % (u[0], u[1], u[2]) for u in us)
        if len(lens) == 1:
            res.proved("R17.4-field-extents-agree", function=us[0][0], file=f.relfile, line=us[0][3], construct="field %s" % fld,
                       detail="tested / encoded / decoded over %d octets at every site: %s" % (lens[0], text))
        else:
            odd = min(us, key=lambda u: sum(1 for v in us if v[2] == u[2]))
            res.violation("R17.4-field-extents-agree", function=odd[0], file=prog.funcs[odd[0]].relfile, line=odd[3],
                          construct="field %s" % fld,
                          detail="the certificate field %s is handled over different numbers of octets: %s -- what one side "
                                 "tests or writes is not what the other encodes or reads" % (fld, text))
    if n < 4:
        raise AnalysisBroken("R17.4: %d fixed-size certificate fields with constant extents found, 4 confirmed by reading "
                             "(hat_eid, hat_esign, from, until)" % n)
    return n


def run(tier, seed=0):
    res = Result("C17", "other", tier)
    prog = ir.Program("w64")
    n = 0
    pnz = body_postconditions(prog, res)
    for fn, req in CVC_RULES:
        vprules.check_must(prog, res, "R17.1-chain-validation-complete" if fn.startswith("btok") else "R17.3-container-release",
                           fn, req, post_nonzero=pnz)
        n += len(req)
    vanished = [t for t, n_ in PREMISE_HITS.items() if n_ == 0]
    if vanished:
        raise AnalysisBroken("premise of a conditional obligation no longer occurs on any success path: %s" % ", ".join(vanished))
    table = mustcall.load_table("token.json")
    n += mustcall.check_table(prog, res, "R17.1-content-checks", table)
    check_sm(prog, res)
    n += check_field_extents(prog, res)
    res.floor("token-layer obligations", n, 30)
    res.coverage["explanation"] = (
        "Must-pass-through analysis on all paths: certificate validation (Val, Val2, Iss, Match, Unwrap, Check2) reports "
        "success only after the named sub-checks accepted with the right operands (issuer key passed to the unwrap, "
        "signature verified whenever a key is given, authority == issuer holder, issuer.from <= cert.from <= "
        "issuer.until, explicit date inside the validity period); in secure messaging the parity of ctr[0] is tested "
        "(the test's truth table over all 256 octet values is evaluated) before any use of the session keys, Wrap and "
        "Unwrap of one direction refuse the same parity, directions use opposite parities, and decryption follows an "
        "accepted MAC; containers release content only after beltKWPUnwrap accepted. Parse-back equality and "
        "'recovered unchanged' are value statements and are declined.")
    res.assumptions = COMMON_ASSUMPTIONS + [
        "operand names in the chain rules are the functions' parameter names (cvc = certificate, cvca = issuer); a renamed parameter stops the check with exit 2 rather than passing",
        "the unprotected mode (state == 0) of the secure-messaging functions is documented and exempt",
    ]
    return res
