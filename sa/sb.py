"""State-buffer rules for the incremental APIs (C10's `partial-block buffering` and `working copies` mechanisms).
families(prog): the functions of one unit that lay the same state structure over their `state` parameter.
R10.3 (get-does-not-disturb): a Get/Verify step writes no scalar field of the state that some function of the family
      reads before writing it -- such a write is visible to every later Step, so get-then-continue would differ from
      never having called the Get.  (Array fields are not judged: a Get may pad the dead tail of the block buffer.)"""
import re
from . import ir
from .ir import strip, walk, AnalysisBroken

SCALAR_TYPES = ("size_t", "u32", "u64", "word", "octet", "bool_t", "int", "u16", "tm_time_t", "dword")
GET = re.compile(r"Step[GV]\d?$")
# steps named StepG/StepV that are the generator itself, not an observation of a running computation
GENERATORS = {
    "botpHOTPStepG": "generates the next password and advances the counter by design (botp.h)",
    "botpHOTPStepV": "verification of a password advances the counter by design on success (botp.h)",
    "botpTOTPStepV": "a TOTP check is a one-shot computation on the given time",
    "botpOCRAStepG": "generates the next password and advances the counter by design",
    "botpOCRAStepV": "verification advances the counter by design on success",
    "beltKRPStepG": "each call derives one key from (level, header); there is no running computation to observe",
}


def state_types(prog):
    from . import c14
    return c14.state_types(prog)


def families(prog, prefix="src/crypto/"):
    stt = state_types(prog)
    fam = {}
    for f in prog.all_funcs():
        if f.body is None or not f.relfile.startswith(prefix):
            continue
        for pi, sn in (stt.get(f.name) or {}).items():
            if pi >= 0 and f.params[pi]["n"] == "state":
                fam.setdefault((f.relfile, sn), []).append((f, pi))
    return fam


def state_aliases(f, pidx):
    """ids of the variables that hold the state pointer (the parameter and locals initialised from it by a cast)"""
    ids = {f.params[pidx]["id"]}
    changed = True
    while changed:
        changed = False
        for n in walk(f.body):
            tgt, src = None, None
            if n.get("k") == "Decl" and n.get("init") is not None and n.get("p"):
                tgt, src = n["id"], n["init"]
            elif n.get("k") == "Bin" and n["op"] == "=" and strip(n["x"]).get("k") == "Ref" and strip(n["x"]).get("p"):
                tgt, src = strip(n["x"])["id"], n["y"]
            if tgt is None or tgt in ids:
                continue
            s_ = strip(src)
            if s_.get("k") == "Ref" and s_.get("id") in ids:
                ids.add(tgt)
                changed = True
    return ids


def field_of(n, ids):
    """top-level field name F if n designates (state alias)->F[...]..., else None"""
    n = strip(n)
    chain = []
    while isinstance(n, dict) and n.get("k") in ("Member", "Index"):
        if n["k"] == "Member":
            chain.append(n)
        n = strip(n["b"])
    if not chain:
        return None
    top = chain[-1]
    r = strip(top["b"])
    if isinstance(r, dict) and r.get("k") == "Ref" and r.get("id") in ids and top.get("arrow"):
        return top["f"]
    return None


def array_access(e, ids, arrays, scalars):
    """(field, kind) if e designates memory inside an array field of the state: kind 'start' (the field itself, offset
    0), 'tail' (field + an offset that mentions a scalar field of the state: beyond the fill mark), 'part' (other)"""
    cur = strip(e)
    if not isinstance(cur, dict):
        return None
    if cur.get("k") == "Un" and cur["op"] == "&":
        cur = strip(cur["e"])
    exprs = []
    F = None
    for _ in range(12):
        if not isinstance(cur, dict):
            return None
        k = cur.get("k")
        if k == "Index":
            exprs.append(cur["i"])
            cur = strip(cur["b"])
        elif k == "Un" and cur["op"] == "*":
            cur = strip(cur["e"])
        elif k == "Bin" and cur["op"] in ("+", "-"):
            exprs.append(cur["y"])
            cur = strip(cur["x"])
        elif k == "Member":
            F = field_of(cur, ids)
            if F in arrays:
                break
            # a member of a nested struct array (st->wbl->key): walk down to the state's own field
            cur = strip(cur["b"])
        else:
            return None
    if F not in arrays:
        return None
    if not exprs or all(ir.int_val(x) == 0 for x in exprs):
        return F, "start"
    for x in exprs:
        for n in walk(x):
            if n.get("k") == "Member" and field_of(n, ids) in scalars:
                return F, "tail"
    return F, "part"


class FieldUse(ir.Client):
    """state: scalar fields written so far on the path; collects fields written / read before written"""

    def __init__(self, ids, scalars, arrays=(), prog=None, unit=None):
        self.ids, self.sc = ids, scalars
        self.arrays, self.prog, self.unit = set(arrays), prog, unit
        self.exposed, self.written = {}, {}
        self.arr_exposed, self.arr_written = {}, {}
        self.copies = []       # (destination field, source field, line) of element copies between array fields

    def _arr(self, e, w, write, line):
        a = array_access(e, self.ids, self.arrays, self.sc)
        if a is None:
            return False
        F, kind = a
        if write:
            self.arr_written.setdefault(F, []).append((kind, line))
            if kind == "start":
                w.add("[]" + F)
        elif "[]" + F not in w:
            self.arr_exposed.setdefault(F, line)
        return True

    def init(self, func):
        return frozenset()

    def eval(self, e, st, env, node):
        w = set(st)

        def rec(n):
            if not isinstance(n, dict):
                return
            k = n.get("k")
            if k == "Call" and n.get("callee") == "utilAssert":
                return
            if k == "Call" and self.arrays:
                proto = self.prog.proto(n.get("callee"), self.unit) if (self.prog is not None and n.get("callee")) else None
                reads, writes = [], []
                for i, a in enumerate(n["a"]):
                    if array_access(a, self.ids, self.arrays, self.sc) is None:
                        rec(a)
                        continue
                    const = bool(proto is not None and i < len(proto.params) and proto.params[i].get("pc"))
                    (reads if const else writes).append(a)
                    # a non-const buffer may also be read by the callee (in-place operations): count the read first
                    if not const and not (n.get("callee") or "").startswith(("memCopy", "memMove", "memSet", "wwFrom", "wwCopy", "u16From", "u32From", "u64From", "beltBlockCopy")):
                        reads.append(a)
                for a in reads:
                    self._arr(a, w, False, n.get("l") or node.line)
                for a in writes:
                    self._arr(a, w, True, n.get("l") or node.line)
                if (n.get("callee") or "") in ("memCopy", "memMove", "wwCopy") and len(n["a"]) >= 2:
                    d_, s_ = (array_access(n["a"][0], self.ids, self.arrays, self.sc),
                              array_access(n["a"][1], self.ids, self.arrays, self.sc))
                    if d_ is not None and s_ is not None and d_[0] != s_[0]:
                        self.copies.append((d_[0], s_[0], n.get("l") or node.line))
                return
            if k == "Bin" and n["op"] in ir.ASSIGN_OPS and self.arrays and strip(n["x"]).get("k") in ("Index", "Un") and \
                    array_access(n["x"], self.ids, self.arrays, self.sc) is not None:
                if n["op"] == "=":
                    src = array_access(n["y"], self.ids, self.arrays, self.sc) if strip(n["y"]).get("k") in ("Index", "Un") else None
                    dst = array_access(n["x"], self.ids, self.arrays, self.sc)
                    if src is not None and src[0] != dst[0]:
                        self.copies.append((dst[0], src[0], n.get("l") or node.line))
                rec(n["y"])
                if n["op"] != "=":
                    self._arr(n["x"], w, False, n.get("l") or node.line)
                self._arr(n["x"], w, True, n.get("l") or node.line)
                return
            if k in ("Index",) and self.arrays and array_access(n, self.ids, self.arrays, self.sc) is not None:
                self._arr(n, w, False, n.get("l") or node.line)
                return
            if k == "Bin" and n["op"] in ir.ASSIGN_OPS:
                rec(n["y"])
                F = field_of(n["x"], self.ids)
                if F in self.sc and strip(n["x"]).get("k") == "Member":
                    if n["op"] != "=" and F not in w:
                        self.exposed.setdefault(F, node.line)
                    w.add(F)
                    self.written.setdefault(F, n.get("l") or node.line)
                else:
                    rec(n["x"])
                return
            if k == "Un" and n["op"] in ("pre++", "pre--", "post++", "post--"):
                F = field_of(n["e"], self.ids)
                if F in self.sc and strip(n["e"]).get("k") == "Member":
                    if F not in w:
                        self.exposed.setdefault(F, node.line)
                    w.add(F)
                    self.written.setdefault(F, n.get("l") or node.line)
                    return
            if k == "Un" and n["op"] == "&":
                F = field_of(n["e"], self.ids)
                if F in self.sc:
                    self.written.setdefault(F, n.get("l") or node.line)       # address escapes: may be written
                    self.exposed.setdefault(F, node.line)
                    return
            if k == "Member":
                F = field_of(n, self.ids)
                if F in self.sc:
                    if F not in w:
                        self.exposed.setdefault(F, n.get("l") or node.line)
                    return
            for c in ir.kids(n):
                rec(c)
        rec(e)
        return frozenset(w)


def check_get_steps(prog, res, rule, units=None):
    n = 0
    for (rel, sn), fs in sorted(families(prog).items()):
        gets = [x for x in fs if GET.search(x[0].name)]
        if not gets or (units is not None and not any(u.search(rel) for u in units)):
            continue
        rec = prog.records.get(sn)
        if rec is None:
            continue
        scal = {fl["n"] for fl in rec["fields"] if (fl.get("t") or "") in SCALAR_TYPES}
        arrs = {fl["n"] for fl in rec["fields"] if "[" in (fl.get("t") or "")}
        flexible = {fl["n"] for fl in rec["fields"] if re.search(r"\[\]$", (fl.get("t") or "").strip())}
        info = {}
        for f, pi in fs:
            cl = FieldUse(state_aliases(f, pi), scal, arrs, prog, f.unit)
            r = ir.run_paths(f, cl)
            if r.truncated:
                raise AnalysisBroken("path exploration truncated in %s" % f.name)
            info[f.name] = cl
        # writes made by family helpers that are handed the state (beltMACStepG -> beltMACStepG_internal)
        callees = {}
        for f, pi in fs:
            ids = state_aliases(f, pi)
            for c in ir.calls(f.body):
                if c.get("callee") in info and c["callee"] != f.name and \
                        any(strip(a).get("k") == "Ref" and strip(a).get("id") in ids for a in c["a"]):
                    callees.setdefault(f.name, set()).add(c["callee"])

        def closure(name):
            seen, work = set(), [name]
            while work:
                x = work.pop()
                for y in callees.get(x, ()):
                    if y not in seen:
                        seen.add(y)
                        work.append(y)
            return seen
        live_fields = {F for g, cl in info.items() if not GET.search(g) and not g.endswith("_internal") for F in cl.arr_exposed}
        for f, pi in gets:
            n += 1
            for h in closure(f.name):
                for F, wl in info[h].written.items():
                    info[f.name].written.setdefault(F, wl)
            if f.name in GENERATORS:
                res.proved(rule, function=f.name, file=rel, line=f.line, construct="generator step",
                           detail="not an observation step: " + GENERATORS[f.name], nontrivial=False)
                continue
            # array fields: a Get may write scratch copies, the dead tail of the block buffer beyond the fill mark, and
            # may modify a live field only inside a save / restore pair through a scratch copy
            members = [f.name] + sorted(closure(f.name))
            arr_w = {}
            copies = []
            for h in members:
                for F, evs in info[h].arr_written.items():
                    arr_w.setdefault(F, []).extend((k_, l_, h) for k_, l_ in evs)
                copies += [(d_, s_, l_, h) for d_, s_, l_ in info[h].copies]
            abad = []
            for F, evs in sorted(arr_w.items()):
                if F in flexible or all(k_ == "tail" for k_, _, _ in evs):
                    continue
                live_in = sorted(g for g, cl in info.items() if F in cl.arr_exposed and not GET.search(g) and
                                 not g.endswith("_internal"))
                if not live_in:
                    continue          # a working copy: no Start/Step function reads it before writing it
                saved = [c_ for c_ in copies if c_[1] == F and c_[0] not in live_fields]
                restored = [c_ for c_ in copies if c_[0] == F and c_[1] in {x[0] for x in saved}]
                other = [e_ for e_ in evs if e_[0] != "tail" and not any(e_[1] == r_[2] and e_[2] == r_[3] for r_ in restored)]
                if saved and restored and all(max(r_[2] for r_ in restored if r_[3] == e_[2]) >= e_[1]
                                              for e_ in other if any(r_[3] == e_[2] for r_ in restored)) and \
                        all(any(r_[3] == e_[2] for r_ in restored) for e_ in other):
                    continue          # saved to a scratch field first, restored after the last modification
                abad.append((F, min(l_ for _, l_, _ in evs), live_in))
            for F, wl, readers in abad:
                res.violation(rule, function=f.name, file=rel, line=wl, construct="write into %s->%s in a Get step" % (sn, F),
                              detail="%s (or its helper) modifies the array field `%s` of the running state -- not beyond the fill "
                                     "mark and not inside a save/restore pair -- and %s read(s) it before writing: continuing after "
                                     "the Get gives a different result" % (f.name, F, ", ".join(readers[:3])))
            bad = []
            for F, wl in sorted(info[f.name].written.items()):
                readers = sorted(g for g, cl in info.items() if F in cl.exposed and g != f.name and g not in closure(f.name))
                if readers:
                    bad.append((F, wl, readers))
            if abad and not bad:
                continue
            if bad:
                for F, wl, readers in bad:
                    res.violation(rule, function=f.name, file=rel, line=wl, construct="write of %s->%s in a Get step" % (sn, F),
                                  detail="%s writes the scalar state field `%s`, which %s read(s) before writing: whatever "
                                         "follows the Get now depends on whether it was called (get-then-continue differs from "
                                         "never having called it)" % (f.name, F, ", ".join(readers[:4])))
            else:
                res.proved(rule, function=f.name, file=rel, line=f.line,
                           construct="writes %d scalar field(s) of %s" % (len(info[f.name].written), sn),
                           detail="no scalar field written here is read-before-written by a function of the family (%d functions, "
                                  "%d scalar fields)" % (len(fs), len(scal)))
    return n


# ---- R10.4 sibling Step functions buffer identically
# groups of Step functions over one state structure that implement the same `accumulate / complete / loop / tail`
# buffering for different data operations; confirmed identical on the reference tree
SIBLINGS = {
    "bash_prg_st": ["bashPrgAbsorbStep", "bashPrgSqueezeStep", "bashPrgEncrStep", "bashPrgDecrStep"],
    "belt_cfb_st": ["beltCFBStepE", "beltCFBStepD"],
    "belt_ecb_st": ["beltECBStepE", "beltECBStepD"],
    "belt_bde_st": ["beltBDEStepE", "beltBDEStepD"],
    # the same buffering over different state structures with the same field names (round 4; seed C10-5 showed that a
    # Step without a sibling in its own family was not compared with anything)
    "bash sponge buffer (pos, buf_len)": ["bashHashStepH", "bashPrgAbsorbStep"],
    "belt 32-octet block buffer (filled)": ["beltHashStepH", "beltHMACStepA"],
    "belt AEAD associated data (filled)": ["beltDWPStepA", "beltCHEStepA"],
    "belt AEAD ciphertext for the tag (filled)": ["beltDWPStepI", "beltCHEStepI"],
    "belt keystream reserve (reserved)": ["beltCFBStepE", "beltCTRStepE", "beltCHEStepE"],
    "brng output reserve (reserved)": ["brngCTRStepR", "brngHMACStepR"],
}


def _canon(e, names, ids):
    e = strip(e)
    if not isinstance(e, dict):
        return str(e)
    k = e.get("k")
    if k == "Ref":
        if e.get("id") in ids:
            return "ST"
        if e.get("rk") == "local":
            syms = names.get("#syms") or {}
            depth = names.get("#depth", 0)
            d = syms.get(e["id"])
            if d is not None and not e.get("p") and depth < 6 and strip(d).get("k") not in ("Call", "Cond"):
                # a helper local assigned once stands for its defining expression (room = buf_len - st->pos)
                names["#depth"] = depth + 1
                try:
                    return "(%s)" % _canon(d, names, ids)
                finally:
                    names["#depth"] = depth
            return names.setdefault(e["id"], "L%d" % len([k_ for k_ in names if not isinstance(k_, str)]))
        if e.get("rk") == "param":
            return "P:" + ("buf" if e.get("p") else e["n"])
        return e["n"]
    if k == "Int":
        return str(e.get("v"))
    if k == "Member":
        return _canon(e["b"], names, ids) + "." + e["f"]
    if k == "Call":
        return "call"
    if k == "Bin":
        return "(%s %s %s)" % (_canon(e["x"], names, ids), e["op"], _canon(e["y"], names, ids))
    if k == "Un":
        return "(%s %s)" % (e["op"], _canon(e["e"], names, ids))
    if k == "Index":
        return _canon(e["b"], names, ids) + "[]"
    if k == "Cond":
        return "(?: %s %s %s)" % tuple(_canon(e[x], names, ids) for x in ("c", "x", "y"))
    return k or "?"


def _lin_terms(e, names, ids, sign=1, acc=None):
    """e as a sum of atoms with integer coefficients: {canonical atom text: coefficient, "": constant}"""
    if acc is None:
        acc = {}
    e = strip(e)
    if isinstance(e, dict):
        k = e.get("k")
        if k == "Int" and ir.int_val(e) is not None:
            acc[""] = acc.get("", 0) + sign * ir.int_val(e)
            return acc
        if k == "Bin" and e["op"] in ("+", "-") and not strip(e["x"]).get("p"):
            _lin_terms(e["x"], names, ids, sign, acc)
            _lin_terms(e["y"], names, ids, sign if e["op"] == "+" else -sign, acc)
            return acc
        if k == "Bin" and e["op"] == "*":
            for a, b in ((e["x"], e["y"]), (e["y"], e["x"])):
                if ir.int_val(a) is not None:
                    _lin_terms(b, names, ids, sign * ir.int_val(a), acc)
                    return acc
        if k == "Ref" and e.get("rk") == "local" and not e.get("p"):
            d = (names.get("#syms") or {}).get(e["id"])
            depth = names.get("#depth", 0)
            if d is not None and depth < 6 and strip(d).get("k") not in ("Call", "Cond"):
                names["#depth"] = depth + 1
                try:
                    return _lin_terms(d, names, ids, sign, acc)
                finally:
                    names["#depth"] = depth
    t = _canon(e, names, ids)
    acc[t] = acc.get(t, 0) + sign
    return acc


def _fmt_terms(t):
    return " ".join("%+d*%s" % (c, a) if a else "%+d" % c for a, c in sorted(t.items()) if c != 0) or "0"


def _canon_cond(c, names, ids, out, line):
    """normal form of a branch condition, independent of how the arithmetic is spelled: comparisons become
    `sum <= 0` / `sum == 0` / `sum != 0` over collected terms (a < b is a + 1 <= b over the integers), truth tests
    become `x != 0`, an assignment inside the condition is emitted as an update first"""
    c = strip(c)
    if not isinstance(c, dict):
        return str(c)
    k = c.get("k")
    if k == "Un" and c["op"] == "!":
        inner = _canon_cond(c["e"], names, ids, out, line)
        return "not(%s)" % inner
    if k == "Bin" and c["op"] in ("&&", "||"):
        return "(%s %s %s)" % (_canon_cond(c["x"], names, ids, out, line), c["op"], _canon_cond(c["y"], names, ids, out, line))
    if k == "Bin" and c["op"] in ir.ASSIGN_OPS and field_of(c["x"], ids):
        out.append(("set " + _canon_set(c, names, ids), line))
        return _canon_cond(c["y"] if c["op"] == "=" else c["x"], names, ids, out, line)
    if k == "Bin" and c["op"] in ("<", "<=", ">", ">=", "==", "!=") and not strip(c["x"]).get("p") and not strip(c["y"]).get("p"):
        op = c["op"]
        x, y = c["x"], c["y"]
        if op in (">", ">="):
            x, y, op = y, x, "<" if op == ">" else "<="
        t = _lin_terms(x, names, ids, 1)
        _lin_terms(y, names, ids, -1, t)
        if op == "<":
            t[""] = t.get("", 0) + 1
            op = "<="
        if op in ("==", "!="):
            # sign convention: first non-zero coefficient positive
            lead = next((cf for a, cf in sorted(t.items()) if cf != 0), 1)
            if lead < 0:
                t = {a: -cf for a, cf in t.items()}
        return "[%s %s 0]" % (_fmt_terms(t), op)
    if k in ("Ref", "Member", "Index", "Call") or (k == "Bin" and c["op"] not in ("&&", "||")):
        return "[%s != 0]" % _fmt_terms(_lin_terms(c, names, ids, 1))
    return _canon(c, names, ids)


def _canon_set(n, names, ids):
    """`F op= e` as `F = sum`"""
    lhs = _canon(n["x"], names, ids)
    op = n["op"]
    if op == "=":
        return "%s = %s" % (lhs, _fmt_terms(_lin_terms(n["y"], names, ids, 1)))
    if op in ("+=", "-="):
        t = _lin_terms(n["x"], names, ids, 1)
        _lin_terms(n["y"], names, ids, 1 if op == "+=" else -1, t)
        return "%s = %s" % (lhs, _fmt_terms(t))
    return "%s %s %s" % (lhs, op, _canon(n["y"], names, ids))


def skeleton(f, pidx, prog=None):
    """the buffering skeleton of a Step function: its branch/loop conditions and its updates of scalar state fields, in
    order, with locals renamed and the data operations (calls) abstracted"""
    ids = state_aliases(f, pidx)
    from . import vp
    names, out = {"#syms": vp.single_assign_syms(f)}, []
    # array fields of the state that some branch condition looks at: where they are updated relative to the test
    # belongs to the skeleton (other array writes are the data operation, which differs between siblings by design)
    tested = set()
    for s_ in walk(f.body):
        if s_.get("k") in ("If", "While", "Do", "For") and isinstance(s_.get("c"), dict):
            for n_ in walk(s_["c"]):
                if n_.get("k") in ("Member", "Index"):
                    F_ = field_of(n_, ids)
                    if F_:
                        tested.add(F_)

    def rec(s):
        if not isinstance(s, dict):
            return
        k = s.get("k")
        if k == "If":
            cc = _canon_cond(s["c"], names, ids, out, s.get("l"))
            out.append(("if " + cc, s.get("l")))
            rec(s.get("then"))
            if s.get("else"):
                out.append(("else", s.get("l")))
                rec(s["else"])
        elif k in ("While", "Do", "For"):
            pre = []
            cc = _canon_cond(s["c"], names, ids, pre, s.get("l")) if s.get("c") else ""
            out.append(("loop " + cc, s.get("l")))
            out.extend(pre)
            rec(s.get("body"))
        elif k == "Block":
            for x in s.get("b", []):
                rec(x)
        elif k == "Return":
            out.append(("return", s.get("l")))
        else:
            for n in walk(s):
                if n.get("k") == "Bin" and n["op"] in ir.ASSIGN_OPS and strip(n["x"]).get("k") == "Member" and field_of(n["x"], ids):
                    out.append(("set " + _canon_set(n, names, ids), n.get("l")))
                elif n.get("k") == "Bin" and n["op"] in ir.ASSIGN_OPS and strip(n["x"]).get("k") in ("Index", "Un") and field_of(n["x"], ids):
                    # an element of an array field updated in place (the length counters of the AEAD states): where this
                    # happens relative to the tests is part of the skeleton; consecutive updates of one field count once
                    ev = "upd ST.%s[]" % field_of(n["x"], ids)
                    if field_of(n["x"], ids) in tested and (not out or out[-1][0] != ev):
                        out.append((ev, n.get("l")))
                elif n.get("k") == "Call" and tested and prog is not None and n.get("callee") != "utilAssert":
                    proto = prog.proto(n.get("callee"), f.unit) if n.get("callee") else None
                    for i, a in enumerate(n["a"]):
                        if proto is not None and i < len(proto.params) and proto.params[i].get("pc"):
                            continue
                        acc = array_access(a, ids, tested, ()) if strip(a).get("p") else None
                        if acc is not None:
                            ev = "upd ST.%s[]" % acc[0]
                            if not out or out[-1][0] != ev:
                                out.append((ev, n.get("l")))
    rec(f.body)
    return out


def check_sibling_steps(prog, res, rule):
    allf = {f.name: (f, pi) for (rel, sn), fs_ in families(prog).items() for f, pi in fs_}
    n = 0
    for sn, names in sorted(SIBLINGS.items()):
        fs = {x: allf[x] for x in names if x in allf}
        missing = [x for x in names if x not in fs]
        if missing:
            raise AnalysisBroken("sibling Step functions %s of %s vanished" % (missing, sn))
        sk = {x: skeleton(fs[x][0], fs[x][1], prog) for x in names}
        ref = names[0]
        texts = {x: [t for t, _ in sk[x]] for x in names}
        # the majority form is the reference; with two siblings the first one
        counts = {}
        for x in names:
            counts.setdefault(tuple(texts[x]), []).append(x)
        major = max(counts.values(), key=len)
        ref = major[0]
        for x in names:
            n += 1
            f = fs[x][0]
            if texts[x] == texts[ref]:
                res.proved(rule, function=x, file=f.relfile, line=f.line, construct="buffering skeleton of %d step(s)" % len(texts[x]),
                           detail="identical to its sibling(s) %s" % ", ".join(y for y in names if y != x))
            else:
                i = next((k for k in range(min(len(texts[x]), len(texts[ref]))) if texts[x][k] != texts[ref][k]),
                         min(len(texts[x]), len(texts[ref])))
                mine = sk[x][i] if i < len(sk[x]) else ("(end)", f.line)
                theirs = texts[ref][i] if i < len(texts[ref]) else "(end)"
                res.violation(rule, function=x, file=f.relfile, line=mine[1] or f.line,
                              construct="`%s` where %s has `%s`" % (mine[0][:60], ref, theirs[:60]),
                              detail="%s and %s implement the same partial-block buffering over %s for different data "
                                     "operations; their conditions / state updates differ at step %d: one of them splits the "
                                     "data differently, so the result depends on the fragmentation" % (x, ref, sn, i + 1))
    return n


# ---- SD.g: the initialiser of a state sets every scalar field that the other functions read before writing
WHOLE_WRITERS = ("memSetZero", "memSet", "memCopy", "memMove", "memWipe")
INIT_NAME = re.compile(r"Start\d?$|Init$|Create$")


class InitUse(ir.Client):
    """path state: scalar fields certainly written so far.  Collects the fields read before written (`exposed`) and,
    at the exits that do not report failure, the fields written on every path (`must`)."""

    def __init__(self, f, ids, scalars, summaries, ret_t):
        self.f, self.ids, self.sc, self.sum = f, ids, frozenset(scalars), summaries
        self.exposed = {}
        self.must = None
        self.ret_t = ret_t
        self.exits = 0

    def init(self, func):
        return frozenset()

    def _is_state(self, a):
        a = strip(a)
        return isinstance(a, dict) and a.get("k") == "Ref" and a.get("id") in self.ids

    def eval(self, e, st, env, node):
        w = set(st)

        def rec(n):
            if not isinstance(n, dict):
                return
            k = n.get("k")
            if k == "Call":
                if n.get("callee") == "utilAssert":
                    return
                for a in n["a"]:
                    if not self._is_state(a):
                        rec(a)
                if any(self._is_state(a) for a in n["a"]):
                    cn = n.get("callee")
                    if cn in WHOLE_WRITERS and self._is_state(n["a"][0]):
                        w.update(self.sc)
                    elif cn in self.sum:
                        ex, must = self.sum[cn]
                        for F, ln in ex.items():
                            if F not in w:
                                self.exposed.setdefault(F, n.get("l") or node.line)
                        w.update(must)
                return
            if k == "Bin" and n["op"] in ir.ASSIGN_OPS:
                rec(n["y"])
                F = field_of(n["x"], self.ids)
                if F in self.sc and strip(n["x"]).get("k") == "Member":
                    if n["op"] != "=" and F not in w:
                        self.exposed.setdefault(F, n.get("l") or node.line)
                    w.add(F)
                else:
                    rec(n["x"])
                return
            if k == "Un" and n["op"] in ("pre++", "pre--", "post++", "post--"):
                F = field_of(n["e"], self.ids)
                if F in self.sc and strip(n["e"]).get("k") == "Member":
                    if F not in w:
                        self.exposed.setdefault(F, n.get("l") or node.line)
                    w.add(F)
                    return
            if k == "Un" and n["op"] == "&":
                F = field_of(n["e"], self.ids)
                if F in self.sc and strip(n["e"]).get("k") == "Member":
                    w.add(F)          # handed out as an out-parameter
                    return
            if k == "Member":
                F = field_of(n, self.ids)
                if F in self.sc and strip(n).get("f") == F:
                    if F not in w:
                        self.exposed.setdefault(F, n.get("l") or node.line)
                    return
            for c in ir.kids(n):
                rec(c)
        rec(e)
        return frozenset(w)

    def assume(self, c, pol, st, env, node):
        return st

    def ret(self, e, st, env, node):
        # exits that report failure leave a state nobody may use
        if e is not None:
            v = ir.eval_abs(e, env)
            if v is not ir.TOP and v[0] == "c":
                if self.ret_t == "bool_t" and v[1] == 0:
                    return st
                if self.ret_t == "err_t" and v[1] != 0:
                    return st
        self.exits += 1
        self.must = set(st) if self.must is None else (self.must & set(st))
        return st


def check_start_initialises(prog, res, rule, prefix="src/"):
    """every initialiser of a state family (a *Start function that reads no scalar field before writing it) writes, on
    every path to a successful exit, each scalar field that some other function of the family reads before writing"""
    n_obl = 0
    from . import c07fx
    for (rel, sn), fs in sorted(c07fx.state_families(prog).items()):
        rec = prog.records.get(sn)
        if rec is None:
            continue
        scal = {fl["n"] for fl in rec["fields"] if (fl.get("t") or "") in SCALAR_TYPES and not fl.get("count")}
        if not scal:
            continue
        byname = {f.name: (f, ids) for f, ids in fs}
        callees = {}
        for f, ids in fs:
            for c in ir.calls(f.body):
                if c.get("callee") in byname and c["callee"] != f.name and \
                        any(strip(a).get("k") == "Ref" and strip(a).get("id") in ids for a in c["a"]):
                    callees.setdefault(f.name, set()).add(c["callee"])
        summaries, order, seen = {}, [], set()

        def visit(nm, stack=()):
            if nm in seen or nm in stack:
                return
            for y in sorted(callees.get(nm, ())):
                visit(y, stack + (nm,))
            seen.add(nm)
            order.append(nm)
        for nm in sorted(byname):
            visit(nm)
        info = {}
        for nm in order:
            f, ids = byname[nm]
            cl = InitUse(f, ids, scal, summaries, (f.d.get("ret") or {}).get("t"))
            r = ir.run_paths(f, cl)
            if r.truncated:
                raise AnalysisBroken("path exploration truncated in %s" % nm)
            info[nm] = cl
            summaries[nm] = (dict(cl.exposed), set(cl.must or ()))
        inits = [nm for nm in order if INIT_NAME.search(nm) and not info[nm].exposed]
        if not inits:
            continue
        need = {}
        for nm in order:
            if nm in inits:
                continue
            for F, ln in info[nm].exposed.items():
                need.setdefault(F, (nm, ln))
        for nm in inits:
            f, _ = byname[nm]
            missing = sorted(F for F in need if F not in info[nm].must)
            n_obl += len(need)
            if missing:
                for F in missing:
                    g, ln = need[F]
                    res.violation(rule, function=nm, file=rel, line=f.line, construct="%s->%s left unset" % (sn, F),
                                  detail="%s can return success without having written the field `%s`, which %s (line %d) reads "
                                         "before writing: the value then comes from whatever the state memory held" % (nm, F, g, ln))
            else:
                res.proved(rule, function=nm, file=rel, line=f.line,
                           construct="sets %d of %d scalar fields of %s" % (len(info[nm].must), len(scal), sn),
                           detail="every scalar field read before written by another function of the family (%s) is written on "
                                  "every successful path" % (", ".join(sorted(need)) or "none"), nontrivial=bool(need))
    return n_obl
