"""C07 rule SD.f: accesses to arrays of constant extent stay inside them (see sa/fx.py for the analysis).

Verdict per access site (function, line, expression), from three runs of the interval analysis:
  inside     the path-separated run or the joined run proves the touched octets lie in the object
             (the value range of narrow unsigned types may be used here: it can only make a proof possible);
  VIOLATION  both the path-separated run and the joined run (widening at loop heads, narrowing by the loop tests),
             neither using type ranges, say the touched octets may lie outside.  The joined run does not count loop
             iterations, so a bound that exists only because a sentinel loop was unrolled is not a ground of a report;
             the path-separated run does not merge branches, so a bound that exists only because two branches were
             merged is not one either;
  undecided  otherwise (index bounded by a run-time length or by a state field): counted, not reported."""
import os
from . import ir, fx
from .ir import AnalysisBroken
from .frontend import VERIF

RULE = "SD.f-fixed-extent-array-access"
SELFTEST = os.path.join(VERIF, "selftest", "fx_positive.c")
EXPECT = {"bad_carry": "violation", "good_carry": "inside", "bad_fill": "violation", "good_fill": "inside",
          "sentinel": "undecided"}


def _verdicts(A):
    return {k: ("violation" if "violation" in vs else "undecided" if "undecided" in vs else "inside")
            for k, vs in A.acc.items()}


def analyse(f, types):
    """{(line, text): (verdict, detail)} for one function"""
    DS = fx.FxAnalyzer(f, types, soft=True).run()
    ds = _verdicts(DS)
    out = {}
    if all(v == "inside" for v in ds.values()):
        return {k: ("inside", None) for k in ds}, DS.truncated
    DH = fx.FxAnalyzer(f, types, soft=False).run()
    KH = fx.FxAnalyzer(f, types, soft=False).run_classic()
    KS = fx.FxAnalyzer(f, types, soft=True).run_classic()
    dh, kh, ks = _verdicts(DH), _verdicts(KH), _verdicts(KS)
    for k in ds:
        if ds[k] == "inside" or ks.get(k) == "inside":
            out[k] = ("inside", None)
        elif dh.get(k) == "violation" and kh.get(k) == "violation":
            out[k] = ("violation", KH.detail.get(k) or DH.detail.get(k))
        else:
            out[k] = ("undecided", DS.detail.get(k))
    return out, (DS.truncated or DH.truncated or KH.truncated or KS.truncated)


def _types(prog):
    return fx.Types({"typedefs": list(prog.typedefs.values()), "records": list(prog.records.values())})


def selftest(config):
    prog = ir.Program(config, units=[SELFTEST], tag=config + "-fxself")
    types = _types(prog)
    seen = {}
    for f in prog.all_funcs():
        if f.body is None or f.name not in EXPECT:
            continue
        r, _ = analyse(f, types)
        vs = [v for v, _ in r.values()]
        seen[f.name] = "violation" if "violation" in vs else "undecided" if "undecided" in vs else "inside" if vs else "none"
    for name, want in EXPECT.items():
        if seen.get(name) != want:
            raise AnalysisBroken("SD.f self-test: %s is %s, expected %s" % (name, seen.get(name), want))
    return len(EXPECT)


def check_fixed_extent(res, config, floor):
    n_self = selftest(config)
    prog = ir.Program(config)
    types = _types(prog)
    inside = undecided = funcs = 0
    und_sites = []
    for f in prog.all_funcs():
        if f.body is None:
            continue
        r, trunc = analyse(f, types)
        if not r:
            continue
        funcs += 1
        ni = sum(1 for v, _ in r.values() if v == "inside")
        nu = sum(1 for v, _ in r.values() if v == "undecided")
        inside += ni
        undecided += nu
        for (line, text), (v, d) in sorted(r.items()):
            if v == "violation":
                obj, size, lo, hi = d
                res.violation(RULE, function=f.name, file=f.relfile, line=line, construct="%s in %s" % (text, obj.split(":", 1)[1]),
                              detail="[%s] the array has %d octets; the access may touch octets %s..%s of it (the bounds "
                                     "come from the constants and tests of this function)" % (config, size, lo, "?" if hi is None else hi - 1))
            elif v == "undecided":
                und_sites.append("%s:%d %s %s" % (f.relfile, line, f.name, text))
        if ni:
            res.proved(RULE, function=f.name, file=f.relfile, line=f.line, construct="[%s] %d access site(s) inside" % (config, ni),
                       detail="%d site(s) of this function are indexed by run-time lengths or state fields and are not decided" % nu if nu
                       else "every access of this function to an array of constant extent is inside it", nontrivial=ni > 0)
    res.floor("SD.f access sites proved inside [%s]" % config, inside, floor)
    res.coverage.setdefault("fixed_extent", {})[config] = {
        "functions_with_accesses": funcs, "sites_inside": inside, "sites_not_decided": undecided,
        "selftest_functions": n_self, "not_decided_examples": und_sites[:40]}
    return inside, undecided
