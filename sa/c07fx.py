"""C07 rule SD.f: accesses to arrays of constant extent stay inside them (see sa/fx.py for the analysis).

Verdict per access site (function, line, expression), from three runs of the interval analysis:
  inside     the path-separated run or the joined run proves the touched octets lie in the object
             (the value range of narrow unsigned types may be used here: it can only make a proof possible);
  VIOLATION  both the path-separated run and the joined run (widening at loop heads, narrowing by the loop tests),
             neither using type ranges, say the touched octets may lie outside.  The joined run does not count loop
             iterations, so a bound that exists only because a sentinel loop was unrolled is not a ground of a report;
             the path-separated run does not merge branches, so a bound that exists only because two branches were
             merged is not one either;
  undecided  otherwise (index bounded by a run-time length or by a state field): counted, not reported."""
import os
from . import ir, fx
from .ir import AnalysisBroken
from .frontend import VERIF

RULE = "SD.f-fixed-extent-array-access"
LAST_PROG = {}
SELFTEST = os.path.join(VERIF, "selftest", "fx_positive.c")
EXPECT = {"bad_carry": "violation", "good_carry": "inside", "bad_fill": "violation", "good_fill": "inside",
          "sentinel": "undecided", "bad_wrap_len": "violation", "good_wrap_len": "inside",
          "bad_wrap_arg": "violation", "good_wrap_arg": "inside"}


def _verdicts(A):
    return {k: ("violation" if "violation" in vs else "undecided" if "undecided" in vs else "inside")
            for k, vs in A.acc.items() if k[0] not in ("#definite", "#wrapped")}


def _definite(A):
    """sites where some path state overruns with its lower bounds alone (every execution reaching it does)"""
    return {k[1:] for k in A.acc if k[0] == "#definite"}


def struct_pointers(f, stt, prog, skip=()):
    """{variable id: (group, record)} for the structure pointers of f other than its family state"""
    from . import sb
    out = {}
    for pi, rn in (stt.get(f.name) or {}).items():
        if pi < 0 or rn not in prog.records:
            continue
        ids = sb.state_aliases(f, pi)
        if ids & set(skip):
            continue
        for i in ids:
            out[i] = (pi, rn)
    return out


DOC_EXT = {}
WRAP_SITES = set()     # statements `x = P - k` on an unvalidated documented length P that were split into P >= k / P < k


def doc_extents(f, types):
    """{parameter id: (name, extent in elements as a linear form over parameter ids, octets per element)} from the header"""
    d = DOC_EXT.get(f.name)
    if not d or f.static:
        return {}
    ids = {p["n"]: p["id"] for p in f.params}
    out = {}
    for p in f.params:
        l = d.get(p["n"])
        if l is None or not p.get("p") or any(k and k not in ids for k in l):
            continue
        t = types.canon(p.get("t") or "")
        pt = types.pointee(t) or ""
        esz = 1 if pt in ("void", "") else types.sizeof(pt)
        if not esz:
            continue
        out[p["id"]] = (p["n"], ({ids[k]: c for k, c in l.items() if k}, l.get("", 0)), esz)
    return out


def analyse(f, types, state_ids=None, inv=None, post=None, inv_hard=None, post_hard=None, other=None, rec=None):
    """{(line, text): (verdict, detail)} for one function.  inv / post: the invariant of the state fields proved for
    the family, assumed at entry and after calls into the family (inv_hard: the same, inferred without type ranges,
    for the runs a report may rest on)."""
    kw = dict(state_ids=state_ids, other_ptrs=other, state_rec=rec, sym_ext=doc_extents(f, types))
    fs_, fh_ = (inv or {}).get("#facts", ()), (inv_hard or {}).get("#facts", ())
    inv = {k: v for k, v in (inv or {}).items() if k != "#facts"}
    inv_hard = {k: v for k, v in (inv_hard or {}).items() if k != "#facts"}
    DS = fx.FxAnalyzer(f, types, soft=True, entry_fields=inv, callee_post=post, entry_facts=fs_, **kw).run()
    ds = _verdicts(DS)
    for line, pn, kc in sorted(DS.wrap_sites):
        WRAP_SITES.add("%s:%d %s: %s - %d" % (ir.relpath(f.file), line, f.name, pn, kc))
    out = {}
    if all(v == "inside" for v in ds.values()):
        return {k: ("inside", None) for k in ds}, DS.truncated
    DH = fx.FxAnalyzer(f, types, soft=False, entry_fields=inv_hard, callee_post=post_hard, entry_facts=fh_, **kw).run()
    KH = fx.FxAnalyzer(f, types, soft=False, entry_fields=inv_hard, callee_post=post_hard, entry_facts=fh_, **kw).run_classic()
    KS = fx.FxAnalyzer(f, types, soft=True, entry_fields=inv, callee_post=post, entry_facts=fs_, **kw).run_classic()
    dh, kh, ks = _verdicts(DH), _verdicts(KH), _verdicts(KS)
    dfn = _definite(DH) | {k[1:] for k in DH.acc if k[0] == "#wrapped"}
    for k in ds:
        if ds[k] == "inside" or ks.get(k) == "inside":
            out[k] = ("inside", None)
        elif dh.get(k) == "violation" and (kh.get(k) == "violation" or k in dfn):
            out[k] = ("violation", (KH.detail.get(k) if kh.get(k) == "violation" else None) or DH.detail.get(k))
        else:
            out[k] = ("undecided", DS.detail.get(k))
    return out, (DS.truncated or DH.truncated or KH.truncated or KS.truncated)


def state_families(prog):
    """{(unit, record): [(function, ids of the variables holding the state pointer)]} for the records that are private
    to one .c file (state structures laid over a `void* state`, or passed to static helpers by their type)"""
    from . import c14, sb
    stt = c14.state_types(prog)
    fam = {}
    for f in prog.all_funcs():
        if f.body is None:
            continue
        for pi, rn in (stt.get(f.name) or {}).items():
            rec = prog.records.get(rn)
            if pi < 0 or rec is None or not ir.relpath(rec.get("file") or "").startswith("src/"):
                continue           # only structures private to the implementation (src/**/*.c, src/**/*_lcl.h)
            fam.setdefault((ir.relpath(rec["file"]), rn), []).append((f, sb.state_aliases(f, pi)))
    return fam


def field_writers(prog):
    """{(record, field): [(function, id of the base variable or None)]} for every store to a structure field"""
    out = {}
    for f in prog.all_funcs():
        if f.body is None:
            continue
        for n in ir.walk(f.body):
            tgt = None
            if n.get("k") == "Bin" and n.get("op") in ir.ASSIGN_OPS:
                tgt = n["x"]
            elif n.get("k") == "Un" and n.get("op") in ("pre++", "pre--", "post++", "post--", "&"):
                tgt = n["e"]
            while isinstance(tgt, dict) and tgt.get("k") in ("Paren", "Cast"):
                tgt = tgt["e"]
            if isinstance(tgt, dict) and tgt.get("k") == "Member" and tgt.get("rec"):
                b = ir.strip(tgt["b"])
                bid = b.get("id") if isinstance(b, dict) and b.get("k") == "Ref" and tgt.get("arrow") else None
                out.setdefault((tgt["rec"], tgt["f"]), []).append((f.name, bid))
    return out


def relation_candidates(members, fields):
    """pairs of fields that the family's code subtracts or compares: candidates  A - B <= -1  and  A - B <= 0"""
    pairs = set()
    for f, ids in members:
        for n in ir.walk(f.body):
            if n.get("k") == "Bin" and n.get("op") in ("-", "<", "<=", ">", ">="):
                fs = []
                for side in (n["x"], n["y"]):
                    m = ir.strip(side)
                    while isinstance(m, dict) and m.get("k") == "Paren":
                        m = ir.strip(m["e"])
                    b_ = ir.strip(m.get("b")) if isinstance(m, dict) and m.get("k") == "Member" and m.get("arrow") else None
                    if isinstance(b_, dict) and b_.get("k") == "Ref" and b_.get("id") in ids and m["f"] in fields:
                        fs.append(m["f"])
                if len(fs) == 2 and fs[0] != fs[1]:
                    pairs.add(tuple(sorted(fs)))
    out = []
    for a_, b_ in sorted(pairs):
        for x, y in ((a_, b_), (b_, a_)):
            for c in (-1, 0):
                out.append((((x, 1), (y, -1)), c))
    return tuple(out)


def infer_invariant(members, types, rec, writers=None, soft=True):
    """invariant of the integer fields of one state family, by assume/guarantee over its functions:
    base = the functions that set a field on every path whatever it was (the Start functions); step = every function,
    entered with the fields inside the invariant and with its family callees guaranteeing it, leaves them inside at
    every exit and at every call into the family.  Intervals per field, plus relations  A - B <= c  between two fields
    that the family's code itself compares.  Returns ({field: (lo, hi), "#facts": relations}, rounds)."""
    fields = [fd["n"] for fd in rec.get("fields", []) if fd.get("size") in (1, 2, 4, 8) and not fd.get("p") and not fd.get("count")]
    if writers is not None:
        # a field that is also stored to (or whose address is taken) outside the family, or through something other
        # than the family's state pointers, has no invariant here
        idsof = {f.name: ids for f, ids in members}
        fields = [fl for fl in fields if all(fn in idsof and bid in idsof[fn] for fn, bid in writers.get((rec["n"], fl), []))]
    if not fields:
        return {}, 0
    names = {f.name for f, _ in members}
    cands = relation_candidates(members, set(fields))
    base, facts = {}, set()
    for f, ids in members:
        A = fx.FxAnalyzer(f, types, soft=soft, state_ids=ids, candidates=cands).run()
        for fl, v in (A.exit_fields or {}).items():
            if fl in fields and v[0] is not None and v[1] is not None:
                base[fl] = v if fl not in base else fx.iv_hull(base[fl], v)
        if A.exit_fields is not None:
            facts |= {c for c, ok in A.cand_ok.items() if ok}
    inv = dict(base)
    rounds = 0
    while (inv or facts) and rounds < 8:
        rounds += 1
        fl_facts = tuple(sorted(facts))
        post = {n: dict(inv, **{"#facts": fl_facts}) for n in names}
        new, newf = dict(inv), set(facts)
        for f, ids in members:
            A = fx.FxAnalyzer(f, types, soft=soft, state_ids=ids, entry_fields=inv, callee_post=post,
                              entry_facts=fl_facts, candidates=fl_facts).run()
            ex = A.exit_fields
            if ex is None:
                continue          # no exit reached (cannot happen for terminating code)
            for fl in list(new):
                v = ex.get(fl)
                if v is None or v[0] is None or v[1] is None:
                    del new[fl]
                else:
                    new[fl] = fx.iv_hull(new[fl], v)
            newf = {c for c in newf if A.cand_ok.get(c)}
        if new == inv and newf == facts:
            break
        # a bound that moved twice is not an invariant of this shape
        if rounds >= 4:
            new = {fl: v for fl, v in new.items() if inv.get(fl) == v}
        inv, facts = new, newf
    out = dict(inv)
    if facts:
        out["#facts"] = tuple(sorted(facts))
    return out, rounds


def _types(prog):
    fx.PROTO_OF = lambda name: prog.funcs.get(name) or prog.protos.get(name)
    return fx.Types({"typedefs": list(prog.typedefs.values()), "records": list(prog.records.values())})


def selftest(config):
    prog = ir.Program(config, units=[SELFTEST], tag=config + "-fxself")
    types = _types(prog)
    seen = {}
    saved = dict(DOC_EXT)
    DOC_EXT.update({"bad_wrap_len": {"in": {"in_len": 1}}, "good_wrap_len": {"in": {"in_len": 1}},
                    "bad_wrap_arg": {"in": {"in_len": 1}}, "good_wrap_arg": {"in": {"in_len": 1}},
                    "fx_sink": {"buf": {"count": 1}}})
    saved_doc_of, fx.DOC_OF = fx.DOC_OF, (lambda name: DOC_EXT.get(name))
    for f in prog.all_funcs():
        if f.body is None or f.name not in EXPECT:
            continue
        r, _ = analyse(f, types)
        vs = [v for v, _ in r.values()]
        seen[f.name] = "violation" if "violation" in vs else "undecided" if "undecided" in vs else "inside" if vs else "none"
    DOC_EXT.clear()
    DOC_EXT.update(saved)
    fx.DOC_OF = saved_doc_of
    for name, want in EXPECT.items():
        if seen.get(name) != want:
            raise AnalysisBroken("SD.f self-test: %s is %s, expected %s" % (name, seen.get(name), want))
    return len(EXPECT)


def check_fixed_extent(res, config, floor):
    n_self = selftest(config)
    from . import docext
    global DOC_EXT
    DOC_EXT, doc_stats = docext.load(ir.REPO)
    fx.DOC_OF = lambda name: DOC_EXT.get(name)
    prog = ir.Program(config)
    LAST_PROG[config] = prog
    types = _types(prog)
    inside = undecided = funcs = 0
    und_sites = []
    fams = state_families(prog)
    ctx, invs = {}, {}
    writers = field_writers(prog)
    for (unit, rn), members in sorted(fams.items()):
        inv, rounds = infer_invariant(members, types, prog.records[rn], writers)
        invh, _ = infer_invariant(members, types, prog.records[rn], writers, soft=False)
        if inv:
            invs["%s %s" % (unit, rn)] = {k: (list(v) if k != "#facts" else
                                              ["%s <= %d" % (" ".join("%+d*%s" % (cf, fl) for fl, cf in t), c) for t, c in v])
                                          for k, v in sorted(inv.items())}
        post = {f.name: inv for f, _ in members}
        posth = {f.name: invh for f, _ in members}
        for f, ids in members:
            # a function over two state structures (none on the tree) keeps the first
            ctx.setdefault((f.relfile, f.name), (ids, inv, post, invh, posth, rn))
    from . import c14
    stt = c14.state_types(prog)
    for f in prog.all_funcs():
        if f.body is None:
            continue
        ids, inv, post, invh, posth, rn = ctx.get((f.relfile, f.name), (None, None, None, None, None, None))
        other = struct_pointers(f, stt, prog, skip=ids or ())
        r, trunc = analyse(f, types, ids, inv, post, invh, posth, other, rn)
        if not r:
            continue
        funcs += 1
        ni = sum(1 for v, _ in r.values() if v == "inside")
        nu = sum(1 for v, _ in r.values() if v == "undecided")
        inside += ni
        undecided += nu
        for (line, text), (v, d) in sorted(r.items()):
            if v == "violation" and isinstance(d[1], str):
                obj, size, lo, hi = d
                res.violation(RULE, function=f.name, file=f.relfile, line=line, construct="%s in %s" % (text, obj.split(":", 1)[1]),
                              detail="[%s] the header documents the buffer as %s; the tests made on this path bound the access only "
                                     "up to %s octet(s) beyond it" % (config, size, hi))
            elif v == "violation":
                obj, size, lo, hi = d
                res.violation(RULE, function=f.name, file=f.relfile, line=line, construct="%s in %s" % (text, obj.split(":", 1)[1]),
                              detail="[%s] the array has %d octets; the access may touch octets %s..%s of it (the bounds "
                                     "come from the constants and tests of this function)" % (config, size, lo, "?" if hi is None else hi - 1))
            elif v == "undecided":
                und_sites.append("%s:%d %s %s" % (f.relfile, line, f.name, text))
        if ni:
            res.proved(RULE, function=f.name, file=f.relfile, line=f.line, construct="[%s] %d access site(s) inside" % (config, ni),
                       detail="%d site(s) of this function are indexed by run-time lengths or state fields and are not decided" % nu if nu
                       else "every access of this function to an array of constant extent is inside it", nontrivial=ni > 0)
    res.floor("SD.f access sites proved inside [%s]" % config, inside, floor)
    res.coverage.setdefault("fixed_extent", {})[config] = {
        "functions_with_accesses": funcs, "sites_inside": inside, "sites_not_decided": undecided,
        "selftest_functions": n_self, "unvalidated_length_subtractions_split": sorted(x for x in WRAP_SITES if "selftest" not in x),
        "not_decided_examples": und_sites[:200],
        "state_families": len(fams), "state_field_invariants": invs}
    return inside, undecided
