"""Inlining of helper functions the rule tables have never seen.

A maintainer may move a block of a checked function into a new static helper (with out-parameters, early returns ..).
Rules that work inside one function would then lose what the block established.  Every static function of a unit that
is NOT in the reference signature table (tables/signatures.json: the functions that existed when the rules were
written) is therefore expanded at its call sites before the analyses run: parameters are replaced by the (side-effect
free) argument expressions, `*&x` is folded to `x`, locals get fresh ids, `return e` becomes `ret = e; goto end`.
Existing helpers are never inlined: rules and tables refer to them by name."""
import copy

FRESH = [50_000_000]
LAST_CANDIDATES = []      # names of the helpers expanded in the unit processed last
MAX_STMTS = 80


def _fresh():
    FRESH[0] += 1
    return FRESH[0]


def _walk(n):
    if isinstance(n, dict):
        yield n
        for v in n.values():
            yield from _walk(v)
    elif isinstance(n, list):
        for v in n:
            yield from _walk(v)


def _pure(e):
    """no side effects and cheap to duplicate"""
    for n in _walk(e):
        k = n.get("k")
        if k == "Call" or (k == "Bin" and n.get("op", "").endswith("=") and n["op"] not in ("==", "!=", "<=", ">=")) or \
                (k == "Un" and n.get("op") in ("pre++", "pre--", "post++", "post--")):
            return False
    return True


def _strip(e):
    while isinstance(e, dict) and e.get("k") in ("Paren",):
        e = e["e"]
    return e


def _fold(e):
    """*&x -> x ; (&x)->f -> x.f ; (&x)[0] -> x"""
    if isinstance(e, list):
        return [_fold(x) for x in e]
    if not isinstance(e, dict):
        return e
    e = {k: _fold(v) for k, v in e.items()}
    k = e.get("k")
    if k == "Un" and e.get("op") == "*":
        inner = _strip(e["e"])
        if isinstance(inner, dict) and inner.get("k") == "Un" and inner.get("op") == "&":
            return inner["e"]
    if k == "Member" and e.get("arrow"):
        b = _strip(e["b"])
        if isinstance(b, dict) and b.get("k") == "Un" and b.get("op") == "&":
            e = dict(e)
            e["b"], e["arrow"] = b["e"], False
    if k == "Index":
        b = _strip(e["b"])
        i = e.get("i")
        if isinstance(b, dict) and b.get("k") == "Un" and b.get("op") == "&" and isinstance(i, dict) and i.get("k") == "Int" and i.get("v") == 0:
            return b["e"]
    return e


def _subst(n, pmap, lmap, labels, ret_ref, end_label):
    if isinstance(n, list):
        return [_subst(x, pmap, lmap, labels, ret_ref, end_label) for x in n]
    if not isinstance(n, dict):
        return n
    k = n.get("k")
    if k == "Ref":
        if n.get("id") in pmap:
            return copy.deepcopy(pmap[n["id"]])
        if n.get("id") in lmap:
            m = dict(n)
            m["id"] = lmap[n["id"]]
            return m
        return dict(n)
    if k == "Decl":
        m = {kk: _subst(v, pmap, lmap, labels, ret_ref, end_label) for kk, v in n.items()}
        if n.get("id") in lmap:
            m["id"] = lmap[n["id"]]
        return m
    if k == "Return":
        out = []
        if n.get("e") is not None and ret_ref is not None:
            out.append({"k": "Bin", "op": "=", "l": n.get("l"), "t": ret_ref.get("t"), "x": dict(ret_ref),
                        "y": _subst(n["e"], pmap, lmap, labels, ret_ref, end_label)})
        elif n.get("e") is not None:
            out.append(_subst(n["e"], pmap, lmap, labels, ret_ref, end_label))
        out.append({"k": "Goto", "l": n.get("l"), "label": end_label})
        return {"k": "Block", "l": n.get("l"), "b": out}
    if k == "Goto":
        return dict(n, label=labels.get(n["label"], n["label"]))
    if k == "Label":
        m = {kk: _subst(v, pmap, lmap, labels, ret_ref, end_label) for kk, v in n.items()}
        m["label"] = labels.get(n["label"], n["label"])
        return m
    return {kk: _subst(v, pmap, lmap, labels, ret_ref, end_label) for kk, v in n.items()}


class Inliner:
    def __init__(self, unit_funcs, known):
        """unit_funcs: the function dicts of one unit; known(fd) -> True for functions of the reference tree"""
        self.cands = {}
        for fd in unit_funcs:
            if not fd.get("static") or fd.get("body") is None or fd.get("variadic") or known(fd):
                continue
            body = fd["body"]
            nst = sum(1 for n in _walk(body) if n.get("k") in ("If", "For", "While", "Do", "Return", "Switch", "Call", "Bin"))
            if nst > MAX_STMTS * 4:
                continue
            # parameters must not be assigned or have their address taken in the body (they are substituted)
            pids = {p["id"] for p in fd.get("params", [])}
            bad = False
            assigned = set()
            for n in _walk(body):
                if n.get("k") == "Bin" and n.get("op", "").endswith("=") and n["op"] not in ("==", "!=", "<=", ">="):
                    l = _strip(n["x"])
                    if isinstance(l, dict) and l.get("k") == "Ref" and l.get("id") in pids:
                        assigned.add(l["id"])
                if n.get("k") == "Un" and n.get("op") in ("&", "pre++", "pre--", "post++", "post--"):
                    l = _strip(n["e"])
                    if isinstance(l, dict) and l.get("k") == "Ref" and l.get("id") in pids:
                        assigned.add(l["id"])
                if n.get("k") == "Call" and n.get("callee") == fd["n"]:
                    bad = True          # recursive
            if not bad:
                fd["_assigned_params"] = assigned      # these get a local copy at the call site
                self.cands[fd["n"]] = fd
        self.count = 0

    # ---- expansion of one call
    def expand(self, call):
        fd = self.cands[call["callee"]]
        params = fd.get("params", [])
        if len(params) != len(call["a"]):
            return None
        impure = {p_["id"] for p_, a in zip(params, call["a"]) if not _pure(a)}     # evaluated once, into a local copy
        # an argument that reads a variable whose address is handed over in another argument is not stable
        addr = set()
        for a in call["a"]:
            a0 = _strip(a)
            if isinstance(a0, dict) and a0.get("k") == "Un" and a0.get("op") == "&" and isinstance(a0["e"], dict) and a0["e"].get("k") == "Ref":
                addr.add(a0["e"].get("id"))
        for a in call["a"]:
            a0 = _strip(a)
            if isinstance(a0, dict) and a0.get("k") == "Un" and a0.get("op") == "&":
                continue
            if any(n.get("k") == "Ref" and n.get("id") in addr for n in _walk(a)):
                return None
        pmap = {p["id"]: a for p, a in zip(params, call["a"])}
        copies = []
        for p_, a in zip(params, call["a"]):
            if p_["id"] in fd.get("_assigned_params", ()) or p_["id"] in impure:
                # the helper changes its parameter: it works on a local copy of the argument
                cid = _fresh()
                copies.append({"k": "Decls", "l": call.get("l"), "d": [{"k": "Decl", "id": cid, "n": "__%s_%s" % (fd["n"], p_["n"]),
                                                                        "t": p_.get("t"), "p": p_.get("p"), "pc": p_.get("pc"),
                                                                        "l": call.get("l"), "init": copy.deepcopy(a)}]})
                pmap[p_["id"]] = {"k": "Ref", "id": cid, "n": "__%s_%s" % (fd["n"], p_["n"]), "rk": "local", "t": p_.get("t"),
                                  "p": p_.get("p"), "pc": p_.get("pc"), "l": call.get("l")}
        lmap, labels = {}, {}
        for n in _walk(fd["body"]):
            if n.get("k") == "Decl" and n.get("id") is not None:
                lmap.setdefault(n["id"], _fresh())
            if n.get("k") == "Label":
                labels.setdefault(n["label"], "%s__%d" % (n["label"], _fresh()))
        end_label = "__end_%s_%d" % (fd["n"], _fresh())
        rt = (fd.get("ret") or {}).get("t")
        ret_ref, pre = None, []
        if rt and rt != "void":
            rid = _fresh()
            ret_ref = {"k": "Ref", "id": rid, "n": "__ret_%s" % fd["n"], "rk": "local", "t": rt, "l": call.get("l")}
            pre.append({"k": "Decls", "l": call.get("l"), "d": [{"k": "Decl", "id": rid, "n": ret_ref["n"], "t": rt, "l": call.get("l")}]})
        body = _fold(_subst(copy.deepcopy(fd["body"]), pmap, lmap, labels, ret_ref, end_label))
        body = self.stmt(body, depth=1)          # helpers that call further new helpers
        blk = {"k": "Block", "l": call.get("l"), "b": pre + copies + [body, {"k": "Label", "l": call.get("l"), "label": end_label,
                                                                  "sub": {"k": "Null", "l": call.get("l")}}]}
        self.count += 1
        return blk, ret_ref

    # ---- statements
    def _leftmost_call(self, e):
        """(container, key) of an inlinable call that is evaluated first and unconditionally in e"""
        parent, key, cur = None, None, e
        while isinstance(cur, dict):
            k = cur.get("k")
            if k == "Call":
                if cur.get("callee") in self.cands:
                    return parent, key
                return None
            if k in ("Paren", "Cast"):
                parent, key, cur = cur, "e", cur["e"]
            elif k == "Un" and cur.get("op") in ("!", "-", "~"):
                parent, key, cur = cur, "e", cur["e"]
            elif k == "Bin" and cur.get("op") in ("&&", "||", "==", "!=", "<", "<=", ">", ">=", "="):
                if cur["op"] == "=":
                    parent, key, cur = cur, "y", cur["y"]
                else:
                    parent, key, cur = cur, "x", cur["x"]
            else:
                return None
        return None

    def _hoist(self, holder, field):
        """expand the leftmost call of holder[field]; returns the block to put in front, or None"""
        e = holder.get(field)
        if not isinstance(e, dict):
            return None
        if e.get("k") == "Call" and e.get("callee") in self.cands:
            r = self.expand(e)
            if r is None:
                return None
            blk, ret = r
            holder[field] = ret if ret is not None else {"k": "Int", "v": 0, "t": "int", "l": e.get("l")}
            return blk
        loc = self._leftmost_call(e)
        if loc is None or loc[0] is None:
            return None
        parent, key = loc
        r = self.expand(parent[key])
        if r is None or r[1] is None:
            return None
        blk, ret = r
        parent[key] = ret
        return blk

    def stmt(self, s, depth=0):
        if not isinstance(s, dict) or depth > 3:
            return s
        k = s.get("k")
        if k == "Block":
            out = []
            for x in s.get("b", []):
                out.append(self.stmt(x, depth))
            return dict(s, b=out)
        if k == "If":
            s = dict(s)
            pre = self._hoist(s, "c")
            s["then"] = self.stmt(s.get("then"), depth)
            if s.get("else") is not None:
                s["else"] = self.stmt(s["else"], depth)
            return {"k": "Block", "l": s.get("l"), "b": [pre, s]} if pre is not None else s
        if k in ("While", "For", "Do", "Switch", "Label", "Case", "Default"):
            s = dict(s)
            for f_ in ("body", "sub"):
                if isinstance(s.get(f_), dict):
                    s[f_] = self.stmt(s[f_], depth)
            return s
        if k == "Return":
            s = dict(s)
            pre = self._hoist(s, "e") if s.get("e") is not None else None
            return {"k": "Block", "l": s.get("l"), "b": [pre, s]} if pre is not None else s
        if k == "Decls":
            s = copy.copy(s)
            s["d"] = [dict(d) for d in s["d"]]
            pres = []
            for d in s["d"]:
                if d.get("init") is not None:
                    pre = self._hoist(d, "init")
                    if pre is not None:
                        pres.append(pre)
            # the declaration must stay visible after the block: declare first, expand, then assign
            if pres:
                decl_only = {"k": "Decls", "l": s.get("l"), "d": [{kk: v for kk, v in d.items() if kk != "init"} for d in s["d"]]}
                assigns = [{"k": "Bin", "op": "=", "l": d.get("l"), "t": d.get("t"),
                            "x": {"k": "Ref", "id": d["id"], "n": d["n"], "rk": "local", "t": d.get("t"), "p": d.get("p"), "pc": d.get("pc"), "l": d.get("l")},
                            "y": d["init"]} for d in s["d"] if d.get("init") is not None]
                return {"k": "Block", "l": s.get("l"), "b": [decl_only] + pres + assigns, "flat": 1}
            return s
        if k in ("Goto", "Break", "Continue", "Null", "Asm"):
            return s
        # expression statement
        holder = {"e": s}
        pre = self._hoist(holder, "e")
        if pre is None:
            return s
        rest = holder["e"]
        if rest.get("k") in ("Ref", "Int"):
            return pre             # the call was the whole statement
        return {"k": "Block", "l": s.get("l"), "b": [pre, rest]}


def inline_unit(funcs, known):
    """expand calls to new static helpers in every function of the unit; returns the number of expansions"""
    inl = Inliner(funcs, known)
    LAST_CANDIDATES[:] = sorted(inl.cands)
    if not inl.cands:
        return 0
    for fd in funcs:
        if fd.get("body") is not None:
            fd["body"] = inl.stmt(fd["body"])
    return inl.count
