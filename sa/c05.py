"""C05: arithmetic layer -- one structural clause of `every modular result is fully reduced`.
R05.1 where a value X known to be below 2M is brought into [0, M) by a conditional subtraction
      `if (.. || wwCmp(X, M, n) OP 0) X -= M`, the subtraction must also be taken when X = M: OP is >= (the values
      are touched only through this comparison, so the three orderings <, =, > are the whole case analysis and
      `=` must go to the subtracting arm).  Found FAST(zzAddWMod) with `>`.
R05.2 the same for the mask form of the regular editions: the lexicographic mask `M <= X` must be seeded so that
      equality gives 1.
Exactness of the arithmetic itself (carries, quotient digits, Montgomery/Barrett/Crandall reductions, GF(2)[x]) is an
equation over all operand values and is declined."""
import re
from . import ir, vp
from .ir import AnalysisBroken, strip, walk, show, int_val
from .report import Result, COMMON_ASSUMPTIONS

UNITS = re.compile(r"^src/math/")
CMP = {"wwCmp": (0, 1), "wwCmp2": (0, 2)}
SUBS = {"zzSub2": (0, 1), "zzSub": (1, 2), "zzSubAndW": (0, 1)}


def _disjuncts(c):
    c = strip(c)
    if c.get("k") == "Bin" and c["op"] == "||":
        return _disjuncts(c["x"]) + _disjuncts(c["y"])
    return [c]


def _macro(e):
    """name of the function-like macro whose body this (cast) expression is, looking through nothing else"""
    return e.get("m") if isinstance(e, dict) and e.get("k") == "Cast" else None


def check_mask_seed(prog, res):
    """R05.2: the regular (branch-free) editions compute `X >= M` as a mask, word by word from the low end:
    mask &= wordEq01(M[i], X[i]); mask |= wordLess01(M[i], X[i]).  The value the mask has on entry decides the case
    X = M: it must be 1, or wordLeq01(M[0], X[0]) when the loop starts at the second word -- otherwise X = M is left
    unreduced."""
    n = 0
    for f in prog.all_funcs():
        if f.body is None or not UNITS.search(f.relfile):
            continue
        for blk in walk(f.body):
            if blk.get("k") != "Block":
                continue
            stmts = blk.get("b", [])
            for si, st in enumerate(stmts):
                if st.get("k") not in ("For", "While"):
                    continue
                ands = [x for x in walk(st) if x.get("k") == "Bin" and x["op"] == "&=" and _macro(x["y"]) == "wordEq01"]
                ors = [x for x in walk(st) if x.get("k") == "Bin" and x["op"] == "|=" and _macro(x["y"]) == "wordLess01"]
                if not ands or not ors:
                    continue
                mv = None
                for a_ in ands:
                    t_ = strip(a_["x"])
                    if t_.get("k") == "Ref" and any(strip(o_["x"]).get("id") == t_["id"] for o_ in ors):
                        mv = t_
                        break
                if mv is None:
                    continue
                # reaching definition of the mask at loop entry: the last assignment before the loop, else its initialiser
                seed, line = None, None
                for prev in stmts[:si]:
                    for x in walk(prev):
                        if x.get("k") == "Bin" and x["op"] == "=" and strip(x["x"]).get("k") == "Ref" and strip(x["x"])["id"] == mv["id"]:
                            seed, line = x["y"], x.get("l")
                if st.get("k") == "For" and st.get("init") is not None:
                    for x in walk(st["init"]):
                        if x.get("k") == "Bin" and x["op"] == "=" and strip(x["x"]).get("k") == "Ref" and strip(x["x"])["id"] == mv["id"]:
                            seed, line = x["y"], x.get("l")
                if seed is None:
                    for d in walk(f.body):
                        if d.get("k") == "Decl" and d.get("id") == mv["id"] and d.get("init") is not None:
                            seed, line = d["init"], d.get("l")
                n += 1
                ok = seed is not None and (int_val(seed) == 1 or _macro(seed) in ("wordLeq01", "wordGeq01"))
                what = "none" if seed is None else (_macro(seed) or show(seed)[:30])
                # per word the mask is (mask & eq) | less: the `&=` comes first (the other order keeps the mask only
                # while all words are equal)
                order = [("and" if x["op"] == "&=" else "or") for x in walk(st)
                         if x.get("k") == "Bin" and x["op"] in ("&=", "|=") and strip(x["x"]).get("k") == "Ref" and
                         strip(x["x"])["id"] == mv["id"] and _macro(x["y"]) in ("wordEq01", "wordLess01")]
                if ok and order[:2] != ["and", "or"]:
                    ok = False
                    what = "%s, but updated as (mask | less) & eq" % what
                if ok:
                    res.proved("R05.2-comparison-mask-covers-equality", function=f.name, file=f.relfile, line=line or st.get("l"),
                               construct="mask seeded with %s" % what, detail="X = M yields mask 1: the modulus is subtracted")
                else:
                    res.violation("R05.2-comparison-mask-covers-equality", function=f.name, file=f.relfile, line=line or st.get("l"),
                                  construct="mask seeded with %s" % what,
                                  detail="the word-by-word mask `modulus <= value` starts from %s: when the value equals the "
                                         "modulus the mask ends 0 and the modulus is not subtracted (result not fully reduced; "
                                         "the regular edition then also differs from the fast one)" % what)
    return n


def run(tier, seed=0):
    res = Result("C05", "other", tier)
    prog = ir.Program("w64")
    n = 0
    for f in prog.all_funcs():
        if f.body is None or not UNITS.search(f.relfile):
            continue
        canon = None
        for s in walk(f.body):
            if s.get("k") not in ("If", "While"):
                continue
            body = s.get("then") if s["k"] == "If" else s.get("body")
            if body is None or s.get("c") is None:
                continue
            for d in _disjuncts(s["c"]):
                if not (d.get("k") == "Bin" and d["op"] in ("<", "<=", ">", ">=", "==", "!=") and int_val(d["y"]) == 0):
                    continue
                c = strip(d["x"])
                if c.get("k") != "Call" or c.get("callee") not in CMP:
                    continue
                if canon is None:
                    canon = vp.Canon(f)
                xi, mi = CMP[c["callee"]]
                # M must be a modulus: a read-only operand of the function (const parameter or a field of a const
                # descriptor); u > v ? u -= v : v -= u between two temporaries (binary GCD) is not a reduction
                rm = ir.root_ref(c["a"][mi])
                if rm is None or rm.get("rk") != "param" or not rm.get("pc"):
                    continue
                X, M = canon(c["a"][xi]), canon(c["a"][mi])
                # the guarded statement subtracts M from X
                sub = None
                for g in ir.calls(body):
                    if g.get("callee") in SUBS:
                        a, b = SUBS[g["callee"]]
                        if canon(g["a"][a]) == X and canon(g["a"][b]) == M:
                            sub = g
                            break
                if sub is None:
                    # Crandall form: mod = B^n - c, so `X -= mod` is `X += c` with c = 0 - mod[0]
                    for g in ir.calls(body):
                        if g.get("callee") in ("zzAddW2", "zzAddW") and g["a"] and canon(g["a"][0]) == X:
                            for t in walk(g["a"][-1]):
                                if t.get("k") == "Bin" and t["op"] == "-" and int_val(t["x"]) == 0 and \
                                        strip(t["y"]).get("k") == "Index" and canon(strip(t["y"])["b"]) == M:
                                    sub = g
                if sub is None:
                    continue
                n += 1
                if d["op"] == ">=":
                    res.proved("R05.1-conditional-subtraction-covers-equality", function=f.name, file=f.relfile, line=d.get("l") or s.get("l"),
                               construct="%s >= 0 guards %s" % (show(c)[:50], show(sub)[:40]),
                               detail="X = M is reduced to 0 like every X > M")
                else:
                    res.violation("R05.1-conditional-subtraction-covers-equality", function=f.name, file=f.relfile, line=d.get("l") or s.get("l"),
                                  construct="`%s %s 0` guards the subtraction of the modulus" % (show(c)[:50], d["op"]),
                                  detail="the conditional subtraction that brings %s into [0, %s) is not taken when the two are "
                                         "equal: the function returns the modulus itself instead of 0 (the result is not fully reduced)" %
                                         (X[-30:], M[-30:]))
    n2 = check_mask_seed(prog, res)
    res.floor("conditional subtractions of a modulus", n, 9)
    res.floor("comparison masks of the regular editions", n2, 8)
    res.coverage["explanation"] = (
        "Every `if`/`while` of src/math whose condition (or one of its || alternatives) compares X with M through "
        "wwCmp/wwCmp2 and whose body subtracts M from the same X (zzSub2/zzSub/zzSubAndW on the same canonical operands) "
        "is a conditional reduction; its comparison operator must be >=. The operands are touched only through this "
        "comparison, so the case X = M is decided by the operator alone.")
    res.assumptions = COMMON_ASSUMPTIONS + [
        "R05.2 recognises the mask form by its two update statements (wordEq01 / wordLess01 on the same mask in one loop); other constant-time comparison idioms are not covered",
        "that X < 2M holds before the conditional subtraction is not decided here",
    ]
    return res
