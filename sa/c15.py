"""C15: secret state is wiped before its memory is released.
R15.1 who may free; R15.2 blobClose wipes the whole allocation before memFree;
R15.3 the wipe is a volatile store loop that survives -O2/-O3; R15.4 every blob
created in src/ reaches blobClose on every exit path (typestate on all paths);
R15.5 blobResize (realloc may free unwiped) only at audited sites."""
import os, re, subprocess
from . import ir, blobs
from .ir import AnalysisBroken, strip, show, walk
from .report import Result, COMMON_ASSUMPTIONS

ALLOC_FUNCS = {"malloc", "calloc", "realloc", "free", "alloca", "__builtin_alloca", "memAlloc", "memRealloc",
               "memFree", "aligned_alloc", "posix_memalign", "strdup", "HeapFree", "HeapAlloc"}
ALLOWED_UNITS = {"src/core/mem.c": {"malloc", "realloc", "free", "memFree"},
                 "src/core/blob.c": {"memAlloc", "memRealloc", "memFree"}}

# R15.5: audited blobResize sites (function, variable): buffers that hold no secret
RESIZE_AUDITED = {
    ("bakeBSTSRunB", "M2"): "accumulates the received protocol message M2 (public transcript)",
    ("bakeBSTSRunA", "M3"): "accumulates the received protocol message M3 (public transcript)",
    ("utilOnExit", "_fns"): "table of at-exit function pointers",
}


def norm(e, subst, syms=None, depth=0):
    """structural string of an expression with substitutions {predicate: name}; syms (local id -> defining expression
    of a single-assignment local) lets helper variables like `actual_size = blobActualSize(size)` stand for their value"""
    e = strip(e)
    for pred, name in subst:
        if pred(e):
            return name
    k = e.get("k")
    if k == "Int":
        return str(e.get("v"))
    if k == "Ref":
        if syms and e.get("rk") == "local" and e.get("id") in syms and depth < 10:
            d = strip(syms[e["id"]])
            if d.get("k") not in ("Call", "Cond"):
                return norm(d, subst, syms, depth + 1)
        return e["n"]
    if k == "Bin":
        return "(%s%s%s)" % (norm(e["x"], subst, syms, depth), e["op"], norm(e["y"], subst, syms, depth))
    if k == "Un":
        return "%s(%s)" % (e["op"], norm(e["e"], subst, syms, depth))
    if k == "Call":
        return "%s(%s)" % (e.get("callee"), ",".join(norm(a, subst, syms, depth) for a in e["a"]))
    if k == "Member":
        return norm(e["b"], subst, syms, depth) + "." + e["f"]
    if k == "Index":
        if ir.int_val(e["i"]) == 0:
            return "*(%s)" % norm(e["b"], subst, syms, depth)        # p[0] is *p
        return "%s[%s]" % (norm(e["b"], subst, syms, depth), norm(e["i"], subst, syms, depth))
    return "<%s>" % k


def check_who_may_free(prog, res):
    n = 0
    for f in prog.all_funcs():
        allowed = ALLOWED_UNITS.get(f.relfile, set())
        for c in ir.calls(f.body):
            cn = c.get("callee")
            if cn in ALLOC_FUNCS:
                n += 1
                if cn in allowed:
                    res.proved("R15.1-who-may-free", function=f.name, file=f.relfile, line=c["l"],
                               construct="call %s" % cn, detail="inside the allocator layer", nontrivial=False)
                else:
                    res.violation("R15.1-who-may-free", function=f.name, file=f.relfile, line=c["l"],
                                  construct="call %s" % cn,
                                  detail="%s is called outside mem.c/blob.c: the block bypasses blobClose's wipe" % cn)
        for d in walk(f.body):
            if d.get("k") == "Decl" and d.get("vla"):
                res.violation("R15.1-who-may-free", function=f.name, file=f.relfile, line=d["l"],
                              construct="VLA %s" % d["n"], detail="variable-length array: stack memory that is never wiped")
    # memFree callers: only blobClose (and memRealloc inside mem.c)
    for f in prog.all_funcs():
        for c in ir.calls(f.body):
            if c.get("callee") == "memFree" and f.name not in ("blobClose", "memRealloc"):
                res.violation("R15.1-who-may-free", function=f.name, file=f.relfile, line=c["l"],
                              construct="memFree outside blobClose", detail="memFree is called by %s without the preceding wipe of blobClose" % f.name)
    res.floor("allocator call sites", n, 5)


class WipeClient(ir.Client):
    """state: tuple of normalised (ptr, len) pairs wiped so far"""

    def __init__(self, report, syms=None):
        self.report = report
        self.syms = syms

    def init(self, func):
        return ()

    def eval(self, e, st, env, node):
        # the length of the wipe is read from the block's header word: it must still be the word blobCreate/blobResize
        # stored, so nothing may have been written through a pointer on the way (a store into memory, or a call that
        # receives a writable pointer) before the length is computed
        dirty = None
        for n in walk(e):
            if n.get("k") == "Bin" and n.get("op") in ir.ASSIGN_OPS and strip(n["x"]).get("k") != "Ref":
                dirty = "store `%s`" % show(n)[:40]
            elif n.get("k") == "Un" and n.get("op") in ("pre++", "pre--", "post++", "post--") and strip(n["e"]).get("k") != "Ref":
                dirty = "store `%s`" % show(n)[:40]
            elif n.get("k") == "Call" and n.get("callee") not in ("memWipe", "memFree", "utilAssert", "blobIsValid", "memIsValid"):
                if any(strip(a).get("p") and not strip(a).get("pc") and ir.int_val(a) is None for a in n["a"]):
                    dirty = "call %s" % n.get("callee")
        for c in ir.calls(e):
            cn = c.get("callee")
            if cn == "memWipe":
                ln = norm(c["a"][1], (), self.syms)
                was = [p for p in st if p[0] == "#dirty"]
                if was:
                    ln = "<header possibly overwritten by %s> %s" % (was[0][1], ln)
                st = tuple(sorted(set(st) | {(norm(c["a"][0], (), self.syms), ln)}))
            elif cn == "memFree":
                self.report(c, st, node)
        if dirty is not None and not any(p[0] == "#dirty" for p in st):
            st = tuple(sorted(set(st) | {("#dirty", dirty)}))
        for l, rhs, op in ir.assigned_vars(e):
            # any write to a variable mentioned in a wiped pair invalidates it
            st = tuple(p for p in st if l["n"] not in re.findall(r"[A-Za-z_]\w*", p[0] + p[1]))
        return st


def _is_deref(e):
    """*p or p[0]"""
    e = strip(e)
    return (e.get("k") == "Un" and e.get("op") == "*") or (e.get("k") == "Index" and ir.int_val(e["i"]) == 0)


def check_blobclose(prog, res):
    f = prog.funcs.get("blobClose")
    cr = prog.funcs.get("blobCreate")
    rz = prog.funcs.get("blobResize")
    if not f or not cr or not rz or f.body is None or cr.body is None:
        raise AnalysisBroken("blobClose/blobCreate/blobResize not found")
    # allocation expression of blobCreate
    size_p = cr.params[0]["id"]
    allocs = [c for c in ir.calls(cr.body) if c.get("callee") == "memAlloc"]
    if len(allocs) != 1:
        raise AnalysisBroken("blobCreate: expected exactly one memAlloc call, found %d" % len(allocs))
    from . import vp
    cr_syms, rz_syms, cl_syms = vp.single_assign_syms(cr), vp.single_assign_syms(rz), vp.single_assign_syms(f)
    alloc_norm = norm(allocs[0]["a"][0], [(lambda e: e.get("k") == "Ref" and e.get("id") == size_p, "SIZE")], cr_syms)
    # header store *ptr = size and return ptr + 1
    hdr_store = any(n.get("k") == "Bin" and n["op"] == "=" and _is_deref(n["x"])
                    and strip(n["y"]).get("k") == "Ref" and strip(n["y"])["id"] == size_p for n in walk(cr.body))
    if hdr_store:
        res.proved("R15.2-header", function="blobCreate", file=cr.relfile, line=cr.line, construct="*ptr = size",
                   detail="allocation is %s octets; requested size kept in the header word" % alloc_norm)
    else:
        res.violation("R15.2-header", function="blobCreate", file=cr.relfile, line=cr.line, construct="*ptr = size",
                      detail="blobCreate no longer stores the size in the header word that blobClose reads")
    # blobResize must keep the header in step and realloc with the same rounding
    rsz_p = rz.params[1]["id"]
    reallocs = [c for c in ir.calls(rz.body) if c.get("callee") == "memRealloc"]
    ok = len(reallocs) == 1 and norm(reallocs[0]["a"][1], [(lambda e: e.get("k") == "Ref" and e.get("id") == rsz_p, "SIZE")], rz_syms) == alloc_norm
    hdr2 = any(n.get("k") == "Bin" and n["op"] == "=" and _is_deref(n["x"])
               and strip(n["y"]).get("k") == "Ref" and strip(n["y"])["id"] == rsz_p for n in walk(rz.body))
    if ok and hdr2:
        res.proved("R15.2-header", function="blobResize", file=rz.relfile, line=rz.line, construct="realloc size / header",
                   detail="memRealloc uses the same rounding and the header is rewritten")
    else:
        res.violation("R15.2-header", function="blobResize", file=rz.relfile, line=rz.line, construct="realloc size / header",
                      detail="blobResize's allocation size or header update no longer matches blobCreate (%s)" % alloc_norm)

    frees = []

    def report(c, st, node):
        frees.append((c, st, node))

    ir.run_paths(f, WipeClient(report, cl_syms))
    if not frees:
        raise AnalysisBroken("blobClose: no memFree call reached")
    for c, st, node in frees:
        ptr = norm(c["a"][0], (), cl_syms)
        want_len = alloc_norm.replace("SIZE", "*(%s)" % ptr)
        hit = [p for p in st if p[0] == ptr]
        good = [p for p in hit if p[1] == want_len]
        if good:
            res.proved("R15.2-wipe-before-free", function="blobClose", file=f.relfile, line=c["l"],
                       construct="memWipe(%s, actual size) before memFree" % ptr,
                       detail="on this path memWipe(%s, %s) precedes memFree(%s)" % (ptr, want_len, ptr))
        elif hit:
            res.violation("R15.2-wipe-before-free", function="blobClose", file=f.relfile, line=c["l"],
                          construct="memWipe(%s, actual size) before memFree" % ptr,
                          detail="the wipe covers %s octets but the allocation is %s octets" % (hit[0][1], want_len))
        else:
            res.violation("R15.2-wipe-before-free", function="blobClose", file=f.relfile, line=c["l"],
                          construct="memWipe(%s, actual size) before memFree" % ptr,
                          detail="memFree(%s) is reached on a path without a preceding memWipe of the same pointer "
                                 "(wiped so far: %s)" % (ptr, list(st) or "nothing"))


def check_memwipe(prog, res, tier):
    f = prog.funcs.get("memWipe")
    if not f or f.body is None:
        raise AnalysisBroken("memWipe not found")
    # AST: the pointer stored through in the loop is volatile-qualified
    stores = []
    for n in walk(f.body):
        if n.get("k") == "Bin" and n["op"] in ir.ASSIGN_OPS:
            l = strip(n["x"])
            if l.get("k") == "Un" and l["op"] == "*":
                stores.append(l)
    vol = [s for s in stores if "volatile" in (strip(s["e"]).get("t") or "") or
           any("volatile" in (m.get("t") or "") for m in walk(s["e"]) if m.get("k") == "Ref")]
    if stores and len(vol) == len(stores):
        res.proved("R15.3-volatile-wipe", function="memWipe", file=f.relfile, line=f.line, construct="AST: volatile store",
                   detail="%d store(s) through a volatile-qualified pointer" % len(vol))
    else:
        res.violation("R15.3-volatile-wipe", function="memWipe", file=f.relfile, line=f.line, construct="AST: volatile store",
                      detail="memWipe writes through a pointer that is not volatile-qualified: the optimiser may drop the wipe")
    # a call to memset/memSet in place of the loop is not accepted
    for c in ir.calls(f.body):
        if c.get("callee") in ("memset", "memSet", "memSetZero", "bzero", "__builtin_memset"):
            res.violation("R15.3-volatile-wipe", function="memWipe", file=f.relfile, line=c["l"], construct="memset in memWipe",
                          detail="memWipe delegates to %s, which the optimiser may elide before free" % c.get("callee"))
    # IR: the store survives optimisation
    levels = ["-O2"] if tier == "quick" else ["-O1", "-O2", "-O3", "-Os"]
    for lv in levels:
        cmd = ["clang", lv, "-DNDEBUG", "-S", "-emit-llvm", "-I%s/include" % ir.REPO, "-I%s/src" % ir.REPO,
               f.file, "-o", "-"]
        p = subprocess.run(cmd, stdout=subprocess.PIPE, stderr=subprocess.PIPE, text=True)
        if p.returncode != 0:
            raise AnalysisBroken("clang %s on mem.c failed: %s" % (lv, p.stderr[-300:]))
        m = re.search(r"define [^\n]*@memWipe\(.*?\n}\n", p.stdout, re.S)
        if not m:
            raise AnalysisBroken("memWipe not found in %s IR" % lv)
        body = m.group(0)
        nvol = len(re.findall(r"store volatile i8", body))
        # the volatile store must be inside a loop: some block branches backwards to a label defined before it
        labels = [mm.start() for mm in re.finditer(r"^\d+:", body, re.M)]
        in_loop = bool(re.search(r"br i1 [^\n]*label %(\d+)", body)) and nvol > 0
        if nvol >= 1 and in_loop and "@llvm.memset" not in body:
            res.proved("R15.3-volatile-wipe", function="memWipe", file=f.relfile, line=f.line,
                       construct="IR %s: store volatile i8 in loop" % lv,
                       detail="%d volatile byte store(s) survive clang %s" % (nvol, lv))
        else:
            res.violation("R15.3-volatile-wipe", function="memWipe", file=f.relfile, line=f.line,
                          construct="IR %s: store volatile i8 in loop" % lv,
                          detail="no volatile byte store left in memWipe's loop after clang %s" % lv)


def check_typestate(prog, res):
    summ = blobs.compute_summaries(prog)
    nsites = 0
    nfun = 0
    for f in prog.all_funcs():
        cl, r = blobs.analyse(f, summ)
        if r is None:
            continue
        nfun += 1
        nsites += len(cl.sites)
        vio_lines = set()
        for key, v in cl.viol.items():
            if v["rule"] in ("leak", "use-after-close", "double-close"):
                path = []
                if v.get("st") is not None:
                    path = ir.path_to(r, f.cfg(), v["node"].id, v["st"])
                res.violation("R15.4-" + v["rule"], function=f.name, file=f.relfile, line=v["line"],
                              construct=v["construct"], detail=v["detail"], path=path)
                vio_lines.add(v["construct"])
        for (line, var), callee in sorted(cl.sites.items()):
            nret = len(cl.returns)
            if not any(var in c for c in vio_lines):
                res.proved("R15.4-closed-on-all-paths", function=f.name, file=f.relfile, line=line,
                           construct="%s = %s(..)" % (var, callee),
                           detail="closed (or escaped to its owner) on all %d return states explored" % nret)
        # R15.5
        for line, var, arg in cl.resize_sites:
            if (f.name, arg) in RESIZE_AUDITED:
                res.proved("R15.5-resize-audited", function=f.name, file=f.relfile, line=line,
                           construct="blobResize(%s, ..)" % arg, detail=RESIZE_AUDITED[(f.name, arg)], nontrivial=False)
            else:
                res.violation("R15.5-resize-audited", function=f.name, file=f.relfile, line=line,
                              construct="blobResize(%s, ..)" % arg,
                              detail="blobResize grows through realloc, which may free the old block without wiping it; "
                                     "this call site is not on the audited list of non-secret buffers")
    res.floor("blob creation sites", nsites, 100)
    res.floor("functions with blobs", nfun, 95)
    res.coverage["creator_wrappers"] = summ["creator"]
    res.coverage["closer_wrappers"] = summ["closer"]
    return summ


def run(tier, seed=0):
    res = Result("C15", "other", tier)
    prog = ir.Program("w64")
    check_who_may_free(prog, res)
    check_blobclose(prog, res)
    check_memwipe(prog, res, tier)
    check_typestate(prog, res)
    if tier == "thorough":
        for cfg in ("w32", "w64fast"):
            p2 = ir.Program(cfg)
            r2 = Result("C15", "other", tier)
            check_who_may_free(p2, r2)
            check_blobclose(p2, r2)
            check_typestate(p2, r2)
            for i in r2.instances:
                if i["status"] != "proved":
                    i["detail"] += " [configuration %s]" % cfg
                    res.instances.append(i)
            res.notes.append("configuration %s: %d instances re-checked" % (cfg, len(r2.instances)))
    res.coverage["explanation"] = (
        "All-paths typestate of every variable that receives blobCreate/blobResize/a creator wrapper's result "
        "(disjunctive path engine over the CFG of each of the functions that own blobs; correlation with err_t "
        "locals kept), plus structural checks of blobClose (memWipe of the heap pointer over the page-rounded "
        "allocation size dominates memFree; size expression compared with blobCreate's memAlloc argument), of "
        "memWipe (volatile store in the AST and in clang's optimised IR) and a who-may-call rule for the allocator.")
    res.coverage["exhaustive"] = True
    res.assumptions = COMMON_ASSUMPTIONS + [
        "a blob stored into a file-scope variable or an out-parameter is owned by that variable (rng.c _state, util.c _fns, g12s/dstu EcCreate); its release is checked where the owner closes it",
        "secrets live in blobs or in caller memory: stack locals of fixed size are outside this property's statement (heap blocks)",
        "memFree/free are opaque; realloc may free without wiping, hence R15.5",
    ]
    return res
