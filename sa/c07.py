"""C07: memory bounds -- the stack-depth clause (resource-bound analysis, sa/sd.py).
SD.a  for every function with a scratch-stack parameter and a companion F_deep: what the body carves and passes down
      is at most F_deep(dims), for every dimension tuple of a grid;
SD.b  for every creator that assigns X->deep = E: every function installed into a member of X needs at most E, and
      the creator's public _deep is at least E;
SD.5  no allocator call / VLA outside mem.c and blob.c (shared with C15 R15.1).
Absence of every out-of-bounds access for all inputs is a value statement and is declined."""
import itertools, re, re
from . import ir, sd, vp
from .ir import AnalysisBroken, strip, walk, show, access_path
from .sd import Undecided
from .report import Result, COMMON_ASSUMPTIONS


def grids(tier):
    if tier == "thorough":
        N = list(range(1, 25)) + [32, 40]
        M = [1, 2, 3, 4, 5, 8, 9, 16, 17, 24, 40]
    else:
        N = [1, 2, 3, 4, 5, 6, 8, 9, 11, 12]
        M = [1, 2, 4, 7, 11, 12]
    return {"n": N, "m": M, "no": [8 * x for x in N], "f_deep": ["0", "100", "64n"], "r_deep": ["0", "100", "64n"],
            "ec_d": [3], "ec_deep": ["0", "500", "200n"], "k": [1, 2, 3], "l": [128, 192, 256], "base_count": [1, 10],
            "count": [1, 4, 16], "na": M, "nb": M}


def resolve_val(v, n):
    if isinstance(v, int):
        return v
    if v.endswith("n"):
        return int(v[:-1]) * n
    return int(v)


def tuples_for(dparams, G, fname=None):
    names = [p["n"] for p in dparams]
    if fname in BIT_DIMS:
        G = dict(G)
        G[BIT_DIMS[fname][0]] = BIT_DIMS[fname][1]
    for n_ in names:
        if n_ not in G:
            raise Undecided("dimension `%s` of the _deep companion has no grid" % n_)
    doms = [G[n_] for n_ in names]
    for combo in itertools.product(*doms):
        d = dict(zip(names, combo))
        n = d.get("n", d.get("no", 8) // 8 if "no" in d else 4)
        yield {k: resolve_val(v, n) for k, v in d.items()}


# companions whose dimension is a bit length: function -> (dimension, grid of bit lengths)
BIT_DIMS = {"gf2Create": ("m", [64, 100, 163, 233, 256, 431, 512])}


def atoms_for(f, dims):
    """dimension tuple -> (scalars of f by name, atoms relative to f's pointer parameters)"""
    n = dims.get("n", (dims.get("no", 32) + 7) // 8)
    if f.name in BIT_DIMS and BIT_DIMS[f.name][0] in dims:
        n = (dims[BIT_DIMS[f.name][0]] + 63) // 64
    scal, atoms = {}, {}
    for p in f.params:
        if not p.get("p"):
            if p["n"] in dims:
                scal[p["n"]] = dims[p["n"]]
            continue
        t = (p.get("t") or "").replace("const ", "").replace("struct ", "").strip()
        if t.startswith("qr_o"):
            atoms[p["n"] + "->n"] = n
            atoms[p["n"] + "->no"] = dims.get("no", n * 8)
            atoms[p["n"] + "->deep"] = dims.get("f_deep", dims.get("r_deep", 0))
        elif t.startswith("ec_o"):
            atoms[p["n"] + "->f->n"] = n
            atoms[p["n"] + "->f->no"] = n * 8
            atoms[p["n"] + "->f->deep"] = dims.get("f_deep", 0)
            atoms[p["n"] + "->d"] = dims.get("ec_d", 3)
            atoms[p["n"] + "->deep"] = dims.get("ec_deep", 0)
    return scal, atoms


FREE_SCALARS = {"count": [1, 3], "w": [1], "bit": [0], "pos": [0], "shift": [1], "iter": [1], "trials": [1], "base_count": [4],
                "l": [128], "b": [1], "a": [1], "c": [1], "mov_threshold": [50], "nb": [64], "len": [16],
                "order_len": [32], "cofactor": [1], "threshold": [50], "mod": [3], "mont_param": [1], "n": [2, 5], "m": [2, 5],
                "k": [1], "no": [16, 40]}


def check_deep(prog, res, tier):
    sizes = sd.SizeEval(prog)
    ne = sd.NeedEval(prog, sizes)
    G = grids(tier)
    nfun = 0
    for f in prog.all_funcs():
        if f.body is None or not any(p["n"] == "stack" and p.get("p") for p in f.params):
            continue
        d = prog.static_funcs.get((f.unit, f.name + "_deep")) or prog.funcs.get(f.name + "_deep")
        if d is None or d.body is None:
            continue
        nfun += 1
        worst = None
        npts = 0
        undecided = None
        try:
            for dims in tuples_for(d.params, G, f.name):
                try:
                    declared = sizes.call(d.name, [dims[p["n"]] for p in d.params], d.unit)
                except Undecided as u:
                    undecided = "declared depth not evaluable: %s" % u
                    break
                scal, atoms = atoms_for(f, dims)
                # scalar parameters of f that the _deep companion does not know: small defaults
                free = [p["n"] for p in f.params if not p.get("p") and p["n"] not in scal]
                frees = [FREE_SCALARS.get(x) for x in free]
                if any(v is None for v in frees):
                    undecided = "scalar parameter %s of %s has no counterpart in %s" % (
                        [x for x, v in zip(free, frees) if v is None], f.name, d.name)
                    break
                for combo in itertools.product(*frees) if frees else [()]:
                    sc = dict(scal)
                    sc.update(dict(zip(free, combo)))
                    try:
                        need = ne.need(f, sc, atoms)
                    except Undecided as u:
                        undecided = str(u)
                        break
                    npts += 1
                    if need > declared and (worst is None or need - declared > worst[0]):
                        worst = (need - declared, dict(dims), need, declared)
                if undecided:
                    break
        except Undecided as u:
            undecided = str(u)
        if undecided:
            res.undecided("SD.a-need-within-declared", function=f.name, file=f.relfile, line=f.line,
                          construct="%s vs %s" % (f.name, d.name), detail=undecided)
        elif worst:
            res.violation("SD.a-need-within-declared", function=f.name, file=f.relfile, line=f.line,
                          construct="%s declares less scratch memory than %s uses" % (d.name, f.name),
                          detail="for %s the body carves / passes down %d octets but %s returns %d (short by %d): a stack of exactly "
                                 "the declared size is overrun" % (", ".join("%s=%d" % kv for kv in sorted(worst[1].items())),
                                                                   worst[2], d.name, worst[3], worst[0]))
        else:
            res.proved("SD.a-need-within-declared", function=f.name, file=f.relfile, line=f.line,
                       construct="%s <= %s" % (f.name, d.name), detail="holds on %d dimension tuples" % npts)
    res.floor("functions with a stack parameter and a _deep companion", nfun, 130)
    return ne, sizes


def check_creators(prog, res, tier, ne, sizes):
    G = grids(tier)
    ncre = 0
    for f in prog.all_funcs():
        if f.body is None:
            continue
        deep_assign = [n for n in walk(f.body) if n.get("k") == "Bin" and n["op"] == "=" and
                       strip(n["x"]).get("k") == "Member" and strip(n["x"])["f"] == "deep" and strip(n["x"]).get("rec") in ("qr_o", "ec_o")]
        if not deep_assign:
            continue
        ncre += 1
        installs = []
        for n in walk(f.body):
            if n.get("k") == "Bin" and n["op"] == "=" and strip(n["x"]).get("k") == "Member" and strip(n["x"]).get("pf"):
                r = strip(n["y"])
                cands = []
                if r.get("k") == "Ref" and r.get("rk") == "func":
                    cands = [r["n"]]
                elif r.get("k") == "Cond":
                    cands = [strip(x)["n"] for x in (r["x"], r["y"]) if strip(x).get("k") == "Ref" and strip(x).get("rk") == "func"]
                for c in cands:
                    installs.append((strip(n["x"])["f"], c, n["l"]))
        d = prog.static_funcs.get((f.unit, f.name + "_deep")) or prog.funcs.get(f.name + "_deep")
        worst = {}
        undecided = None
        npts = 0
        dparams = d.params if d is not None else [p for p in f.params if not p.get("p")]
        try:
            for dims in tuples_for(dparams, G, f.name):
                scal, atoms = atoms_for(f, dims)
                for p in f.params:
                    if not p.get("p") and p["n"] not in scal and p["n"] in FREE_SCALARS:
                        scal[p["n"]] = FREE_SCALARS[p["n"]][0]
                w = sd.Walker(ne, f, scal, atoms)
                w.track_members = True
                try:
                    w.run()
                except Undecided as u:
                    undecided = str(u)
                    break
                obj = access_path(strip(deep_assign[0]["x"])["b"])
                objp = w.path_of(strip(deep_assign[0]["x"])["b"])
                key = "%s->deep" % objp
                if key not in w.atoms:
                    undecided = "value assigned to %s not evaluable" % key
                    break
                E = w.atoms[key]
                npts += 1
                for member, fn, line in installs:
                    g = prog.resolve(fn, f.unit)
                    if g is None or g.body is None or not any(p["n"] == "stack" for p in g.params):
                        continue
                    # bind the installed function's descriptor parameter to this object
                    gat = {}
                    for p in g.params:
                        t = (p.get("t") or "").replace("const ", "").strip()
                        if t.startswith("qr_o") or t.startswith("ec_o"):
                            for kk, v in w.atoms.items():
                                if kk.startswith(objp + "->"):
                                    gat[p["n"] + kk[len(objp):]] = v
                    gsc = {p["n"]: FREE_SCALARS[p["n"]][0] for p in g.params if not p.get("p") and p["n"] in FREE_SCALARS}
                    try:
                        need = ne.need(g, gsc, gat)
                    except Undecided as u:
                        undecided = "%s: %s" % (fn, u)
                        break
                    if need > E and (fn not in worst or need - E > worst[fn][0]):
                        worst[fn] = (need - E, dict(dims), need, E, member, line)
                if undecided:
                    break
                if d is not None:
                    try:
                        pub = sizes.call(d.name, [dims[p["n"]] for p in d.params], d.unit)
                        if pub < E and ("<public>" not in worst or E - pub > worst["<public>"][0]):
                            worst["<public>"] = (E - pub, dict(dims), E, pub, "deep", deep_assign[0]["l"])
                    except Undecided as u:
                        undecided = "declared depth not evaluable: %s" % u
                        break
        except Undecided as u:
            undecided = str(u)
        if undecided:
            res.undecided("SD.b-installed-functions-within-deep", function=f.name, file=f.relfile, line=f.line,
                          construct="%s installs %d function(s)" % (f.name, len(installs)), detail=undecided)
            continue
        for fn, (short, dims, need, E, member, line) in sorted(worst.items()):
            if fn == "<public>":
                res.violation("SD.b-installed-functions-within-deep", function=f.name, file=f.relfile, line=line,
                              construct="%s_deep below the object's ->deep" % f.name,
                              detail="for %s the creator stores deep = %d but %s_deep returns %d" %
                                     (", ".join("%s=%d" % kv for kv in sorted(dims.items())), need, f.name, E))
            else:
                res.violation("SD.b-installed-functions-within-deep", function=f.name, file=f.relfile, line=line,
                              construct="->%s = %s needs more than ->deep" % (member, fn),
                              detail="for %s the installed %s needs %d octets of scratch memory but the object's deep is %d "
                                     "(short by %d): callers size their stack by ->deep" %
                                     (", ".join("%s=%d" % kv for kv in sorted(dims.items())), fn, need, E, short))
        if not worst:
            res.proved("SD.b-installed-functions-within-deep", function=f.name, file=f.relfile, line=f.line,
                       construct="%d installed function(s) <= ->deep <= %s_deep" % (len(installs), f.name),
                       detail="holds on %d dimension tuples" % npts)
    res.floor("creators assigning ->deep", ncre, 8)


# dimension grids of the high-level functions that allocate their own block (SD.d): scalar parameters by name,
# fields of parameter-set structures by access path
HL_SCALARS = {"len": [16, 24, 32], "count": [2, 5, 16, 33, 100], "threshold": [2, 3, 5], "l": [128, 192, 256], "key_len": [16, 32],
              "mod": [10, 256, 65536], "iter": [1, 10000], "digit": [6, 8], "id_len": [0, 8, 40], "pwd_len": [0, 8],
              "salt_len": [0, 8], "hash_len": [32, 48, 64], "ann_len": [0, 4, 60], "iv_len": [0, 16],
              "in_len": [0, 100, 2000], "edata_len": [40, 72], "privkey_len": [32, 64], "pubkey_len": [64, 128],
              "cert_len": [100, 400], "certa_len": [100, 400], "epki_len": [100, 200]}
HL_ATOMS = {"l": [96, 128, 192, 256]}


def hl_grid(f, names_needed):
    """cartesian grid over the scalar parameters of f we have values for, and over `<ptr>->l` of its parameter sets"""
    axes = []
    for p in f.params:
        if not p.get("p") and p["n"] in HL_SCALARS:
            axes.append([("s", p["n"], v) for v in HL_SCALARS[p["n"]]])
        elif p.get("p") and re.search(r"_params\b", p.get("t") or ""):
            axes.append([("a", p["n"] + "->l", v) for v in HL_ATOMS["l"]])
        elif p.get("p") and re.search(r"bake_cert", p.get("t") or ""):
            axes.append([("a", p["n"] + "->len", v) for v in (0, 300)])
    for combo in itertools.product(*axes) if axes else [()]:
        scal = {n: v for k, n, v in combo if k == "s"}
        atoms = {n: v for k, n, v in combo if k == "a"}
        # threshold <= count
        if "threshold" in scal and "count" in scal and scal["threshold"] > scal["count"]:
            continue
        yield scal, atoms


def check_high_level_blobs(prog, res, ne):
    """SD.d: a function that obtains its working memory from blobCreate(E) uses no more than E octets of it: carves by
    pointer arithmetic, structures laid over it, states handed to Start/Step functions (their use of the state, see
    SD.e) and scratch stacks handed to callees (their demand) are added up from the block's base exactly as for a
    `stack` parameter and compared with the requested size on a grid of the function's dimensions."""
    nd, und = 0, {}
    for f in prog.all_funcs():
        if f.body is None or any(p["n"] == "stack" and p.get("p") for p in f.params):
            continue
        if not any(c.get("callee") == "blobCreate" for c in ir.calls(f.body)):
            continue
        worst, npts, why = None, 0, None
        for scal, atoms in hl_grid(f, None):
            try:
                need = ne.need(f, scal, atoms, "blob")
            except Undecided as u:
                why = str(u)
                break
            key = (f.name, f.unit if f.static else None, tuple(sorted(scal.items())), tuple(sorted(atoms.items())), "blob")
            bs = ne.blob_sizes.get(key)
            if bs is None:
                continue        # the function leaves before allocating for this tuple (its own argument checks reject it)
            if bs[0] is None:
                why = "requested size not evaluable: %s" % bs[1]
                break
            if bs[0] < 0:
                continue        # a length below what the function's own (undecided) argument check admits
            npts += 1
            if need > bs[0] and (worst is None or need - bs[0] > worst[0]):
                worst = (need - bs[0], dict(scal, **atoms), need, bs[0])
        if not why and npts == 0:
            why = "no grid tuple passes the function's argument checks up to its blobCreate"
        if why:
            und[f.name] = why
            continue
        nd += 1
        if worst:
            res.violation("SD.d-allocation-covers-use", function=f.name, file=f.relfile, line=f.line,
                          construct="blobCreate requests less than %s uses" % f.name,
                          detail="for %s the function lays out / passes down %d octets from the base of its block but asks "
                                 "blobCreate for %d (short by %d): only the page rounding of blob.c hides the overrun" %
                                 (", ".join("%s=%d" % kv for kv in sorted(worst[1].items())) or "every input", worst[2], worst[3], worst[0]))
        else:
            res.proved("SD.d-allocation-covers-use", function=f.name, file=f.relfile, line=f.line,
                       construct="use of the block <= blobCreate argument", detail="holds on %d dimension tuple(s)" % npts)
    res.floor("high-level functions with their own block (decided)", nd, 30)
    res.coverage["blob_functions_not_decided"] = und


FAMILY_SUFFIX = re.compile(r"(Start|Restart|Step\w*|Absorb\w*|Squeeze\w*|Encr\w*|Decr\w*|Ratchet|Commit|Transition)$")


def check_state_within_keep(prog, res, ne, sizes):
    """SD.e: every function over a state structure uses no more of `state` than the family's _keep() reports: the
    structure laid over it (sizeof), array members and the flexible tail handed to callees as scratch stack (their
    demand) or as a nested state (its use), measured from the state's base like a `stack` parameter."""
    from . import sb
    from collections import Counter
    nfam, und = 0, {}
    for (rel, sn), fs in sorted(sb.families(prog).items()):
        names = [f.name for f, pi in fs if not f.static]
        if not names:
            continue
        pre = Counter(FAMILY_SUFFIX.sub("", x) for x in names).most_common(1)[0][0]
        keep = prog.funcs.get(pre + "_keep")
        if keep is None or keep.body is None:
            continue
        if keep.params:
            und[pre] = "%s_keep depends on %s (not on the grid of this rule)" % (pre, ", ".join(p["n"] for p in keep.params))
            continue
        try:
            kv = sizes.call(keep.name, [], keep.unit)
        except Undecided as u:
            und[pre] = "keep not evaluable: %s" % u
            continue
        nfam += 1
        for f, pi in fs:
            scal = {p["n"]: HL_SCALARS[p["n"]][0] for p in f.params if not p.get("p") and p["n"] in HL_SCALARS}
            try:
                need = ne.need(f, scal, {}, "state")
            except Undecided as u:
                res.undecided("SD.e-state-within-keep", function=f.name, file=rel, line=f.line,
                              construct="%s vs %s_keep" % (f.name, pre), detail=str(u))
                continue
            if need > kv:
                res.violation("SD.e-state-within-keep", function=f.name, file=rel, line=f.line,
                              construct="%s uses more of the state than %s_keep() reports" % (f.name, pre),
                              detail="the body lays out / passes down %d octets from the state's base but %s_keep() returns %d "
                                     "(short by %d): a state of exactly the reported size is overrun" % (need, pre, kv, need - kv))
            else:
                res.proved("SD.e-state-within-keep", function=f.name, file=rel, line=f.line,
                           construct="%s <= %s_keep() = %d" % (f.name, pre, kv), detail="uses %d octet(s) of the state" % need)
    res.floor("state families with a parameterless _keep", nfam, 20)
    res.coverage["state_families_not_decided"] = und


def _subst_locals(e, syms, depth=0):
    """copy of e with single-assignment helper locals (actual_size = blobActualSize(size)) replaced by their value"""
    if not isinstance(e, dict):
        return e
    if e.get("k") == "Ref" and e.get("rk") == "local" and e.get("id") in syms and depth < 10:
        d = strip(syms[e["id"]])
        if d.get("k") not in ("Call", "Cond"):
            return _subst_locals(d, syms, depth + 1)
    out = {}
    for k_, v in e.items():
        if isinstance(v, dict):
            out[k_] = _subst_locals(v, syms, depth)
        elif isinstance(v, list):
            out[k_] = [_subst_locals(x, syms, depth) for x in v]
        else:
            out[k_] = v
    return out


def check_blob_sizes(prog, res, ne):
    """SD.c: the block blob.c obtains from the allocator covers the size header plus the requested payload"""
    for fname, alloc, size_idx in (("blobCreate", "memAlloc", 0), ("blobResize", "memRealloc", 1)):
        f = prog.funcs.get(fname)
        if f is None or f.body is None:
            raise AnalysisBroken("%s vanished" % fname)
        calls = [c for c in ir.calls(f.body) if c.get("callee") == alloc]
        if len(calls) != 1:
            raise AnalysisBroken("%s: expected one %s call" % (fname, alloc))
        aexpr = _subst_locals(calls[0]["a"][-1], vp.single_assign_syms(f))
        size_p = f.params[size_idx]
        # the pointer handed back to the caller: offset of the payload from the allocated block
        ret_off = None
        w0 = sd.Walker(ne, f, {size_p["n"]: 64}, {})
        for n in walk(f.body):
            if n.get("k") == "Bin" and n["op"] == "=" and ir.is_call(n["y"], alloc):
                l = strip(n["x"])
                if l.get("k") == "Ref":
                    w0.ptrs[l["id"]] = 0
                    base_id = l["id"]
        for n in walk(f.body):
            if n.get("k") == "Return" and n.get("e") is not None:
                try:
                    pv = w0.pval(n["e"])
                except Undecided:
                    pv = None
                if pv is not None:
                    ret_off = pv if ret_off is None else max(ret_off, pv)
        if ret_off is None:
            # blobResize returns `blob` recomputed from ptr through a local: use the header size of blobCreate
            ret_off = prog.records and 8
        worst = None
        for size in list(range(1, 4200)) + [8191, 8192, 65535, 65536, 1 << 20]:
            w = sd.Walker(ne, f, {size_p["n"]: size}, {})
            try:
                got = w.ival(aexpr)
            except Undecided as u:
                res.undecided("SD.c-blob-allocation-covers-payload", function=fname, file=f.relfile, line=calls[0]["l"],
                              construct="%s argument" % alloc, detail=str(u))
                worst = "undecided"
                break
            need = ret_off + size
            if got < need and (worst is None or need - got > worst[0]):
                worst = (need - got, size, got, need)
        if worst == "undecided":
            continue
        if worst:
            res.violation("SD.c-blob-allocation-covers-payload", function=fname, file=f.relfile, line=calls[0]["l"],
                          construct="%s size below header + payload" % alloc,
                          detail="for size = %d the block obtained from %s has %d octets but the header and payload need %d "
                                 "(short by %d): the last octets of the blob lie outside the allocation" %
                                 (worst[1], alloc, worst[2], worst[3], worst[0]))
        else:
            res.proved("SD.c-blob-allocation-covers-payload", function=fname, file=f.relfile, line=calls[0]["l"],
                       construct="%s size >= header + payload" % alloc,
                       detail="allocation expression `%s` >= %d + size for all sizes 1..4199 and selected larger ones" %
                              (show(aexpr)[:60], ret_off))


def check_resize_condition(prog, res, ne):
    """SD.c (second half): blobResize reallocates only under a condition; when the condition is false the block it
    keeps must already cover the header plus the new size.  The condition and blobCreate's allocation expression are
    evaluated for old and new sizes on a grid around every page boundary (the old size is what the header word holds)."""
    rz, cr = prog.funcs.get("blobResize"), prog.funcs.get("blobCreate")
    if rz is None or cr is None or rz.body is None or cr.body is None:
        raise AnalysisBroken("blobResize/blobCreate vanished")
    alloc = [c for c in ir.calls(cr.body) if c.get("callee") == "memAlloc"]
    if len(alloc) != 1:
        raise AnalysisBroken("blobCreate: expected one memAlloc call")
    aexpr = _subst_locals(alloc[0]["a"][-1], vp.single_assign_syms(cr))
    cr_size = cr.params[0]["id"]
    guard = None
    for n in walk(rz.body):
        if n.get("k") == "If" and any(c.get("callee") == "memRealloc" for c in ir.calls(n.get("then") or {})):
            guard = n
    if guard is None:
        res.proved("SD.c-resize-keeps-enough-room", function="blobResize", file=rz.relfile, line=rz.line,
                   construct="memRealloc unconditional", detail="the block is reallocated on every resize")
        return
    cond = _subst_locals(guard["c"], vp.single_assign_syms(rz))
    rz_size = rz.params[1]["id"]

    def ev(e, env):
        e = strip(e)
        k = e.get("k")
        if k == "Int":
            v = ir.int_val(e)
            if v is None:
                raise Undecided("literal")
            return v
        if k == "Ref":
            if e.get("id") in env:
                return env[e["id"]]
            raise Undecided("value of %s" % e.get("n"))
        if k == "Un" and e["op"] == "*":
            return env["OLD"]            # the header word: the size the blob currently has
        if k == "Index" and ir.int_val(e["i"]) in (0, -1):
            return env["OLD"]
        if k == "Un" and e["op"] == "!":
            return 0 if ev(e["e"], env) else 1
        if k == "Cond":
            return ev(e["x"], env) if ev(e["c"], env) else ev(e["y"], env)
        if k == "Bin":
            op = e["op"]
            if op == "&&":
                return 1 if (ev(e["x"], env) and ev(e["y"], env)) else 0
            if op == "||":
                return 1 if (ev(e["x"], env) or ev(e["y"], env)) else 0
            a, b = ev(e["x"], env), ev(e["y"], env)
            M = 1 << 64
            tbl = {"+": lambda: (a + b) % M, "-": lambda: (a - b) % M, "*": lambda: (a * b) % M,
                   "/": lambda: a // b if b else 0, "%": lambda: a % b if b else 0,
                   "==": lambda: int(a == b), "!=": lambda: int(a != b), "<": lambda: int(a < b), "<=": lambda: int(a <= b),
                   ">": lambda: int(a > b), ">=": lambda: int(a >= b), "&": lambda: a & b, "|": lambda: a | b,
                   ">>": lambda: a >> b, "<<": lambda: (a << b) % M}
            if op in tbl:
                return tbl[op]()
        raise Undecided("expression %s in the reallocation condition" % k)

    pts = sorted(set([1, 2, 7, 8, 9, 100, 500] + [p * 1024 + d for p in range(0, 5) for d in (-17, -16, -9, -8, -7, -1, 0, 1, 7, 8, 9, 16)
                                                  if p * 1024 + d >= 1] + [65536 - 8, 65536, 65537]))
    worst = None
    try:
        for old in pts:
            have = ev(aexpr, {cr_size: old})
            for size in pts:
                if ev(cond, {rz_size: size, "OLD": old}):
                    continue
                if have < 8 + size and (worst is None or 8 + size - have > worst[0]):
                    worst = (8 + size - have, old, size, have)
    except Undecided as u:
        res.undecided("SD.c-resize-keeps-enough-room", function="blobResize", file=rz.relfile, line=guard.get("l", rz.line),
                      construct="reallocation condition", detail=str(u))
        return
    if worst:
        res.violation("SD.c-resize-keeps-enough-room", function="blobResize", file=rz.relfile, line=guard.get("l", rz.line),
                      construct="block kept although it is too small",
                      detail="resizing a blob of %d octets to %d octets skips memRealloc, but the block obtained for %d octets has "
                             "%d octets and header + payload need %d (short by %d)" % (worst[1], worst[2], worst[1], worst[3], 8 + worst[2], worst[0]))
    else:
        res.proved("SD.c-resize-keeps-enough-room", function="blobResize", file=rz.relfile, line=guard.get("l", rz.line),
                   construct="no reallocation => block already covers header + new size",
                   detail="checked for %d x %d (old, new) sizes around every page boundary" % (len(pts), len(pts)))


FROZEN_UNDECIDED = [
    {"rule": "SD.a-need-within-declared", "function": "ecAddMulA", "construct": "ecAddMulA vs ecAddMulA_deep",
     "reason": "variadic: the depth function walks a va_list; not lowered by the extractor"},
    {"rule": "SD.a-need-within-declared", "function": "priExtendPrime2", "construct": "priExtendPrime2 vs priExtendPrime2_deep",
     "reason": "the dimensions l (bits) and n (words) of the companion are related by a precondition the grid does not model"},
    {"rule": "SD.a-need-within-declared", "function": "priExtendPrime", "construct": "priExtendPrime vs priExtendPrime_deep",
     "reason": "the dimensions l (bits) and n (words) of the companion are related by a precondition the grid does not model"},
]


def run(tier, seed=0):
    res = Result("C07", "other", tier)
    prog = ir.Program("w64ndebug")
    ne, sizes = check_deep(prog, res, tier)
    check_creators(prog, res, tier, ne, sizes)
    check_blob_sizes(prog, res, ne)
    check_resize_condition(prog, res, ne)
    check_high_level_blobs(prog, res, ne)
    check_state_within_keep(prog, res, ne, sizes)
    from . import c07fx
    c07fx.check_fixed_extent(res, "w64", 2400)
    if tier == "thorough":
        c07fx.check_fixed_extent(res, "w32", 2400)
    from . import sb
    nob = sb.check_start_initialises(c07fx.LAST_PROG["w64"], res, "SD.g-initialiser-sets-what-steps-read")
    res.floor("SD.g fields an initialiser must set", nob, 35)
    from . import c15
    c15.check_who_may_free(prog, res)
    for i in res.instances:
        if i["rule"] == "R15.1-who-may-free":
            i["rule"] = "SD.5-who-may-allocate"
    res.coverage["explanation"] = (
        "Resource-bound analysis of the scratch-stack convention: for each function with a `stack` parameter the bytes "
        "carved by pointer arithmetic from the stack base and the demand of every callee that receives the remaining "
        "stack (recursively; calls through a ring/curve descriptor demand that object's ->deep; objects created inside "
        "the stack contribute their creator's _keep/_deep) are evaluated as a size formula and compared with the value of "
        "the companion _deep function on a grid of dimension tuples; creators are checked in the other direction (every "
        "installed function fits into ->deep, and the public _deep covers ->deep). The formulas are piecewise linear in "
        "each dimension with breakpoints inside the grid; this is stated as an assumption.")
    res.assumptions = COMMON_ASSUMPTIONS + [
        "grid: n, m up to 12 (quick) / 40 (thorough); f_deep/ec_deep in {0, const, proportional to n}; formulas are monotone and piecewise linear with breakpoints inside the grid",
        "data-dependent sizes (wwOctetSize, wwWordSize, ...) are replaced by their upper bound in the length argument",
        "scratch used without advancing the stack pointer, region sizes inside a carve and blobCreate sizes of high-level functions are not decided here",
    ]
    return res
