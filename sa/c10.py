"""C10: incremental APIs -- the state-relocation clause and two structural conditions of the buffering clauses.
R10: a state that the headers declare copyable as a memory fragment never stores a pointer derived from the state
itself, from a local object or from the scratch stack.
R10.3 (sa/sb.py): a Get/Verify step writes no scalar state field that another function of its family reads before
writing (necessary for get-then-continue).
R10.4 (sa/sb.py): Step functions that implement the same buffering for different data operations (bashPrg
Absorb/Squeeze/Encr/Decr, belt CFB/ECB/BDE E/D) have identical branch/loop conditions and state updates.
(Chunking equivalence and the equality of results are value statements and are declined.)"""
import os, re
from . import ir, vp
from .ir import AnalysisBroken, strip, walk, show, root_ref
from .report import Result, COMMON_ASSUMPTIONS

REMARK = "Состояние можно копировать как фрагмент"
FAMILIES = {
    "include/bee2/crypto/belt.h": [re.compile(r"^src/crypto/belt/")],
    "include/bee2/crypto/brng.h": [re.compile(r"^src/crypto/brng\.c$")],
    "include/bee2/crypto/botp.h": [re.compile(r"^src/crypto/botp\.c$")],
}


def _addr_casts(f, state_ids=None):
    """(kind, node) for every conversion between pointers and integers in f, ASSERT arguments excluded: 'int2ptr' a
    pointer manufactured from a non-constant integer, 'ptr2int' the numeric value of an address taken"""
    out = []

    def rec(n, in_assert):
        if not isinstance(n, dict):
            return
        if n.get("k") == "Call" and n.get("callee") == "utilAssert":
            return
        if n.get("k") == "Cast" and isinstance(n.get("e"), dict):
            inner = n["e"]
            if n.get("p") and not inner.get("p") and ir.int_val(inner) is None and inner.get("k") != "Str":
                out.append(("int2ptr", n))
            elif not n.get("p") and inner.get("p") and (n.get("t") or "") not in ("void", "_Bool", "bool_t"):
                rr = root_ref(inner)
                # only the state moves: the alignment of a caller's data buffer may be looked at
                if state_ids is None or (rr is not None and rr.get("id") in state_ids):
                    out.append(("ptr2int", n))
        for c in ir.kids(n):
            rec(c, in_assert)
    rec(f.body, False)
    return out


def check_address_independent(prog, units, res):
    """R10.5: in the units whose states are declared copyable, nothing is computed from the numeric value of an address:
    no pointer into the state is converted to an integer and no pointer is made from an integer (outside ASSERT).  A layout that is a
    function of offsets only is the same wherever the state lies; one that rounds an absolute address is not."""
    from .frontend import VERIF
    st = ir.Program("w64", units=[os.path.join(VERIF, "selftest", "addr_positive.c")], tag="w64-addrself")
    hits = {f.name: [k for k, _ in _addr_casts(f)] for f in st.all_funcs() if f.body is not None}
    if sorted(hits.get("aligned_part", [])) != ["int2ptr", "ptr2int"] or hits.get("offset_part"):
        raise AnalysisBroken("R10.5 self-test: expected int2ptr+ptr2int in aligned_part and nothing in offset_part, got %r" % hits)
    n = 0
    from . import c14, sb
    stt = c14.state_types(prog)
    for u in units:
        for f in prog.by_unit[u]:
            if f.file != u or f.body is None:
                continue
            n += 1
            ids = set()
            for pi in (stt.get(f.name) or {}):
                if pi >= 0:
                    ids |= sb.state_aliases(f, pi)
            for kind, c in _addr_casts(f, ids):
                res.violation("R10.5-layout-independent-of-address", function=f.name, file=f.relfile, line=c.get("l") or f.line,
                              construct="%s: %s" % (kind, show(c)[:70]),
                              detail="the numeric value of an address enters a computation in code whose state the header declares "
                                     "copyable as a memory fragment: what is computed from it changes when the state is moved")
    res.proved("R10.5-layout-independent-of-address", function="(all)", file="src/crypto/belt, brng.c, botp.c", line=0,
               construct="%d functions without pointer/integer conversions" % n,
               detail="every address in these units is formed from a pointer and an offset")
    return n


def check_failed_verify_restores(prog, res):
    """R10.6: a Verify step that saves a state field before advancing the state (botpHOTPStepV / botpOCRAStepV:
    ctr1 <- ctr, then StepR) restores it on every return that does not report success, and only after the advance: a
    rejected password leaves the counter where it was (get-then-continue; round-9 seed C10/2)."""
    n = 0
    for f in prog.all_funcs():
        if f.body is None or f.relfile != "src/crypto/botp.c" or not re.search(r"StepV$", f.name):
            continue
        rets, early = [], []

        def on_return(e, rc, facts, node, cl, pend, env):
            rets.append((node.line, rc, {x[1:] for x in facts if x[0] == "from"}))

        def on_call(c, facts, node, cl):
            if re.search(r"StepR$|StepG$", c.get("callee") or ""):
                early.append((c.get("l") or node.line, c["callee"], {x[1:] for x in facts if x[0] == "from"}))
        vp.run_facts(f, prog, on_return=on_return, on_call=on_call, track_generic=True)
        saves = set()
        for _, _, fr in rets:
            saves |= {(d, s_) for d, s_ in fr if d.startswith("state->") and s_.startswith("state->") and (s_, d) not in saves}
        # the save is the copy that exists before the advancing call
        saved = {(d, s_) for _, _, fr in early for d, s_ in fr if d.startswith("state->") and s_.startswith("state->")}
        if not saved:
            continue            # a one-shot check (botpTOTPStepV): nothing is advanced
        n += 1
        bad = []
        for line, rc, fr in rets:
            if rc == "nonzero":
                continue
            for d, s_ in saved:
                if (s_, d) not in fr:
                    bad.append("the return at line %d (%s) is reached without %s having been copied back from %s" %
                               (line, "failure" if rc == "zero" else "result not known to be success", s_, d))
        for line, callee, fr in early:
            for d, s_ in saved:
                if (s_, d) in fr:
                    bad.append("%s is copied back from %s before %s advances it (line %d)" % (s_, d, callee, line))
        if bad:
            res.violation("R10.6-failed-verify-restores", function=f.name, file=f.relfile, line=f.line,
                          construct="save / restore of %s" % ", ".join(sorted(s_ for _, s_ in saved)),
                          detail="; ".join(sorted(set(bad))) + ": a rejected password leaves the state advanced, so every later "
                                 "step runs ahead of the peer")
        else:
            res.proved("R10.6-failed-verify-restores", function=f.name, file=f.relfile, line=f.line,
                       construct="save / restore of %s" % ", ".join(sorted(s_ for _, s_ in saved)),
                       detail="every return that does not report success follows the copy back, which follows the advancing call")
    if n < 2:
        raise AnalysisBroken("R10.6: %d Verify steps with a saved counter found, 2 confirmed by reading (HOTP, OCRA)" % n)
    return n


def run(tier, seed=0):
    res = Result("C10", "other", tier)
    prog = ir.Program("w64")
    units = []
    for hdr, pats in FAMILIES.items():
        path = os.path.join(ir.REPO, hdr)
        try:
            txt = open(path, encoding="utf-8", errors="replace").read()
        except OSError:
            raise AnalysisBroken("header %s vanished" % hdr)
        if REMARK not in re.sub(r"\s+", " ", txt):
            raise AnalysisBroken("%s no longer declares its states copyable: the specification of this rule changed" % hdr)
        for u in prog.units:
            if any(p.search(ir.relpath(u)) for p in pats):
                units.append(u)
    # state records: structs defined in those units
    recs = {}
    for u in units:
        for r in prog.units[u]["records"]:
            if r.get("file") == u and "fields" in r:
                recs[r["n"]] = (r, u)
    res.floor("state structs", len(recs), 15)
    nptr = 0
    ptr_fields = set()
    for name, (r, u) in sorted(recs.items()):
        pf = [f for f in r["fields"] if "*" in (f.get("ct") or "")]
        for f in pf:
            ptr_fields.add((name, f["n"]))
        nptr += len(pf)
        if not pf:
            res.proved("R10-position-independent", function=name, file=ir.relpath(u), line=r.get("l", 0),
                       construct="struct %s" % name, detail="no pointer-typed field: a byte copy of the state is complete",
                       nontrivial=False)
    # every store of a pointer value into memory of a state record
    nstores = 0
    for u in units:
        for f in prog.by_unit[u]:
            if f.file != u or f.body is None:
                continue
            canon = vp.Canon(f)
            locals_arrays = {d["id"] for d in walk(f.body) if d.get("k") == "Decl" and "[" in (d.get("t") or "")}
            for n in walk(f.body):
                if not (n.get("k") == "Bin" and n["op"] == "="):
                    continue
                lhs = strip(n["x"])
                if lhs.get("k") != "Member" or lhs.get("rec") not in recs:
                    continue
                fld = [x for x in recs[lhs["rec"]][0]["fields"] if x["n"] == lhs["f"]]
                if not fld or "*" not in (fld[0].get("ct") or ""):
                    continue
                nstores += 1
                rhs = strip(n["y"])
                base = canon(lhs["b"])
                val = canon(rhs)
                rr = root_ref(rhs)
                cls = "external"
                if ir.is_int(rhs, 0):
                    cls = "null"
                elif val == base or val.startswith(base + "->") or val.startswith(base + "+") or val.startswith(base + "."):
                    cls = "self"
                elif rr is not None and rr.get("rk") == "local" and (rr["id"] in locals_arrays or
                                                                     (rhs.get("k") == "Un" and rhs["op"] == "&")):
                    cls = "local"
                elif rr is not None and rr.get("n") == "stack":
                    cls = "stack"
                elif rr is not None and rr.get("rk") == "local" and rr.get("p"):
                    # pointer local: where does it point?
                    v2 = canon(rr)
                    if v2 == base or v2.startswith(base + "->") or v2.startswith(base + "+"):
                        cls = "self"
                if cls in ("self", "local", "stack"):
                    res.violation("R10-position-independent", function=f.name, file=f.relfile, line=n["l"],
                                  construct="%s.%s = pointer into %s" % (lhs["rec"], lhs["f"],
                                                                          {"self": "the state itself", "local": "a local object",
                                                                           "stack": "the scratch stack"}[cls]),
                                  detail="`%s` stores an address that does not survive copying the state to another place "
                                         "(the header declares the state copyable as a memory fragment)" % show(n)[:80])
                else:
                    res.proved("R10-position-independent", function=f.name, file=f.relfile, line=n["l"],
                               construct="%s.%s = %s pointer" % (lhs["rec"], lhs["f"], cls),
                               detail="`%s`: %s" % (show(n)[:60], "null" if cls == "null" else
                                                    "caller-owned buffer (documented to stay valid); independent of the state's address"))
            # raw copies of addresses into the state are not used by the tree; a memCopy of &local into a state would be flagged here
    nfun = check_address_independent(prog, units, res)
    res.floor("functions of copyable-state units", nfun, 150)
    from . import sb
    nget = sb.check_get_steps(prog, res, "R10.3-get-does-not-disturb")
    res.floor("Get/Verify steps", nget, 25)
    nsib = sb.check_sibling_steps(prog, res, "R10.4-sibling-steps-buffer-identically")
    res.floor("sibling Step functions", nsib, 23)
    check_failed_verify_restores(prog, res)
    res.coverage["pointer_fields"] = sorted("%s.%s" % x for x in ptr_fields)
    res.coverage["pointer_stores_checked"] = nstores
    res.coverage["explanation"] = (
        "Type inventory of the %d state structs of the families whose headers declare the state copyable as a memory "
        "fragment (belt.h, brng.h, botp.h): %d pointer-typed field(s); every assignment to such a field in the owning "
        "units is classified by the origin of the stored address (state itself / local / scratch stack = violation; "
        "caller-owned / null = fine). A struct without pointer fields cannot break the relocation clause. "
        "R10.3: for every family of functions over one state structure, per-path field-use analysis gives the scalar "
        "fields each function writes and those it reads before writing; a Get/Verify step (names Step[GV]n) may not "
        "write a field that another function of the family reads before writing (generator steps of botp/KRP, which "
        "advance the state by design, are tabled with reasons). R10.4: sibling cross-check of the buffering skeleton "
        "(conditions and scalar state updates in order, locals renamed, data operations abstracted) inside four frozen "
        "groups of Step functions. Equality of chunked and one-shot results is a value "
        "statement and is declined." % (len(recs), nptr))
    res.assumptions = COMMON_ASSUMPTIONS + [
        "addresses are stored into states only through typed pointer fields (no memCopy of an address into state bytes occurs in the tree)",
        "a caller-owned buffer whose address is kept (brng HMAC long IV) must stay valid by the header's own wording",
    ]
    return res
