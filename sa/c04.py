"""C04: bake (BMQV, BSTS, BPACE) and the token BAUTH protocol -- structural clauses.
R04.1 every received point is validated before EC arithmetic; R04.2 every step that verifies a confirmation
tag / signature component returns success only after the comparing call accepted, under the same settings flag
as the sibling step that produces the tag; R04.3 ephemeral scalars sampled modulo the order, long-term keys
range-checked at Start, operands of modular routines reduced; R04.4 the Run drivers propagate every step's
verdict; R04.5 confirmation/encryption keys kept in the state are derived, by an earlier step of the same party,
under every settings combination in which a later step reads them."""
import re
from . import ir, vp, vprules, c09
from .vprules import T, F, OK, FACT, CMP, ANY
from .ir import AnalysisBroken, strip
from .report import Result, COMMON_ASSUMPTIONS

FILES = {"src/crypto/bake.c", "src/crypto/btok/btok_bauth.c"}

FLAG = lambda name: CMP(True, r"settings->%s$" % name)


EQPT = lambda fs: any(x[0] == "T" and x[1].startswith(("wwEq(", "memEq(", "wwEq_fast(", "memEq_fast(")) for x in fs)


def implies(p, q):
    return lambda fs: (not p(fs)) or q(fs)


# verifying steps: (function, [(label, predicate on the facts of a success return)])
ACCEPT = [
    ("bakeBMQVStep4", [("kca => Ta verified (beltMACStepV)", implies(FLAG("kca"), T("beltMACStepV(")))]),
    ("bakeBMQVStep5", [("Tb verified (beltMACStepV)", T("beltMACStepV("))]),
    ("bakeBSTSStep4", [("Ta verified (beltMACStepV)", T("beltMACStepV(")), ("sa < q", FACT("ltc", r"order$")),
                       ("certificate accepted (vala)", OK("(*vala)(")), ("sa G == Va check (wwEq)", EQPT)]),
    ("bakeBSTSStep5", [("Tb verified (beltMACStepV)", T("beltMACStepV(")), ("sb < q", FACT("ltc", r"order$")),
                       ("certificate accepted (valb)", OK("(*valb)(")), ("sb G == Vb check (wwEq)", EQPT)]),
    ("bakeBPACEStep5", [("kcb => Tb verified (beltMACStepV)", implies(FLAG("kcb"), T("beltMACStepV(")))]),
    ("bakeBPACEStep6", [("Ta verified (beltMACStepV)", T("beltMACStepV("))]),
    ("btokBAuthTStep3", [("key token unwrapped (beltKWPUnwrap == ERR_OK)", ANY(CMP(False, r"beltKWPUnwrap\(.*!=0"), CMP(True, r"beltKWPUnwrap\(.*==0")))]),
    ("btokBAuthCTStep4", [("Tt verified (beltMACStepV)", T("beltMACStepV("))]),
    ("btokBAuthTStep5", [("Tct verified (beltMACStepV)", T("beltMACStepV(")), ("sct < q", FACT("ltc", r"order$")),
                         ("certificate accepted (val_ct)", OK("(*val_ct)(")), ("sct check (wwEq)", EQPT)]),
]
STARTS = ["bakeBMQVStart", "bakeBSTSStart", "btokBAuthCTStart", "btokBAuthTStart"]

# (protocol prefix, party) -> ordered steps
PARTIES = {
    ("bakeBMQV", "B"): ["bakeBMQVStart", "bakeBMQVStep2", "bakeBMQVStep4"],
    ("bakeBMQV", "A"): ["bakeBMQVStart", "bakeBMQVStep3", "bakeBMQVStep5"],
    ("bakeBSTS", "B"): ["bakeBSTSStart", "bakeBSTSStep2", "bakeBSTSStep4"],
    ("bakeBSTS", "A"): ["bakeBSTSStart", "bakeBSTSStep3", "bakeBSTSStep5"],
    ("bakeBPACE", "B"): ["bakeBPACEStart", "bakeBPACEStep2", "bakeBPACEStep4", "bakeBPACEStep6"],
    ("bakeBPACE", "A"): ["bakeBPACEStart", "bakeBPACEStep3", "bakeBPACEStep5"],
    ("btokBAuth", "CT"): ["btokBAuthCTStart", "btokBAuthCTStep2", "btokBAuthCTStep4"],
    ("btokBAuth", "T"): ["btokBAuthTStart", "btokBAuthTStep3", "btokBAuthTStep5"],
}
KEYFIELDS = ("K0", "K1", "K2")
FLAGS = ("kca", "kcb")


def flag_constraints(facts):
    c = {}
    for x in facts:
        if x[0] == "cmp":
            m = re.search(r"settings->(kca|kcb)$", x[2])
            if m:
                c[m.group(1)] = x[1]
    return c


def consistent(c, a):
    return all(a[k] == v for k, v in c.items())


def check_key_material(prog, res):
    """R04.5"""
    n = 0
    for (proto, party), steps in sorted(PARTIES.items()):
        writes = {k: [] for k in KEYFIELDS}    # field -> [(step index, constraints, line)]
        reads = {k: [] for k in KEYFIELDS}
        for idx, fn in enumerate(steps):
            f = prog.funcs.get(fn)
            if f is None or f.body is None:
                raise AnalysisBroken("protocol step %s vanished" % fn)

            def on_call(c, facts, node, cl, idx=idx, fn=fn):
                names = [cl.canon(a) for a in c["a"]]
                proto_ = prog.proto(c.get("callee"), f.unit) if c.get("callee") else None
                for i, nm in enumerate(names):
                    m = re.match(r"state->(K[012])$", nm)
                    if not m:
                        continue
                    writable = True
                    if proto_ is not None and i < len(proto_.params):
                        writable = not proto_.params[i].get("pc")
                    cons = flag_constraints(facts)
                    (writes if writable else reads)[m.group(1)].append((idx, tuple(sorted(cons.items())), c["l"], fn, c.get("callee")))

            vp.run_facts(f, prog, on_call=on_call, track_generic=True)
        for k in KEYFIELDS:
            rs = sorted(set(reads[k]))
            for (ridx, rc, rline, rfn, rcallee) in rs:
                n += 1
                rc = dict(rc)
                missing = []
                for kca in (False, True):
                    for kcb in (False, True):
                        a = {"kca": kca, "kcb": kcb}
                        if not consistent(rc, a):
                            continue
                        ok = any(widx <= ridx and consistent(dict(wc), a) and (widx < ridx or wline < rline)
                                 for (widx, wc, wline, wfn, wcal) in writes[k])
                        if not ok:
                            missing.append("kca=%d,kcb=%d" % (kca, kcb))
                f = prog.funcs[rfn]
                if missing:
                    res.violation("R04.5-key-derived-before-use", function=rfn, file=f.relfile, line=rline,
                                  construct="%s read by %s" % (k, rcallee),
                                  detail="party %s of %s reads the state key %s at line %d under settings {%s}, but no earlier step of "
                                         "this party (or earlier statement of this step) derives %s for %s" %
                                         (party, proto, k, rline, ", ".join("%s=%s" % kv for kv in sorted(rc.items())) or "any",
                                          k, "; ".join(missing)))
                else:
                    res.proved("R04.5-key-derived-before-use", function=rfn, file=f.relfile, line=rline,
                               construct="%s read by %s" % (k, rcallee),
                               detail="derived by this party for every settings combination in which this read executes")
    return n


def check_tag_agreement(prog, res):
    """producer of a confirmation tag and its verifier sit under the same settings flag"""
    pairs = [("bakeBMQVStep3", "bakeBMQVStep4", "Ta"), ("bakeBMQVStep4", "bakeBMQVStep5", "Tb"),
             ("bakeBPACEStep4", "bakeBPACEStep5", "Tb"), ("bakeBPACEStep5", "bakeBPACEStep6", "Ta"),
             ("bakeBSTSStep3", "bakeBSTSStep4", "Ta"), ("bakeBSTSStep4", "bakeBSTSStep5", "Tb"),
             ("btokBAuthTStep3", "btokBAuthCTStep4", "Tt"), ("btokBAuthCTStep4", "btokBAuthTStep5", "Tct")]

    def sites(fn, callee):
        f = prog.funcs.get(fn)
        if f is None or f.body is None:
            raise AnalysisBroken("protocol step %s vanished" % fn)
        out = set()
        early = set()

        def on_call(c, facts, node, cl):
            if c.get("callee") == callee:
                out.add(tuple(sorted(flag_constraints(facts).items())))

        def on_return(e, rc, facts, node, cl, pend, env):
            # `if (!settings->kcX) return ERR_BAD_LOGIC` at the head: the step exists only under that flag
            pass
        vp.run_facts(f, prog, on_call=on_call, track_generic=True)
        return out, f

    for prod, cons, tag in pairs:
        p, pf = sites(prod, "beltMACStepG")
        c, cf = sites(cons, "beltMACStepV")
        if not p:
            raise AnalysisBroken("tag %s: producer %s has no beltMACStepG call" % (tag, prod))
        if not c:
            res.violation("R04.2-tag-writer-reader-agree", function=cons, file=cf.relfile, line=cf.line,
                          construct="tag %s: %s -> %s" % (tag, prod, cons),
                          detail="%s produces the confirmation tag %s but %s never verifies it (no beltMACStepV)" % (prod, tag, cons))
            continue

        def assignments(cset):
            s = set()
            for cc in cset:
                for kca in (False, True):
                    for kcb in (False, True):
                        if consistent(dict(cc), {"kca": kca, "kcb": kcb}):
                            s.add((kca, kcb))
            return s
        pa, ca = assignments(p), assignments(c)
        # the producer may emit several tags (BSTS Step4 produces Tb and verifies Ta): compare on the flag the verifier names
        vflags = {k for cc in c for k, v in cc}
        if not vflags:
            # verifier is unconditional inside its function: it must be reachable only when the tag was produced
            ok = True
        else:
            proj = lambda s, fl=vflags: {tuple(v for k, v in zip(("kca", "kcb"), a) if k in fl) for a in s}
            ok = proj(ca) <= proj(pa)
        if ok:
            res.proved("R04.2-tag-writer-reader-agree", function=cons, file=cf.relfile, line=cf.line,
                       construct="tag %s: %s -> %s" % (tag, prod, cons),
                       detail="verified under settings %s; produced under %s" % (sorted(c), sorted(p)))
        else:
            res.violation("R04.2-tag-writer-reader-agree", function=cons, file=cf.relfile, line=cf.line,
                          construct="tag %s: %s -> %s" % (tag, prod, cons),
                          detail="the verifier checks the tag under %s but the producing step emits it under %s: the "
                                 "parties disagree on when the tag is present" % (sorted(c), sorted(p)))


_EQ_CALLS = ("wwEq(", "memEq(", "wwEq_fast(", "memEq_fast(")


def _split_args(text):
    """arguments of a canonical call text `f(a,b,c)`"""
    body = text[text.index("(") + 1:text.rindex(")")]
    out, depth, cur = [], 0, ""
    for ch in body:
        if ch == "," and depth == 0:
            out.append(cur); cur = ""
            continue
        depth += ch == "("
        depth -= ch == ")"
        cur += ch
    out.append(cur)
    return out


def _words(text, octets):
    """a length in multiples of the field length n (words), or None: n, (2*n), no, (2*no), (n*8), ((2*n)*8)"""
    t = text.replace(" ", "")
    while t.startswith("(") and t.endswith(")") and t.count("(") == t.count(")") and _balanced(t[1:-1]):
        t = t[1:-1]
    m = re.match(r"^(?:(\d+)\*)?(n|no)$", t) or re.match(r"^(n|no)\*(\d+)$", t)
    if m:
        g = m.groups()
        sym = g[1] if g[1] in ("n", "no") else g[0]
        k = g[0] if g[1] in ("n", "no") else g[1]
        k = int(k) if k else 1
        if (sym == "no") != octets:
            return None
        return k
    m = re.match(r"^(.+)\*8$", t)
    if m and octets:
        return _words(m.group(1), False)
    return None


def _balanced(t):
    d = 0
    for ch in t:
        d += ch == "("
        d -= ch == ")"
        if d < 0:
            return False
    return d == 0


def check_point_compared_in_full(prog, res):
    """R04.6: the steps that accept the peer's signature-like component by comparing a recomputed point with the
    received one (s*G + (2^l + t)*Q == V) compare both coordinates: on every success return the accepted comparisons
    cover words [0, 2n) of the point.  A comparison of the x-coordinate alone accepts the opposite point (seeds C04-7,
    round 9 C04/1)."""
    n = 0
    for fn, req in ACCEPT:
        if not any("wwEq" in label for label, _ in req):
            continue
        f = prog.funcs.get(fn)
        if f is None or f.body is None:
            raise AnalysisBroken("protocol step %s vanished" % fn)
        rets = []

        def on_return(e, rc, facts, node, cl, pend, env):
            if rc == "zero":
                rets.append((node.line, [x[1] for x in facts if x[0] == "T" and x[1].startswith(_EQ_CALLS)]))
        vp.run_facts(f, prog, on_return=on_return, track_generic=True)
        if not rets:
            raise AnalysisBroken("R04.6: %s has no success return" % fn)
        for line, calls in rets:
            n += 1
            parsed = []
            for c in sorted(set(calls)):
                a = _split_args(c)
                if len(a) != 3:
                    raise AnalysisBroken("R04.6: comparison %s in %s is not of the form f(a, b, length)" % (c, fn))
                k = _words(a[2], c.startswith("mem"))
                if k is None and re.match(r"^\(*\d+\)*$", a[2].replace(" ", "")):
                    continue     # a comparison over a constant number of octets / words is not a point comparison
                if k is None:
                    raise AnalysisBroken("R04.6: the length of %s in %s is not a multiple of the field length that this rule reads" % (c, fn))
                parsed.append((a[0], a[1], k, c))
            if not parsed:
                continue         # R04.2 reports a success return without the comparison
            a0 = min((p_[0] for p_ in parsed), key=len)
            b0 = min((p_[1] for p_ in parsed), key=len)
            ivs = []
            for a_, b_, k, c in parsed:
                offs = []
                for x, x0 in ((a_, a0), (b_, b0)):
                    if x == x0:
                        offs.append(0)
                    elif x in (x0 + "+n", "(" + x0 + ")+n", x0 + "+(n)"):
                        offs.append(1)
                    else:
                        offs.append(None)
                if offs[0] is None or offs[0] != offs[1]:
                    continue     # a comparison of something else
                ivs.append((offs[0], k))
            cur = 0
            for s_, k in sorted(ivs):
                if s_ <= cur:
                    cur = max(cur, s_ + k)
            if cur >= 2:
                res.proved("R04.6-point-compared-in-full", function=fn, file=f.relfile, line=line,
                           construct="; ".join(p_[3] for p_ in parsed),
                           detail="the accepted comparison(s) cover both coordinates (2n words) of the recomputed point")
            else:
                res.violation("R04.6-point-compared-in-full", function=fn, file=f.relfile, line=line,
                              construct="; ".join(p_[3] for p_ in parsed),
                              detail="on the success return at line %d the recomputed point is compared with the received one over "
                                     "%d of its 2 coordinates only: the point with the other coordinate altered (the opposite "
                                     "point) is accepted, although the peer's message was changed" % (line, cur))
    return n


def run(tier, seed=0):
    res = Result("C04", "other", tier)
    prog = ir.Program("w64")
    n1 = vprules.check_points(prog, res, "R04.1-received-points-validated", FILES, {}, {})
    for fn, req in ACCEPT:
        vprules.check_must(prog, res, "R04.2-accept-only-verified", fn, req)
    check_tag_agreement(prog, res)
    n6 = check_point_compared_in_full(prog, res)
    if n6 < 3:
        raise AnalysisBroken("R04.6: %d success returns of point-comparing steps found, 3 confirmed by reading" % n6)
    n3 = vprules.check_sampling(prog, res, "R04.3-sampling-modulus", FILES)
    n4 = vprules.check_modular_operands(prog, res, "R04.3-modular-operands-reduced", FILES)
    # R04.4 drivers
    nd = 0
    for f in prog.all_funcs():
        if f.relfile in FILES and re.search(r"Run[AB]$|RunCT$|RunT$", f.name):
            cl = c09.ErrClient(f, prog)
            ir.run_paths(f, cl)
            nd += 1
            if cl.viol:
                for v in cl.viol.values():
                    res.violation("R04.4-driver-propagates-verdict", function=f.name, file=f.relfile, line=v["line"],
                                  construct=v["construct"], detail=v["detail"])
            else:
                res.proved("R04.4-driver-propagates-verdict", function=f.name, file=f.relfile, line=f.line,
                           construct="all step results", detail="every step's err_t result is tested before the next step runs")
    n5 = check_key_material(prog, res)
    res.floor("received points", n1, 12)
    res.floor("sampling sites", n3, 7)
    res.floor("modular call sites", n4, 8)
    res.floor("drivers", nd, 6)
    res.floor("state-key reads", n5, 15)
    res.coverage["explanation"] = (
        "Validation-presence analysis on all paths of every bake/BAUTH step: received points pass qrFrom x2 and "
        "ecpIsOnA before any EC arithmetic; each verifying step succeeds only after beltMACStepV / wwEq / the "
        "certificate callback / the component range test accepted, under the settings flag of the step that produces "
        "the tag (writer/reader agreement over the four kca/kcb combinations); ephemeral scalars are sampled modulo "
        "the order and long-term keys range-checked at Start; drivers test every step result; state keys K0/K1/K2 are "
        "derived by an earlier step of the same party in every settings combination in which they are read. "
        "Agreement of the derived keys and rejection of every tampered run are value statements and are declined.")
    res.assumptions = COMMON_ASSUMPTIONS + [
        "steps of the same parity belong to the same party (B: even, A: odd; BAUTH: CT/T by name); the tables are frozen in sa/c04.py",
        "state fields written by an earlier step (u, d, Vb, Vct) are trusted in later steps because their writer is checked",
    ]
    return res
