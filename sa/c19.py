"""C19: all build configurations compute the same function -- two necessary conditions.
R19.1 assertion-enabled builds are observationally release builds: ASSERT arguments are free of side effects
(no assignment / increment, only externally pure callees);
R19.2 one API in every configuration: the externally visible functions and their prototypes are identical for
B_PER_W 64/32, regular/fast edition (modulo the documented SAFE/FAST renaming) and every bash-f platform; every
regular edition has a fast twin of identical type."""
import os, re, subprocess
from . import ir, eff, frontend
from .ir import AnalysisBroken, strip, walk, show
from .report import Result, COMMON_ASSUMPTIONS


def check_asserts(prog, res):
    E = eff.Effects(prog)
    n = 0
    nbad = 0
    per_file = {}
    for f in prog.all_funcs(with_headers=True):
        if f.body is None:
            continue
        for c in ir.calls(f.body):
            if c.get("callee") != "utilAssert" or not c["a"]:
                continue
            n += 1
            per_file[f.relfile] = per_file.get(f.relfile, 0) + 1
            arg = c["a"][0]
            bad = None
            for m in walk(arg):
                k = m.get("k")
                if k == "Bin" and m["op"] in ir.ASSIGN_OPS:
                    bad = "assignment `%s`" % show(m)[:50]
                elif k == "Un" and m["op"] in ("pre++", "pre--", "post++", "post--"):
                    bad = "increment/decrement `%s`" % show(m)[:50]
                elif k == "Call":
                    ok, why = E.is_pure_call(m, f.unit)
                    if not ok:
                        bad = "call with side effects: %s" % why
                if bad:
                    break
            if bad:
                nbad += 1
                res.violation("R19.1-assert-pure", function=f.name, file=f.relfile, line=c["l"],
                              construct="ASSERT argument has a side effect",
                              detail="ASSERT(%s) contains %s: with NDEBUG the expression is not evaluated, so assertion-enabled "
                                     "and release builds compute different states" % (show(arg)[:60], bad))
    for rel, cnt in sorted(per_file.items()):
        res.proved("R19.1-assert-pure", function="*", file=rel, line=0, construct="%d ASSERT argument(s)" % cnt,
                   detail="no assignment, increment or externally impure call in any ASSERT argument of this file")
    res.floor("ASSERT sites", n, 1200)
    res.coverage["assert_sites"] = n
    return n


def api_of(prog):
    """name -> prototype string of every externally visible function defined in src/"""
    api = {}
    for f in prog.all_funcs():
        if f.static or f.body is None or not f.public:
            continue
        proto = "%s(%s%s)" % (f.ret.get("t"), ", ".join(p["t"] for p in f.params), ", ..." if f.variadic else "")
        api[f.name] = (proto, f.relfile, f.line)
    return api


def base_name(n):
    for suf in ("_safe", "_fast"):
        if n.endswith(suf):
            return n[:-len(suf)], suf
    return n, ""


def check_api(res, tier):
    ref = ir.Program("w64")
    api = {"w64": api_of(ref)}
    for cfg in ("w32", "w64fast") + (("w32fast",) if tier == "thorough" else ()):
        api[cfg] = api_of(ir.Program(cfg))
    r = api["w64"]
    # word size
    for cfg in [c for c in api if c.startswith("w32") and not c.endswith("fast")]:
        a = api[cfg]
        missing = sorted(set(r) - set(a))
        extra = sorted(set(a) - set(r))
        diff = sorted(k for k in set(r) & set(a) if r[k][0] != a[k][0])
        if missing or extra or diff:
            for k in (missing + extra + diff)[:10]:
                src = r.get(k) or a.get(k)
                res.violation("R19.2-one-api", function=k, file=src[1], line=src[2], construct="64-bit vs 32-bit word build",
                              detail="%s is %s" % (k, "missing in the 32-bit-word configuration" if k in missing else
                                                   "defined only in the 32-bit-word configuration" if k in extra else
                                                   "declared `%s` with 64-bit words but `%s` with 32-bit words" % (r[k][0], a[k][0])))
        else:
            res.proved("R19.2-one-api", function="*", file="src/", line=0, construct="B_PER_W 64 vs 32",
                       detail="%d externally visible functions with identical prototypes" % len(r))
    # editions
    fa = api["w64fast"]
    reg_bases = {}
    for n in r:
        b, suf = base_name(n)
        reg_bases.setdefault(b, {})[suf] = r[n]
    fast_bases = {}
    for n in fa:
        b, suf = base_name(n)
        fast_bases.setdefault(b, {})[suf] = fa[n]
    editions = sorted(b for b, d in reg_bases.items() if "_fast" in d)
    res.floor("regular editions", len(editions), 33)
    res.coverage["regular_editions"] = editions
    for b in editions:
        d = reg_bases[b]
        src = d[""] if "" in d else d["_fast"]
        if "" not in d:
            res.violation("R19.2-edition-twins", function=b, file=src[1], line=src[2], construct="regular edition missing",
                          detail="%s_fast exists but the default build defines no %s" % (b, b))
            continue
        if d[""][0] != d["_fast"][0]:
            res.violation("R19.2-edition-twins", function=b, file=src[1], line=src[2], construct="SAFE/FAST prototypes differ",
                          detail="regular edition `%s` vs fast edition `%s`" % (d[""][0], d["_fast"][0]))
            continue
        fd = fast_bases.get(b, {})
        if "" not in fd or "_safe" not in fd or fd[""][0] != d[""][0] or fd["_safe"][0] != d[""][0]:
            res.violation("R19.2-edition-twins", function=b, file=src[1], line=src[2], construct="SAFE_FAST build",
                          detail="with SAFE_FAST the pair %s / %s_safe is missing or has a different prototype" % (b, b))
            continue
        res.proved("R19.2-edition-twins", function=b, file=src[1], line=src[2], construct="%s / %s_fast / %s_safe" % (b, b, b),
                   detail="identical prototype `%s` in both editions and both builds" % d[""][0])
    if set(reg_bases) != set(fast_bases):
        odd = sorted(set(reg_bases) ^ set(fast_bases))
        for k in odd[:10]:
            src = (reg_bases.get(k) or fast_bases.get(k))
            src = list(src.values())[0]
            res.violation("R19.2-one-api", function=k, file=src[1], line=src[2], construct="regular vs SAFE_FAST build",
                          detail="%s exists in only one of the two edition builds" % k)
    else:
        res.proved("R19.2-one-api", function="*", file="src/", line=0, construct="regular vs SAFE_FAST",
                   detail="%d base names in both builds" % len(reg_bases))
    # bash platforms
    plats = {"BASH_64": [], "BASH_32": ["-DBASH_32"], "BASH_SSE2": ["-DBASH_SSE2", "-msse2"],
             "BASH_AVX2": ["-DBASH_AVX2", "-mavx2"], "BASH_AVX512": ["-DBASH_AVX512", "-mavx512f"]}
    unit = os.path.join(ir.REPO, "src/crypto/bash/bash_f.c")
    sigs = {}
    for name, flags in plats.items():
        p = ir.Program("w64", units=[unit], extra_flags=flags, tag="bash-" + name)
        a = api_of_with_headers(p)
        plat = [g for g in p.units[unit]["globals"] if g["n"] == "bash_platform"]
        sigs[name] = a
        # the intended variant was really selected?
        src = open(unit).read()
    ref_sig = sigs["BASH_64"]
    for name, a in sigs.items():
        if a == ref_sig and a:
            res.proved("R19.2-one-api", function="bashF", file="src/crypto/bash/bash_f.c", line=0, construct="platform %s" % name,
                       detail="defines %s with the same prototypes as BASH_64" % sorted(a))
        else:
            res.violation("R19.2-one-api", function="bashF", file="src/crypto/bash/bash_f.c", line=0, construct="platform %s" % name,
                          detail="platform %s defines %s, BASH_64 defines %s" % (name, {k: v for k, v in a.items()}, ref_sig))
    # the #if cascade of bash_f.c ends in an #else (some variant is always selected)
    txt = open(unit).read()
    if re.search(r"#else\s*\n\s*#include \"bash_f64\.c\"", txt) or re.search(r"#else[^#]*#include", txt):
        res.proved("R19.2-cascade-total", function="bash_f.c", file="src/crypto/bash/bash_f.c", line=0, construct="#if cascade",
                   detail="the platform cascade ends in #else")
    else:
        res.violation("R19.2-cascade-total", function="bash_f.c", file="src/crypto/bash/bash_f.c", line=0, construct="#if cascade",
                      detail="the platform cascade has no #else: some configuration defines no bashF")


def api_of_with_headers(prog):
    api = {}
    for u in prog.by_unit:
        for f in prog.by_unit[u]:
            if f.static or f.body is None or not f.public:
                continue
            api[f.name] = "%s(%s)" % (f.ret.get("t"), ", ".join(p["t"] for p in f.params))
    return api


def run(tier, seed=0):
    res = Result("C19", "other", tier)
    prog = ir.Program("w64")
    check_asserts(prog, res)
    if tier == "thorough":
        for cfg in ("w32", "w64fast"):
            r2 = Result("C19", "other", tier)
            check_asserts(ir.Program(cfg), r2)
            for i in r2.instances:
                if i["status"] != "proved":
                    i["detail"] += " [configuration %s]" % cfg
                    res.instances.append(i)
    check_api(res, tier)
    res.coverage["explanation"] = (
        "R19.1: every ASSERT argument in src/ (and in the headers' inline functions) is scanned for assignments, "
        "increments and calls whose bottom-up effect summary (writes a global, writes through a pointer parameter, "
        "allocates, locks, calls through an unknown pointer) is not empty. R19.2: the set of externally visible function "
        "definitions and their canonical prototypes is compared across B_PER_W 64/32, regular/SAFE_FAST (modulo the "
        "_safe/_fast renaming, every regular edition must have a fast twin of identical type) and the five bash-f "
        "platforms. Equality of outputs across configurations for all inputs is a value statement and is declined.")
    res.assumptions = COMMON_ASSUMPTIONS + [
        "B_PER_W=32 is obtained with -U__SIZEOF_INT128__ (64-bit size_t); -m32 headers are not installed",
        "optimisation level is not an axis of these two rules",
        "VERIFY(e) evaluates e in both builds and is therefore exempt from R19.1",
    ]
    return res
