"""C12: validators -- structural clauses.
R12.1 each validator reports success only on paths where every member of its (frozen, read-off) sub-check set was
accepted; R12.2 YYMMDD octets are digit-checked before they enter arithmetic; R12.3 the Rabin-Miller iteration count
passed by priIsPrime is at least B_PER_IMPOSSIBLE / 2."""
import re, subprocess
from . import ir, vp, mustcall
from .ir import AnalysisBroken, strip, walk, is_int, int_val
from .report import Result, COMMON_ASSUMPTIONS


def macro_value(name, header="bee2/defs.h"):
    src = '#include "%s"\nlong long __v = (%s);\n' % (header, name)
    p = subprocess.run(["clang", "-I%s/include" % ir.REPO, "-x", "c", "-", "-S", "-emit-llvm", "-o", "-"],
                       input=src, stdout=subprocess.PIPE, stderr=subprocess.PIPE, text=True)
    m = re.search(r"@__v = .*global i64 (-?\d+)", p.stdout)
    if not m:
        raise AnalysisBroken("cannot evaluate macro %s: %s" % (name, p.stderr[-200:]))
    return int(m.group(1))


def check_digits(prog, res):
    f = prog.funcs.get("tmDateIsValid2")
    if f is None or f.body is None:
        raise AnalysisBroken("tmDateIsValid2 vanished")
    date = f.params[0]["id"]

    def is_date_elem(e):
        e = strip(e)
        if e.get("k") == "Index" and strip(e["b"]).get("k") == "Ref" and strip(e["b"])["id"] == date:
            return int_val(e["i"])
        return None

    def digit_test(e, pol=True):
        """index i if e (with polarity) states date[i] <= 9"""
        e = strip(e)
        if e.get("k") == "Un" and e["op"] == "!":
            return digit_test(e["e"], not pol)
        if e.get("k") != "Bin":
            return None
        i = is_date_elem(e["x"])
        v = int_val(e["y"])
        if i is None or v is None:
            return None
        op = e["op"]
        if pol and ((op == "<" and v <= 10) or (op == "<=" and v <= 9)):
            return i
        if not pol and ((op == ">" and v <= 9) or (op == ">=" and v <= 10)):
            return i
        return None

    findings = {}

    class C(ir.Client):
        def init(self, func):
            return frozenset()

        def assume(self, c, pol, st, env, node):
            i = digit_test(c, pol)
            return st | {i} if i is not None else st

        def _arith_uses(self, e, st, node, top=True):
            e = strip(e)
            k = e.get("k")
            if k == "Bin" and e["op"] == "&&":
                st = self._arith_uses(e["x"], st, node)
                i = digit_test(e["x"], True)
                if i is not None:
                    st = st | {i}
                st = self._arith_uses(e["y"], st, node)
                i = digit_test(e["y"], True)
                return st | {i} if i is not None else st
            for n in walk(e):
                if n.get("k") == "Bin" and n["op"] in ("*", "+", "-", "/", "%", "<<"):
                    for side in (n["x"], n["y"]):
                        i = is_date_elem(side)
                        if i is not None:
                            findings.setdefault(i, []).append((i in st, node.line))
            return st

        def eval(self, e, st, env, node):
            return self._arith_uses(e, st, node)

    ir.run_paths(f, C())
    if len(findings) < 6:
        raise AnalysisBroken("tmDateIsValid2: only %d of the 6 date octets enter arithmetic; rule cannot be applied" % len(findings))
    for i, us in sorted(findings.items()):
        if all(ok for ok, _ in us):
            res.proved("R12.2-date-digits", function="tmDateIsValid2", file=f.relfile, line=us[0][1], construct="date[%d]" % i,
                       detail="compared against 9 (failing arm rejects) before it enters 10*hi + lo")
        else:
            res.violation("R12.2-date-digits", function="tmDateIsValid2", file=f.relfile, line=us[0][1],
                          construct="date[%d] used in arithmetic without a digit test" % i,
                          detail="date[%d] enters 10*hi + lo without `<= 9` having been established: a non-digit octet is "
                                 "accepted as part of a valid date" % i)


def check_rm_iterations(prog, res):
    f = prog.funcs.get("priIsPrime")
    if f is None or f.body is None:
        raise AnalysisBroken("priIsPrime vanished")
    cs = [c for c in ir.calls(f.body) if c.get("callee") == "priRMTest"]
    if not cs:
        raise AnalysisBroken("priIsPrime no longer calls priRMTest")
    bpi = macro_value("B_PER_IMPOSSIBLE")
    for c in cs:
        it = int_val(c["a"][2])
        if it is None:
            res.undecided("R12.3-rabin-miller-iterations", function="priIsPrime", file=f.relfile, line=c["l"],
                          construct="iteration argument", detail="iteration count is not a compile-time constant")
        elif 2 * it >= bpi:
            res.proved("R12.3-rabin-miller-iterations", function="priIsPrime", file=f.relfile, line=c["l"],
                       construct="iteration argument", detail="%d iterations: 4^-%d <= 2^-%d (B_PER_IMPOSSIBLE)" % (it, it, bpi))
        else:
            res.violation("R12.3-rabin-miller-iterations", function="priIsPrime", file=f.relfile, line=c["l"],
                          construct="iteration argument",
                          detail="%d Rabin-Miller iterations give error 4^-%d > 2^-%d (B_PER_IMPOSSIBLE = %d)" % (it, it, bpi, bpi))


# comparing primitives: callee -> indices of the two compared buffers
COMPARATORS = {"wwCmp": (0, 1), "wwCmp2": (0, 2), "wwEq": (0, 1), "memEq": (0, 1), "memCmp": (0, 1), "memCmpRev": (0, 1),
               "strEq": (0, 1), "strCmp": (0, 1), "qrCmp": (0, 1), "memcmp": (0, 1), "wwEq_fast": (0, 1), "wwCmp_fast": (0, 1),
               "memEq_fast": (0, 1), "memCmp_fast": (0, 1)}


def check_self_comparison(prog, res):
    """R12.4: a comparison decides something only if its operands can differ: both operands of a comparing primitive are
    different objects (canonical expressions after substituting single-assignment locals).  The Hasse test of
    ec2SeemsValidGroup compared t3 with t3."""
    from . import vp
    n = 0
    for f in prog.all_funcs():
        if f.body is None:
            continue
        canon = None
        for c in ir.calls(f.body):
            idx = COMPARATORS.get(c.get("callee"))
            if idx is None or max(idx) >= len(c["a"]):
                continue
            if canon is None:
                canon = vp.Canon(f)
            a, b = canon(c["a"][idx[0]]), canon(c["a"][idx[1]])
            n += 1
            if a == b:
                res.violation("R12.4-comparison-operands-distinct", function=f.name, file=f.relfile, line=c["l"],
                              construct="%s compares `%s` with itself" % (c["callee"], a[:40]),
                              detail="both operands of %s are the same object `%s`: the outcome does not depend on the "
                                     "value the test was meant to examine" % (c["callee"], a[:60]))
    res.proved("R12.4-comparison-operands-distinct", function="(all of src/)", file="src", line=0,
               construct="%d calls of comparing primitives" % n, detail="no call compares an object with itself")
    res.floor("comparison call sites", n, 300)


# ---- R12.5: the import functions of a ring test the imported value, not something computed from it
class ImportTested(ir.Client):
    """state: (buffer holding the freshly imported octets or None, was it range-tested while fresh)"""

    def __init__(self, f, prog, src):
        from . import vp
        self.f, self.prog, self.src = f, prog, src
        self.canon = vp.Canon(f)
        self.success = []

    def init(self, func):
        return (None, False)

    def _calls(self, e, st):
        fresh, ok = st
        for c in reversed([n for n in ir.walk(e) if n.get("k") == "Call"]):
            cn = c.get("callee") or ""
            if cn == "utilAssert":
                continue
            names = [self.canon(a) for a in c["a"]]
            if cn in ("wwFrom", "u32From", "u64From", "memCopy", "memMove") and len(names) >= 2 and names[1] == self.src:
                fresh = names[0]
                continue
            proto = self.prog.proto(cn, self.f.unit) if cn else None
            for i, a in enumerate(c["a"]):
                if names[i] == fresh and strip(a).get("p"):
                    const = proto is not None and i < len(proto.params) and proto.params[i].get("pc")
                    if not const and cn not in ("wwCmp", "wwIsZero", "wwBitSize", "wwEq"):
                        fresh = None           # the imported value was changed before it was tested
        return (fresh, ok)

    def _tests(self, c, st):
        fresh, ok = st
        if fresh is None:
            return st
        for n in ir.walk(c):
            if n.get("k") == "Call" and n.get("callee") in ("wwCmp",) and n["a"] and self.canon(n["a"][0]) == fresh:
                ok = True
        return (fresh, ok)

    def eval(self, e, st, env, node):
        return self._calls(e, st)

    def assume(self, c, pol, st, env, node):
        st = self._calls(c, st)
        return self._tests(c, st) if pol else st

    def ret(self, e, st, env, node):
        if e is not None:
            st2 = self._tests(e, self._calls(e, st))
            v = ir.eval_abs(e, env)
            if v == ("c", 0):
                return st
            self.success.append((node.line, st2[1]))
            return st2
        return st


def check_import_tested(prog, res):
    """R12.5: every function installed in a ring's `from` slot (zmFrom, zmFromMont, gf2From) compares the value it
    has just loaded from the caller's octets with the modulus while that value is still what was loaded; a test applied
    after a reduction is always true and lets every octet string through (sibling agreement of the slot's functions)."""
    slot = set()
    for f in prog.all_funcs():
        if f.body is None or not f.relfile.startswith("src/math/"):
            continue
        for n in ir.walk(f.body):
            if n.get("k") == "Bin" and n.get("op") == "=" and strip(n["x"]).get("k") == "Member" and strip(n["x"]).get("f") == "from":
                r = strip(n["y"])
                if r.get("k") == "Ref" and r.get("n"):
                    slot.add(r["n"])
    if len(slot) < 3:
        raise AnalysisBroken("fewer than three functions installed in a `from` slot: %s" % sorted(slot))
    n = 0
    for name in sorted(slot):
        f = next((g for g in prog.all_funcs() if g.name == name and g.body is not None), None)
        if f is None or len(f.params) < 2:
            raise AnalysisBroken("import function %s not found" % name)
        cl = ImportTested(f, prog, f.params[1]["n"])
        r = ir.run_paths(f, cl)
        if not cl.success:
            raise AnalysisBroken("%s: no success return reached" % name)
        n += 1
        bad = [ln for ln, ok in cl.success if not ok]
        if bad:
            res.violation("R12.5-import-tested-while-fresh", function=name, file=f.relfile, line=bad[0],
                          construct="success without a range test of the imported value",
                          detail="%s can report success (line %d) although the value loaded from `%s` was not compared with the "
                                 "modulus before it was changed: out-of-range octets are accepted as field elements" %
                                 (name, bad[0], f.params[1]["n"]))
        else:
            res.proved("R12.5-import-tested-while-fresh", function=name, file=f.relfile, line=f.line,
                       construct="%d success return(s) after the range test" % len(cl.success),
                       detail="the value loaded from the caller's octets is compared with the modulus before anything else writes it")
    return n


def run(tier, seed=0):
    res = Result("C12", "other", tier)
    prog = ir.Program("w64")
    table = mustcall.load_table("validators.json")
    n = mustcall.check_table(prog, res, "R12.1-validator-conjunction-complete", table)
    check_digits(prog, res)
    check_rm_iterations(prog, res)
    check_self_comparison(prog, res)
    check_import_tested(prog, res)
    res.floor("validator obligations", n, 60)
    res.coverage["explanation"] = (
        "For each of %d validators the multiset of sub-checks (callee, literal arguments, polarity) accepted on the "
        "path to every success return is recomputed from the CFG (short-circuit operators split, err_t/bool locals "
        "tracked) and must contain the frozen set read off the reference tree (tables/validators.json, with the "
        "clause of the standard for the non-obvious ones); date octets are digit-tested before arithmetic; the "
        "Rabin-Miller iteration count meets the bound stated in pri.c. Whether primality, irreducibility and "
        "curve-safety routines compute the right answer is number theory over all inputs and is declined." % len(table))
    res.assumptions = COMMON_ASSUMPTIONS + [
        "a sub-check removed from a validator, or no longer branched on, is a violation; added sub-checks are fine",
        "the frozen table is the reference (instances confirmed by reading on the tree at the time of writing)",
    ]
    return res
