"""DB: decoder-bounds analyser.  A small relational abstract interpreter over the CFG.

State: linear inequalities  sum(coef * symbol) <= bound  and disequalities  lin != const  over integer symbols
  v<id>            scalar local / parameter
  m:<path>         scalar reached through a simple access path (x->f), D:<name> the value *p of a scalar out-parameter
  K:<ptr>          offset of a tracked input pointer from the start of its region
  c0:<ptr>         length of that region
  B:<ptr>[k]       octet of the input at constant index from the current pointer (0..255)
  g<n>             ghost = value of an expression at an earlier program point
Per CFG node a bounded set of such states is kept (disjunctive up to CAP, then joined; loop heads widened).
Implication is decided by summing at most four known inequalities (sound, incomplete).  Forgetting a symbol
projects it out (Fourier-Motzkin on that symbol), so derived facts about the other symbols survive."""
import re
from collections import deque
from . import ir
from .ir import strip, show, walk, int_val, is_int, access_path

SIZE_MAX = (1 << 64) - 1
CAP = 6


class Lin:
    __slots__ = ("t", "c")

    def __init__(self, t=None, c=0):
        self.t = {k: v for k, v in (t or {}).items() if v != 0}
        self.c = c

    def __add__(self, o):
        d = dict(self.t)
        for k, v in o.t.items():
            d[k] = d.get(k, 0) + v
        return Lin(d, self.c + o.c)

    def scale(self, k):
        return Lin({s: v * k for s, v in self.t.items()}, self.c * k)

    def __sub__(self, o):
        return self + o.scale(-1)

    def subst(self, sym, lin):
        if sym not in self.t:
            return self
        k = self.t[sym]
        d = dict(self.t)
        del d[sym]
        return Lin(d, self.c) + lin.scale(k)

    def key(self):
        return tuple(sorted(self.t.items()))

    def __repr__(self):
        return " + ".join("%s*%s" % (v, k) for k, v in sorted(self.t.items())) + " + %d" % self.c


def V(sym):
    return Lin({sym: 1}, 0)


def C(k):
    return Lin({}, k)


def le(lhs, rhs):
    d = lhs - rhs
    return (d.key(), -d.c)


_imp_cache = {}
POSTS = {}                 # callee name -> field postconditions of its successful returns (Analyzer.summary)
SIZE_MAX = (1 << 64) - 1
MAXW = (1 << 64) - 1       # largest size_t of the analysed configuration (w64)


def _fm_infeasible(cons):
    """rational infeasibility of a set of inequalities by Fourier-Motzkin elimination (bounded)"""
    from math import gcd
    cur = {}
    for k, b in cons:
        if not k:
            if b < 0:
                return True
            continue
        if k not in cur or b < cur[k]:
            cur[k] = b
    for _ in range(40):
        if not cur:
            return False
        cnt = {}
        for k in cur:
            for s_, v in k:
                c = cnt.get(s_)
                if c is None:
                    c = cnt[s_] = [0, 0]
                c[0 if v > 0 else 1] += 1
        # a symbol bounded on one side only can be dropped with its constraints; otherwise eliminate the cheapest
        s_ = min(cnt, key=lambda x: cnt[x][0] * cnt[x][1] - cnt[x][0] - cnt[x][1])
        pos, neg, nxt = [], [], {}
        for k, b in cur.items():
            v = 0
            for x, vv in k:
                if x == s_:
                    v = vv
                    break
            if v > 0:
                pos.append((k, b, v))
            elif v < 0:
                neg.append((k, b, -v))
            else:
                nxt[k] = b
        if len(pos) * len(neg) > 600:
            return False
        for kp, bp, a in pos:
            for kn, bn, b_ in neg:
                acc = {}
                for x, v in kp:
                    if x != s_:
                        acc[x] = v * b_
                for x, v in kn:
                    if x != s_:
                        w = acc.get(x, 0) + v * a
                        if w:
                            acc[x] = w
                        else:
                            acc.pop(x, None)
                bd = bp * b_ + bn * a
                if not acc:
                    if bd < 0:
                        return True
                    continue
                g = 0
                for v in acc.values():
                    g = gcd(g, abs(v))
                if g > 1:
                    acc = {x: v // g for x, v in acc.items()}
                    bd = bd // g           # floor keeps the integer solutions
                key = tuple(sorted(acc.items()))
                if key not in nxt or bd < nxt[key]:
                    nxt[key] = bd
        cur = nxt
        if len(cur) > 500:
            return False
    return False


def implied(cons, target):
    """cons |= target, decided by refuting cons /\ not(target) over the rationals (sound for integers)"""
    tkey, tb = target
    if not tkey:
        return 0 <= tb
    ck = (cons, target)
    if ck in _imp_cache:
        return _imp_cache[ck]
    if target in cons:
        return True
    tvec = dict(tkey)
    # relevant constraints: those connected to the target's symbols
    frontier = set(tvec)
    pool = list(cons)
    changed = True
    while changed:
        changed = False
        for k, b in pool:
            ks = [x for x, _ in k]
            if any(x in frontier for x in ks) and not all(x in frontier for x in ks):
                frontier.update(ks)
                changed = True
    rel = [(k, b) for k, b in pool if all(x in frontier for x, _ in k)]
    for x in frontier:
        rel.append((((x, -1),), 0))
        if x.startswith("B:"):
            rel.append((((x, 1),), 255))
        elif x.startswith("E0:"):
            # [ptr, ptr + count) is an object: no C object is larger than PTRDIFF_MAX octets
            rel.append((((x, 1),), MAXW >> 1))
        else:
            rel.append((((x, 1),), MAXW))      # every symbol is a machine value
    # negation of target:  sum >= tb + 1   <=>   -sum <= -tb - 1
    rel.append((tuple(sorted((x, -v) for x, v in tkey)), -tb - 1))
    res = _fm_infeasible(rel)
    if len(_imp_cache) > 300000:
        _imp_cache.clear()
    _imp_cache[ck] = res
    return res


def project(cons, sym):
    """eliminate sym (Fourier-Motzkin), keeping what follows for the other symbols"""
    pos, neg, rest = [], [], []
    for k, b in cons:
        d = dict(k)
        if sym in d:
            (pos if d[sym] > 0 else neg).append((d, b))
        else:
            rest.append((k, b))
    out = set(rest)
    # implicit sym >= 0
    neg.append(({sym: -1}, 0))
    if sym.startswith("B:"):
        pos.append(({sym: 1}, 255))
    n = 0
    for dp, bp in pos:
        for dn, bn in neg:
            a, b_ = dp[sym], -dn[sym]
            acc = {}
            for s, v in dp.items():
                acc[s] = acc.get(s, 0) + v * b_
            for s, v in dn.items():
                acc[s] = acc.get(s, 0) + v * a
            acc = {s: v for s, v in acc.items() if v != 0}
            if sym in acc:
                continue
            if not acc:
                if bp * b_ + bn * a < 0:
                    out.add(((), -1))
                continue
            out.add((tuple(sorted(acc.items())), bp * b_ + bn * a))
            n += 1
            if n > 150:
                break
    return frozenset(out)


def simplify(cons):
    """drop constraints that say nothing (all symbols are >= 0) or follow from the others; divide by the gcd"""
    from math import gcd
    out = set()
    for k, b in cons:
        if not k:
            if b < 0:
                return frozenset({((), -1)})
            continue
        g = 0
        for _, v in k:
            g = gcd(g, abs(v))
        if g > 1:
            k = tuple((s_, v // g) for s_, v in k)
            b = b // g            # floor: integer tightening
        if all(v < 0 for _, v in k) and b >= 0:
            continue
        out.add((k, b))
    # tightest bound per left-hand side
    best = {}
    for k, b in out:
        if k not in best or b < best[k]:
            best[k] = b
    out = set(best.items())
    if len(out) > 24:
        # redundancy elimination, cheapest information first: constraints over call snapshots, then two-symbol ones;
        # intervals stay (the join's hull needs them) and so do the wider relations (they survive joins that pinned
        # values do not)
        def rank(c):
            ghost = any(s_.startswith(("g:", "t")) for s_, _ in c[0])
            return (0 if ghost else 1, len(c[0]), repr(c))
        for c in sorted(out, key=rank):
            if len(c[0]) == 1 or len(out) <= 24:
                continue
            rest = frozenset(out - {c})
            if implied(rest, c):
                out = set(rest)
    return frozenset(out)


class State:
    __slots__ = ("cons", "ne")

    def __init__(self, cons=frozenset(), ne=frozenset()):
        self.cons = cons
        self.ne = ne

    def key(self):
        return (self.cons, self.ne)

    def bottom(self):
        return any(not k and b < 0 for k, b in self.cons)


def leq_state(a, b):
    """a is at least as strong as b?"""
    return all(c in a.cons or implied(a.cons, c) for c in b.cons)


class Pair:
    def __init__(self, name, ptr_id, cnt_id=None):
        self.name, self.ptr_id, self.cnt_id = name, ptr_id, cnt_id
        self.K = "K:" + name
        self.c0 = "c0:" + name
        self.E0 = "E0:" + name
        self.root = self       # pairs with the same root measure their offset K from the same address
        self.kind = "buf"      # "str": a NUL-terminated string; c0 is then (known non-NUL prefix length) + 1


INPUT_NAMES = ("der", "apdu", "cert", "epki", "src", "in", "buf", "body")
COUNT_NAMES = ("count", "len", "size", "der_len", "cert_len", "apdu_len", "epki_len", "in_len", "body_len")
NOT_READERS = {"strnlen", "memIsValid", "memIsNullOrValid", "memIsDisjoint2", "memIsDisjoint", "memIsSameOrDisjoint", "memIsDisjoint3",
               "memIsAligned", "utilAssert"}


def writer_info(proto):
    """(index of the output buffer, index of the length parameter, length is an out-pointer, unit) for a DER value decoder
    that copies the decoded value to a caller buffer; None for the others.  Read off the prototype:
    der<T>Dec(val, size_t* len, der, count, ..) reports the length it writes, der<T>Dec2(val, der, count, .., size_t len)
    writes what it is told; BIT lengths are in bits, strings get a terminating NUL."""
    if proto is None or not re.match(r"der\w*Dec2?$", proto.name):
        return None
    ps = proto.params
    if not ps or not ps[0].get("p") or ps[0].get("pc") or ps[0]["n"] not in ("val", "oid"):
        return None
    t0 = (ps[0].get("t") or ps[0].get("ct") or "").replace(" ", "")
    if t0 not in ("octet*", "char*"):
        return None            # size_t* / u32* outputs are objects of their own type
    li = [i for i, p in enumerate(ps) if p["n"] == "len"]
    if not li:
        return None
    lp = ps[li[0]]
    unit = "bits" if "BIT" in proto.name else "chars" if t0 == "char*" else "octets"
    return 0, li[0], bool(lp.get("p")), unit


def capacity(e):
    """number of elements of the array object the expression designates (before decay), or None"""
    e = strip(e)
    if not isinstance(e, dict) or e.get("k") not in ("Member", "Ref"):
        return None
    m = re.match(r"^(?:const )?(?:octet|char|u8|unsigned char)\s*\[(\d+)\]$", (e.get("t") or "").strip())
    return int(m.group(1)) if m else None


def find_str_pairs(func):
    """const char* parameters: NUL-terminated strings.  The readable extent c0 is not given by a length but grows as
    characters are found to be non-zero: reading s[i] is allowed when s[0..i-1] are known non-zero (i + 1 <= c0)."""
    out = []
    for p in func.params:
        if p.get("p") and (p.get("t") or "").replace(" ", "") == "constchar*":
            pr = Pair(p["n"], p["id"], None)
            pr.kind = "str"
            out.append(pr)
    return out


def find_pairs(func):
    out = []
    ps = func.params
    for i, p in enumerate(ps):
        if p.get("p") and p.get("pc") and not p.get("pf") and p["n"] in INPUT_NAMES and i + 1 < len(ps):
            q = ps[i + 1]
            if q["t"] == "size_t" and q["n"] in COUNT_NAMES and (p.get("ct") or "").count("*") == 1:
                out.append(Pair(p["n"], p["id"], q["id"]))
    return out


class Analyzer:
    def __init__(self, func, prog, contracts, strings=False):
        self.f, self.prog = func, prog
        self.contracts = contracts      # name -> set of {'consumed', 'region'}
        self.pairs = {p.ptr_id: p for p in find_pairs(func)}
        for p in (find_str_pairs(func) if strings else []):
            self.pairs.setdefault(p.ptr_id, p)
        self.entry_pairs = list(self.pairs.values())
        self.cnt_ids = {p.cnt_id for p in self.pairs.values()}
        self.reads, self.subs, self.rets, self.regions = {}, {}, {}, {}
        self.writes = {}
        self.srets = {}
        self.pending = {}      # result var id -> (kind, Lin bound, region info)
        self.record = False
        self.ghost = 0
        self.locals_ptr = {}
        self.ghost_owner = {}
        self.side = None
        self.side_line = 0
        self.cur = None        # the state in which expressions are currently being read (for the wrap obligations)
        self.wraps = set()

    # ---- symbols
    def sym(self, ref):
        return "v%d" % ref["id"]

    def fresh(self, tag=None):
        if tag is not None:
            return "g:%s" % tag
        self.ghost += 1
        return "t%d" % self.ghost

    def lin(self, e):
        """linear form of e over the mathematical integers, or None.  Unsigned arithmetic wraps: a sum or product is
        accepted only when the current state proves it stays <= MAXW and a difference only when it proves it >= 0;
        otherwise the machine value is not the linear one and nothing is known about it."""
        r = self._lin(e)
        return r

    def _no_wrap(self, a, b, r, op):
        if not a.t and not b.t:
            return 0 <= r.c <= MAXW
        cons = self.cur.cons if self.cur is not None else frozenset()
        if op == "-":
            ok = implied(cons, le(C(0), r))
        else:
            ok = implied(cons, le(r, C(MAXW)))
        if not ok:
            self.wraps.add((op, repr(r)))
        return ok

    def _lin(self, e):
        e = strip(e)
        if not isinstance(e, dict):
            return None
        k = e.get("k")
        if k == "Int":
            v = int_val(e)
            if v is None or v >= (1 << 62):
                return None
            return C(v)
        if k == "Ref" and e.get("rk") in ("local", "param") and not e.get("p"):
            return V(self.sym(e))
        if k == "Member" and not e.get("p"):
            ap = access_path(e)
            return V("m:" + ap) if ap else None
        if k == "Un" and e["op"] == "*" and strip(e["e"]).get("k") == "Ref" and not e.get("p"):
            r = strip(e["e"])
            if r["id"] not in self.pairs:
                return V("D:%d" % r["id"])
            return None
        if k == "Bin" and e["op"] == "-" and strip(e["x"]).get("p") and strip(e["y"]).get("p"):
            # difference of two pointers into the same input
            pa, pb = self.ptr_offset(e["x"]), self.ptr_offset(e["y"])
            if pa is None or pb is None or pa[1] is None or pb[1] is None or pa[0].root is not pb[0].root:
                return None
            a, b = V(pa[0].K) + pa[1], V(pb[0].K) + pb[1]
            r = a - b
            return r if self._no_wrap(a, b, r, "-") else None
        if k == "Bin" and e["op"] in ("+", "-"):
            a, b = self._lin(e["x"]), self._lin(e["y"])
            if a is None or b is None:
                return None
            r = a + b if e["op"] == "+" else a - b
            return r if self._no_wrap(a, b, r, e["op"]) else None
        if k == "Bin" and e["op"] == "*":
            a, b = self._lin(e["x"]), self._lin(e["y"])
            if a is not None and b is not None:
                r = b.scale(a.c) if not a.t else a.scale(b.c) if not b.t else None
                if r is not None and self._no_wrap(a, b, r, "*"):
                    return r
            return None
        if k == "Bin" and e["op"] == "/" and getattr(self, "side", None) is not None:
            a, b = self._lin(e["x"]), self._lin(e["y"])
            if a is not None and b is not None and not b.t and b.c >= 1:
                if not a.t:
                    return C(a.c // b.c) if a.c >= 0 else None
                q = "q:%s:%d" % (self.side_line, len(self.side))
                self.side.append((q, a, b.c))
                cur = self.forget(self.cur, q)
                self.cur = State(cur.cons | {le(V(q).scale(b.c), a), le(a, V(q).scale(b.c) + C(b.c - 1))}, cur.ne)
                return V(q)
            return None
        if k == "Bin" and e["op"] == "=":
            return self._lin(e["y"])
        if k == "Index":
            b = strip(e["b"])
            i = self._lin(e["i"])
            if b.get("k") == "Ref" and b["id"] in self.pairs and i is not None and not i.t and b.get("pc") is not None:
                return V("B:%s[%d]" % (self.pairs[b["id"]].name, i.c))
            return None
        return None

    # ---- state ops
    def forget(self, st, sym):
        if not any(s_ == sym for k, _ in st.cons for s_, _v in k):
            return State(st.cons, frozenset(n for n in st.ne if not any(s == sym for s, _ in n[0])))
        return State(simplify(project(st.cons, sym)), frozenset(n for n in st.ne if not any(s == sym for s, _ in n[0])))

    def forget_prefix(self, st, prefix):
        syms = {s for k, b in st.cons for s, _ in k if s.startswith(prefix)}
        for s in syms:
            st = self.forget(st, s)
        return State(st.cons, frozenset(n for n in st.ne if not any(s.startswith(prefix) for s, _ in n[0])))

    def forget_suffix_pair(self, st, name):
        """the input pointer `name` moves: what the decoders would report at the old position is no longer relevant"""
        syms = {s_ for k, _ in st.cons for s_, _v in k if s_.startswith("P:") and s_.split(":")[3] == name}
        for s_ in syms:
            st = self.forget(st, s_)
        return st

    def assign(self, st, sym, lin):
        """sym := lin (lin may mention sym)"""
        if lin is None:
            return self.forget(st, sym)
        if sym in lin.t and lin.t[sym] == 1:
            d = Lin({k: v for k, v in lin.t.items() if k != sym}, lin.c)
            new = set()
            for key, b in st.cons:
                L = Lin(dict(key), -b)
                if sym in L.t:
                    L2 = L.subst(sym, V(sym) - d)
                    new.add((L2.key(), -L2.c))
                else:
                    new.add((key, b))
            ne = set()
            for key, c in st.ne:
                L = Lin(dict(key), -c)
                if sym in L.t:
                    L2 = L.subst(sym, V(sym) - d)
                    ne.add((L2.key(), -L2.c))
                else:
                    ne.add((key, c))
            # the old value was >= 0 (implicit for every symbol): new - d >= 0
            new.add(le(d, V(sym)))
            return State(frozenset(new), frozenset(ne))
        if sym in lin.t:
            # non-invertible self reference: go through a temporary
            tmp = self.fresh()
            st = State(st.cons | {le(V(tmp), lin), le(lin, V(tmp))}, st.ne)
            st = self.forget(st, sym)
            return self.rename(st, tmp, sym)
        st = self.forget(st, sym)
        return State(st.cons | {le(V(sym), lin), le(lin, V(sym))}, st.ne)

    @staticmethod
    def rename(st, a, b):
        def rn(k):
            return tuple(sorted((b if s == a else s, v) for s, v in k))
        return State(frozenset((rn(k), bd) for k, bd in st.cons), frozenset((rn(k), c) for k, c in st.ne))

    BOTTOM = State(frozenset({((), -1)}))

    def add(self, st, lhs, op, rhs):
        cons = set(st.cons)
        ne = set(st.ne)
        # a condition that contradicts what is known leaves no state (the path cannot be taken)
        lt, gt = le(lhs + C(1), rhs), le(rhs + C(1), lhs)
        if (op in ("<=", "<") and implied(st.cons, gt if op == "<=" else le(rhs, lhs))) or \
                (op in (">=", ">") and implied(st.cons, lt if op == ">=" else le(lhs, rhs))) or \
                (op == "==" and (implied(st.cons, lt) or implied(st.cons, gt))) or \
                (op == "!=" and implied(st.cons, le(lhs, rhs)) and implied(st.cons, le(rhs, lhs))):
            return self.BOTTOM
        if op == "<=":
            cons.add(le(lhs, rhs))
        elif op == "<":
            cons.add(le(lhs + C(1), rhs))
        elif op == ">=":
            cons.add(le(rhs, lhs))
        elif op == ">":
            cons.add(le(rhs + C(1), lhs))
        elif op == "==":
            cons.add(le(lhs, rhs))
            cons.add(le(rhs, lhs))
        elif op == "!=":
            d = lhs - rhs
            ne.add((d.key(), -d.c))
        st = State(frozenset(cons), frozenset(ne))
        return self.sharpen(st)

    def sharpen(self, st):
        """x != k with x >= k known gives x >= k + 1 (and symmetrically)"""
        changed = True
        cons = set(st.cons)
        rounds = 0
        while changed and rounds < 4:
            changed = False
            rounds += 1
            fc = frozenset(cons)
            for key, c in st.ne:
                L = Lin(dict(key), 0)
                if implied(fc, le(C(c), L)) and not implied(fc, le(C(c + 1), L)):
                    cons.add(le(C(c + 1), L))
                    changed = True
                elif implied(fc, le(L, C(c))) and not implied(fc, le(L, C(c - 1))):
                    cons.add(le(L, C(c - 1)))
                    changed = True
        return State(frozenset(cons), st.ne)

    # ---- pointer expressions
    def ptr_offset(self, e):
        e = strip(e)
        k = e.get("k")
        if k == "Ref" and e["id"] in self.pairs:
            return self.pairs[e["id"]], C(0)
        if k == "Bin" and e["op"] in ("+", "-"):
            a = self.ptr_offset(e["x"])
            if a is not None:
                o = self.lin(e["y"])
                if o is not None and e["op"] == "-":
                    o = o.scale(-1)
                return (a[0], None if o is None or a[1] is None else a[1] + o)
            if e["op"] == "+":
                b = self.ptr_offset(e["y"])
                if b is not None:
                    o = self.lin(e["x"])
                    return (b[0], None if o is None or b[1] is None else b[1] + o)
        if k == "Cond":
            a = self.ptr_offset(e["x"])
            if a is not None and is_int(e["y"], 0):
                return a
        if k == "Un" and e["op"] == "&" and strip(e["e"]).get("k") == "Index":
            ix = strip(e["e"])
            a = self.ptr_offset(ix["b"])
            if a is not None:
                o = self.lin(ix["i"])
                return (a[0], None if o is None or a[1] is None else a[1] + o)
        return None

    def check_read(self, st, pair, idx, node, text):
        ok = idx is not None and implied(st.cons, le(V(pair.K) + idx + C(1), V(pair.c0))) and \
            implied(st.cons, le(C(0), V(pair.K) + idx))
        if self.record:
            self.reads.setdefault((node.line, text), []).append(ok)

    def check_len(self, st, pair, off, ln, node, text):
        ok = ln is not None and implied(st.cons, le(ln, C(0)))       # nothing is read
        ok = ok or (off is not None and ln is not None and implied(st.cons, le(V(pair.K) + off + ln, V(pair.c0))))
        if self.record:
            self.reads.setdefault((node.line, text), []).append(ok)

    # ---- expressions
    def eval(self, e, st, node):
        self.cur = st
        if not isinstance(e, dict):
            return st
        k = e.get("k")
        if k == "Bin" and e["op"] == ",":
            return self.eval(e["y"], self.eval(e["x"], st, node), node)
        if k == "Call":
            return self.call(e, st, node)
        if k == "Bin" and e["op"] in ir.ASSIGN_OPS:
            lhs, rhs = strip(e["x"]), strip(e["y"])
            if rhs.get("k") == "Call" and e["op"] == "=":
                return self.call(rhs, st, node, result=lhs)
            st = self.reads_in(e["y"], st, node)
            if lhs.get("k") == "Ref" and lhs.get("p"):
                vid = lhs["id"]
                po_ = self.ptr_offset(rhs) if e["op"] == "=" else None
                if vid in self.pairs and not (po_ is not None and po_[0] is not self.pairs[vid] and po_[1] is not None):
                    pair = self.pairs[vid]
                    d = None
                    if e["op"] == "+=":
                        d = self.lin(rhs)
                        if d is None and rhs.get("k") == "Un" and rhs["op"] in ("pre++", "pre--"):
                            d = self.lin(rhs["e"])      # p += ++i: the increment was applied when the operand was read
                    elif e["op"] == "-=":
                        d = self.lin(rhs)
                        d = d.scale(-1) if d is not None else None
                    else:
                        po = self.ptr_offset(rhs)
                        if po is not None and po[0] is pair:
                            d = po[1]
                    st = self.forget_prefix(st, "B:%s[" % pair.name)
                    st = self.forget_suffix_pair(st, pair.name)
                    return self.assign(st, pair.K, None if d is None else V(pair.K) + d)
                # a local pointer that takes the value of a tracked pointer becomes an alias pair
                po = self.ptr_offset(rhs) if e["op"] == "=" else None
                if po is not None and po[1] is not None:
                    base = po[0]
                    newp = self.pairs.get(vid)
                    if newp is None:
                        newp = Pair(lhs["n"], vid)
                        self.pairs[vid] = newp
                    newp.root = base.root
                    newp.kind = base.kind
                    st = self.forget_prefix(st, "B:%s[" % newp.name)
                    st = self.forget(st, newp.K)
                    st = self.forget(st, newp.c0)
                    return State(st.cons | {le(V(newp.K), V(base.K) + po[1]), le(V(base.K) + po[1], V(newp.K)),
                                            le(V(newp.c0), V(base.c0)), le(V(base.c0), V(newp.c0))}, st.ne)
                return self.forget(st, self.sym(lhs))
            target = self.lin(lhs) if lhs.get("k") in ("Ref", "Member", "Un") else None
            if target is None or len(target.t) != 1:
                return self.reads_in(lhs, st, node, lvalue=True)
            sym = list(target.t)[0]
            if e["op"] == "=":
                if rhs.get("k") == "Cond":
                    return self.assign_cond(st, sym, rhs, node)
                st, l_ = self.lin_side(rhs, st, node)
                st = self.assign(st, sym, l_)
                if l_ is not None and any(x.startswith("q:") for x in l_.t):
                    st = self.tighten(st, sym)
                return st
            if e["op"] in ("+=", "-="):
                d = self.lin(rhs)
                if e["op"] == "-=" and lhs.get("k") == "Ref" and lhs["id"] in self.cnt_ids:
                    ok = d is not None and implied(st.cons, le(d, V(sym)))
                    if self.record:
                        self.subs.setdefault((node.line, show(e)[:50]), []).append(ok)
                if d is not None and e["op"] == "-=":
                    d = d.scale(-1)
                if d is not None and not (implied(st.cons, le(V(sym) + d, C(MAXW))) and implied(st.cons, le(C(0), V(sym) + d))):
                    d = None       # the update may wrap
                return self.assign(st, sym, None if d is None else V(sym) + d)
            if e["op"] == "*=" and self.lin(rhs) is not None and not self.lin(rhs).t:
                kk = self.lin(rhs).c
                if kk >= 1 and implied(st.cons, le(V(sym).scale(kk), C(MAXW))):
                    return self.assign(st, sym, V(sym).scale(kk))
                return self.assign(st, sym, None)
            return self.assign(st, sym, None)
        if k == "Un" and e["op"] in ("pre++", "pre--", "post++", "post--"):
            l = strip(e["e"])
            d = 1 if "++" in e["op"] else -1
            if l.get("k") == "Ref" and l["id"] in self.pairs:
                pair = self.pairs[l["id"]]
                st = self.forget_prefix(st, "B:%s[" % pair.name)
                st = self.forget_suffix_pair(st, pair.name)
                return self.assign(st, pair.K, V(pair.K) + C(d))
            t = self.lin(l)
            if t is not None and len(t.t) == 1 and not l.get("p"):
                sym = list(t.t)[0]
                if d < 0 and l.get("k") == "Ref" and l["id"] in self.cnt_ids:
                    if self.record:
                        self.subs.setdefault((node.line, show(e)[:50]), []).append(implied(st.cons, le(C(1), V(sym))))
                # a decrement must be shown not to pass 0; a unit increment is taken not to reach SIZE_MAX (a counter
                # that grows by one per step would need 2^64 steps: stated assumption)
                if d < 0 and not implied(st.cons, le(C(0), V(sym) + C(d))):
                    return self.assign(st, sym, None)      # the step may wrap
                return self.assign(st, sym, V(sym) + C(d))
            return self.reads_in(l, st, node)
        return self.reads_in(e, st, node)

    def assign_cond(self, st, sym, rhs, node=None):
        self.cur = st
        a, b = self.lin(rhs["x"]), self.lin(rhs["y"])
        c = strip(rhs["c"])
        tmp = self.fresh()
        cons = set(st.cons)
        if a is not None and b is not None and c.get("k") == "Bin" and c["op"] in ("<", "<=", ">", ">="):
            ca, cb = self.lin(c["x"]), self.lin(c["y"])
            if ca is not None and cb is not None:
                same = (ca.key(), ca.c) == (a.key(), a.c) and (cb.key(), cb.c) == (b.key(), b.c)
                swapped = (ca.key(), ca.c) == (b.key(), b.c) and (cb.key(), cb.c) == (a.key(), a.c)
                if same or swapped:
                    is_min = (c["op"] in ("<", "<=")) == same
                    def const_bound(l, sign):
                        # greatest known constant lower bound (sign -1) / least upper bound (sign +1) of l, or None
                        if not l.t:
                            return l.c
                        if len(l.t) == 1 and list(l.t.values())[0] == 1:
                            x = list(l.t)[0]
                            bs = [bd for k_, bd in st.cons if k_ == ((x, sign),)]
                            if bs:
                                return (min(bs) if sign == 1 else -min(bs)) + l.c
                            return l.c if sign == -1 else None
                        return None
                    if is_min:
                        cons |= {le(V(tmp), a), le(V(tmp), b)}
                        la, lb = const_bound(a, -1), const_bound(b, -1)
                        if la is not None and lb is not None:
                            cons.add(le(C(min(la, lb)), V(tmp)))
                    else:
                        cons |= {le(a, V(tmp)), le(b, V(tmp))}
                        ua, ub = const_bound(a, 1), const_bound(b, 1)
                        if ua is not None and ub is not None:
                            cons.add(le(V(tmp), C(max(ua, ub))))
        elif a is not None and b is not None and not a.t and not b.t:
            cons |= {le(V(tmp), C(max(a.c, b.c))), le(C(min(a.c, b.c)), V(tmp))}
        else:
            # general case: each arm under its branch condition, then the join of the two
            outs = []
            for pol, arm in ((True, rhs["x"]), (False, rhs["y"])):
                s_ = self.assume_quiet(rhs["c"], pol, st, node)
                if s_ is None or s_.bottom():
                    continue
                self.cur = s_
                s_, l_ = self.lin_side(arm, s_, node)
                o_ = self.assign(s_, sym, l_)
                if l_ is not None and any(x.startswith("q:") for x in l_.t):
                    o_ = self.tighten(o_, sym)
                outs.append(o_)
            if not outs:
                return self.BOTTOM
            r = outs[0]
            for o in outs[1:]:
                r = self.join(r, o)
            return r
        st2 = self.forget(State(frozenset(cons), st.ne), sym)
        return self.rename(st2, tmp, sym)

    def tighten(self, st, sym):
        """make the constant bounds of sym that follow from the relations explicit (projection of every other symbol
        of its connected component); used after an assignment that involves a quotient"""
        comp = {sym}
        changed = True
        while changed:
            changed = False
            for k, _ in st.cons:
                ks = {x for x, _v in k}
                if ks & comp and not ks <= comp:
                    comp |= ks
                    changed = True
        rel = frozenset((k, b) for k, b in st.cons if {x for x, _v in k} <= comp)
        if len(comp) > 12:
            return st
        for x in sorted(comp - {sym}):
            extra = {(((x, 1),), 255)} if x.startswith("B:") else {(((x, 1),), MAXW >> 1)} if x.startswith("E0:") else set()
            rel = project(frozenset(rel | extra), x)
        add = set()
        for k, b in rel:
            if len(k) == 1 and k[0][0] == sym:
                a = k[0][1]
                add.add((((sym, 1 if a > 0 else -1),), b // abs(a)))
        return State(st.cons | frozenset(add), st.ne) if add else st

    def lin_side(self, e, st, node):
        """lin(e) in state st, with the quotient symbols of the divisions it contains constrained in the returned state:
        q = a / k (k a positive constant) is k*q <= a <= k*q + k - 1"""
        self.cur = st
        self.side = []
        self.side_line = node.line if node is not None else 0
        l = self.lin(e)
        side, self.side = self.side, None
        if l is None:
            self.cur = st
            return st, None
        if side:
            st = self.cur          # st plus the definitions of the quotient symbols
        return st, l

    def reads_in(self, e, st, node, lvalue=False):
        self.cur = st
        if not isinstance(e, dict):
            return st
        k = e.get("k")
        if k == "Call":
            return self.call(e, st, node)
        if k == "Bin" and (e["op"] in ir.ASSIGN_OPS or e["op"] == ","):
            return self.eval(e, st, node)
        if k == "Un" and e["op"] in ("pre++", "pre--", "post++", "post--"):
            return self.eval(e, st, node)
        if k == "Index":
            po = self.ptr_offset(e["b"])
            if po is not None:
                ix = strip(e["i"])
                post = None
                if ix.get("k") == "Un" and ix["op"] in ("post++", "post--"):
                    post = ix
                    idx = self.lin(ix["e"])
                else:
                    st = self.reads_in(e["i"], st, node)
                    idx = self.lin(e["i"])
                pair, off = po
                if not lvalue:
                    self.check_read(st, pair, None if (idx is None or off is None) else off + idx, node, show(e)[:40])
                if post is not None:
                    st = self.eval(post, st, node)
                return st
        if k == "Un" and e["op"] == "*":
            po = self.ptr_offset(e["e"])
            if po is not None:
                if not lvalue:
                    self.check_read(st, po[0], po[1], node, show(e)[:40])
                return st
        if k == "Un" and e["op"] == "&":
            return st
        if k == "Bin" and e["op"] in ("&&", "||"):
            st = self.reads_in(e["x"], st, node)
            inner = self.assume_quiet(e["x"], e["op"] == "&&", st, node)
            if inner is not None and not inner.bottom():
                self.reads_in(e["y"], inner, node)
            return st
        if k == "Cond":
            st = self.reads_in(e["c"], st, node)
            for pol, arm in ((True, e["x"]), (False, e["y"])):
                inner = self.assume_quiet(e["c"], pol, st, node)
                if inner is not None and not inner.bottom():
                    self.reads_in(arm, inner, node)
            return st
        for c in ir.kids(e):
            st = self.reads_in(c, st, node)
        return st

    def assume_quiet(self, c, pol, st, node):
        """refine by condition c == pol without recording its reads again"""
        rec = self.record
        self.record = False
        try:
            c = strip(c)
            if c.get("k") == "Un" and c["op"] == "!":
                return self.assume_quiet(c["e"], not pol, st, node)
            if c.get("k") == "Bin" and c["op"] == "&&":
                if pol:
                    a = self.assume_quiet(c["x"], True, st, node)
                    return None if a is None else self.assume_quiet(c["y"], True, a, node)
                return st
            if c.get("k") == "Bin" and c["op"] == "||":
                if not pol:
                    a = self.assume_quiet(c["x"], False, st, node)
                    return None if a is None else self.assume_quiet(c["y"], False, a, node)
                return st
            return self.assume(c, pol, st, node)
        finally:
            self.record = rec

    def call(self, c, st, node, result=None):
        cn = c.get("callee")
        if cn == "utilAssert":
            # ASSERT(memIsValid(s, k)) on a string parameter states the helper's precondition: k characters are readable
            for m_ in ir.calls(c):
                if m_.get("callee") == "memIsValid" and len(m_["a"]) == 2:
                    po = self.ptr_offset(m_["a"][0])
                    k_ = self.lin(m_["a"][1])
                    if po is not None and po[0].kind == "str" and po[1] is not None and k_ is not None and not k_.t:
                        st = State(st.cons | {le(V(po[0].K) + po[1] + k_, V(po[0].c0))}, st.ne)
            return st
        self.cur = st
        for a in c["a"]:
            if self.ptr_offset(a) is None and strip(a).get("k") not in ("Ref", "Int", "Str"):
                st = self.reads_in(a, st, node)
        self.cur = st
        proto = self.prog.proto(cn, self.f.unit) if cn else None
        kinds = self.contracts.get(cn, set())
        # strings handed to a callee as strings: the position passed must be inside the string (readable)
        strlen_of = None
        if proto is not None:
            for i, a in enumerate(c["a"]):
                po = self.ptr_offset(a)
                if po is None or po[0].kind != "str" or i >= len(proto.params):
                    continue
                if (proto.params[i].get("t") or "").replace(" ", "") == "constchar*":
                    self.check_read(st, po[0], po[1], node, "%s(%s) as a string" % (cn, show(a)[:24]))
                    if cn in ("strLen", "strlen") and po[1] is not None:
                        strlen_of = (po[0], po[1])
        bound = None
        region = None
        ghosts = []
        str_post = None
        self._post = None
        st = self.output_write(c, cn, proto, st, node)
        post = self._post
        if proto is not None and cn not in NOT_READERS:
            ps = proto.params
            for i, a in enumerate(c["a"]):
                po = self.ptr_offset(a)
                if po is None or i >= len(ps) or not ps[i].get("pc"):
                    continue
                pair, off = po
                if i + 1 < len(ps) and ps[i + 1]["t"] == "size_t" and i + 1 < len(c["a"]):
                    ln = self.lin(c["a"][i + 1])
                    self.check_len(st, pair, off, ln, node, "%s(%s, %s)" % (cn, show(a)[:20], show(c["a"][i + 1])[:20]))
                    if ln is not None and off is not None:
                        g = self.fresh("%s:%d:len" % (c.get("l"), i))
                        ghosts.append(g)
                        st = self.forget(st, g)
                        st = State(st.cons | {le(V(g), ln), le(ln, V(g))}, st.ne)
                        bound = V(g)
                        # region contract: *val points into [a, a + result) ...
                        if "region" in kinds:
                            gk = self.fresh("%s:%d:off" % (c.get("l"), i))
                            ghosts.append(gk)
                            st = self.forget(st, gk)
                            st = State(st.cons | {le(V(gk), V(pair.K) + off), le(V(pair.K) + off, V(gk))}, st.ne)
                            region = (pair, V(gk), V(g))
        # out-parameters
        outs = []
        for i, a in enumerate(c["a"]):
            sa = strip(a)
            if sa.get("k") == "Un" and sa["op"] == "&" and strip(sa["e"]).get("k") == "Ref":
                r = strip(sa["e"])
                outs.append((i, r))
                if r.get("p"):
                    st = self.forget(st, self.sym(r))      # its null-ness symbol
            elif sa.get("k") == "Ref" and sa.get("p") and not sa.get("pc") and sa["id"] not in self.pairs and \
                    (sa.get("t") or "").replace(" ", "") in ("size_t*", "u32*"):
                st = self.forget(st, "D:%d" % sa["id"])
                outs.append((i, None))
        # member symbols rooted at objects passed non-const are clobbered
        for a in c["a"]:
            sa = strip(a)
            if sa.get("p") and not sa.get("pc"):
                r = ir.root_ref(sa)
                if r is not None:
                    ap = access_path(sa) if sa.get("k") == "Member" else None
                    if ap and "[" in (sa.get("t") or ""):
                        # an array member is passed: the callee gets that member (DB.4 bounds what it writes there)
                        for suf in ("", ".", "->", "["):
                            st = self.forget_prefix(st, "m:%s%s" % (ap, suf)) if suf else self.forget(st, "m:" + ap)
                    else:
                        st = self.forget_prefix(st, "m:%s->" % r["n"])
                        st = self.forget_prefix(st, "m:%s." % r["n"])
        val_ref = len_ref = None
        if proto is not None:
            for i, r in outs:
                if r is None or i >= len(proto.params):
                    continue
                pt = (proto.params[i].get("ct") or "")
                if r["id"] in self.pairs and pt.count("*") >= 2:
                    val_ref = r
                elif pt.count("*") >= 2 and r.get("p"):
                    val_ref = r
                else:
                    if proto.params[i]["n"] in ("len", "count") and r.get("t") == "size_t":
                        len_ref = r
                    st = self.forget(st, self.sym(r)) if not r.get("p") else st
        else:
            for i, r in outs:
                if r is not None and not r.get("p"):
                    st = self.forget(st, self.sym(r))
        len_lin = None
        if proto is not None and len_ref is None and "region" in kinds:
            for i, p_ in enumerate(proto.params):
                if p_["n"] == "len" and p_["t"] == "size_t" and i < len(c["a"]):
                    len_lin = self.lin(c["a"][i])
                    if len_lin is not None:
                        g2 = self.fresh("%s:%d:vlen" % (c.get("l"), i))
                        ghosts.append(g2)
                        st = self.forget(st, g2)
                        st = State(st.cons | {le(V(g2), len_lin), le(len_lin, V(g2))}, st.ne)
                        len_lin = V(g2)
        owned = False
        if "strconsumed" in kinds and result is not None and strip(result).get("k") == "Ref" and proto is not None:
            # t = f(.., str + off): on success the callee has found str[off .. off + t) non-zero (its own returns are
            # checked for that), so position off + t is readable
            for i, a in enumerate(c["a"]):
                po = self.ptr_offset(a)
                if po is not None and po[0].kind == "str" and po[1] is not None and i < len(proto.params) and \
                        (proto.params[i].get("t") or "").replace(" ", "") == "constchar*":
                    gs = self.fresh("%s:%d:spos" % (c.get("l"), i))
                    ghosts.append(gs)
                    st = self.forget(st, gs)
                    st = State(st.cons | {le(V(gs), V(po[0].K) + po[1]), le(V(po[0].K) + po[1], V(gs))}, st.ne)
                    bound = V(po[0].c0)
                    str_post = [le(V(gs) + V(self.sym(strip(result))) + C(1), V(po[0].c0))]
                    break
        if "zero" in kinds and bound is None:
            gz = self.fresh("%s:zero" % c.get("l"))
            ghosts.append(gz)
            st = self.forget(st, gz)
            st = State(st.cons | {le(V(gz), C(0))}, st.ne)
            bound = V(gz)
        if result is not None:
            rs = strip(result)
            tl = self.lin(rs) if not rs.get("p") else None
            if tl is not None and len(tl.t) == 1:
                sym = list(tl.t)[0]
                st = self.forget(st, sym)
                if rs.get("k") == "Ref":
                    # the snapshots of an earlier call whose result was kept in the same variable are now stale
                    for g_, o_ in list(self.ghost_owner.items()):
                        if o_ == rs["id"] and g_ not in ghosts:
                            st = self.forget(st, g_)
                    if ("consumed" in kinds or "region" in kinds) and bound is not None and ghosts:
                        # keyed by the call's snapshot symbol: the entry applies in a state only while that symbol is
                        # still constrained there, i.e. on paths where this call was the last one stored in the variable
                        self.pending.setdefault(rs["id"], {})[ghosts[0]] = \
                            (bound, region, val_ref, len_ref if len_ref is not None else len_lin,
                             (self.instantiate_post(cn, c) or []) + (str_post or []))
                        owned = True
                        for g_ in ghosts:
                            self.ghost_owner[g_] = rs["id"]
        if not owned:
            # nobody will look at the snapshot symbols of this call again
            for g_ in ghosts:
                st = self.forget(st, g_)
        if strlen_of is not None and result is not None and strip(result).get("k") == "Ref" and not strip(result).get("p"):
            pr, off = strlen_of
            rsym = self.sym(strip(result))
            st = State(st.cons | {le(V(pr.K) + off + V(rsym) + C(1), V(pr.c0))}, st.ne)
        if post is not None:
            L, psym = post
            st = self.forget(st, L)
            st = State(st.cons | {le(V(L), V(psym)), le(V(psym), V(L))}, st.ne)
        return st

    def output_write(self, c, cn, proto, st, node):
        """DB.4: a value decoder that copies to a fixed-size object writes no more than the object holds.
        P:<callee>:<tag>:<input> stands for the length this decoder reports at the current input position; a probing
        call (val = 0, &L) makes L equal to it, so the tests made on L bound the later copying call."""
        w = writer_info(proto)
        if w is None:
            return st
        vi, li, lptr, unit = w
        if max(vi, li) >= len(c["a"]):
            return st
        src = None
        for i, a in enumerate(c["a"]):
            if i < len(proto.params) and proto.params[i].get("pc") and self.ptr_offset(a) is not None:
                src = self.ptr_offset(a)
                break
        tag = [show(a) for i, a in enumerate(c["a"]) if i < len(proto.params) and proto.params[i]["n"] == "tag"]
        psym = None
        if lptr and src is not None and src[1] is not None and not src[1].t:
            psym = "P:%s:%s:%s:%d" % (cn, tag[0] if tag else "-", src[0].name, src[1].c)
            la = strip(c["a"][li])
            if la.get("k") == "Un" and la["op"] == "&" and strip(la["e"]).get("k") == "Ref" and not strip(la["e"]).get("p"):
                self._post = (self.sym(strip(la["e"])), psym)      # applied once the call's own effects are modelled
        dest = c["a"][vi]
        if int_val(dest) == 0:
            return st
        cap = capacity(dest)
        text = "%s(%s, ..)" % (cn, show(dest)[:30])
        if cap is None:
            if self.record:
                self.writes.setdefault((node.line, text), []).append(None)      # caller-sized buffer
            return st
        ext = V(psym) if (lptr and psym is not None) else None if lptr else self.lin(c["a"][li])
        ok = False
        if ext is not None:
            if unit == "bits":
                ok = implied(st.cons, le(ext, C(8 * cap)))
            elif unit == "chars":
                ok = implied(st.cons, le(ext + C(1), C(cap)))
            else:
                ok = implied(st.cons, le(ext, C(cap)))
        if self.record:
            self.writes.setdefault((node.line, text), []).append((ok, cap, unit))
        return st

    def instantiate_post(self, cn, c):
        post = POSTS.get(cn)
        if not post:
            return None
        out = []
        for k, b in post:
            nk = []
            for s_, v in k:
                m = re.match(r"m:\$(\d+)(->|\.)(.*)$", s_)
                i = int(m.group(1))
                a = strip(c["a"][i]) if i < len(c["a"]) else None
                if a is None or a.get("k") != "Ref" or not a.get("p"):
                    nk = None
                    break
                nk.append(("m:%s%s%s" % (a["n"], m.group(2), m.group(3)), v))
            if nk is not None:
                out.append((tuple(sorted(nk)), b))
        return out

    def summary(self, states):
        """constraints over the fields of pointer parameters (m:$i->field) that hold at every non-SIZE_MAX return"""
        cfg = self.f.cfg()
        pnames = {p["n"]: i for i, p in enumerate(self.f.params) if p.get("p")}
        acc = None
        for node in cfg.nodes:
            if node.kind != "return" or node.e is None or int_val(strip(node.e)) == SIZE_MAX:
                continue
            for st in states.get(node.id, []):
                cur = st
                syms = {s_ for k, _ in cur.cons for s_, _v in k}
                for s_ in sorted(syms):
                    m = re.match(r"m:(\w+)(->|\.)", s_)
                    if not (m and m.group(1) in pnames):
                        cur = self.forget(cur, s_)
                acc = cur if acc is None else self.join(acc, cur)
        if acc is None:
            return []
        out = []
        for k, b in acc.cons:
            nk = []
            for s_, v in k:
                m = re.match(r"m:(\w+)((?:->|\.).*)$", s_)
                nk.append(("m:$%d%s" % (pnames[m.group(1)], m.group(2)), v))
            out.append((tuple(sorted(nk)), b))
        return out

    def pending_for(self, st, vid):
        cands = self.pending.get(vid)
        if not cands:
            return None
        syms = {s_ for k, _ in st.cons for s_, _v in k}
        live = [e for g_, e in cands.items() if g_ in syms]
        return live[0] if len(live) == 1 else None

    def on_invalid(self, st, vid):
        """result variable vid equals SIZE_MAX: the callee set no value pointer -- nothing is readable through it"""
        ent = self.pending_for(st, vid)
        if ent is None:
            return st
        bound, region, val_ref, len_ref, post = ent
        if region is not None and val_ref is not None:
            newp = self.pairs.get(val_ref["id"])
            if newp is None:
                newp = Pair(val_ref["n"], val_ref["id"])
                self.pairs[val_ref["id"]] = newp
            st = self.forget_prefix(st, "B:%s[" % newp.name)
            st = self.forget(st, newp.K)
            st = self.forget(st, newp.c0)
            st = State(st.cons | {le(V(newp.K), C(0)), le(V(newp.c0), C(0))}, st.ne)
        return st

    def on_valid(self, st, vid):
        """result variable vid was compared unequal to SIZE_MAX"""
        ent = self.pending_for(st, vid)
        if ent is None:
            return st
        bound, region, val_ref, len_ref, post = ent
        st = self.add(st, V("v%d" % vid), "<=", bound)
        if post:
            # what the callee's successful returns guarantee about the fields of the objects it was given
            st = State(st.cons | frozenset(post), st.ne)
        if region is not None and val_ref is not None:
            pair, start, avail = region
            # *val = start + t, with t + *len <= result <= avail: the value region is [K', K' + len) inside the old one
            newp = self.pairs.get(val_ref["id"])
            if newp is None:
                newp = Pair(val_ref["n"], val_ref["id"])
                self.pairs[val_ref["id"]] = newp
            st = self.forget_prefix(st, "B:%s[" % newp.name)
            st = self.forget(st, newp.K)
            st = self.forget(st, newp.c0)
            ln = None
            if isinstance(len_ref, Lin):
                ln = len_ref
            elif len_ref is not None:
                ln = V(self.sym(len_ref))
            cons = set(st.cons)
            cons |= {le(V(newp.K), C(0)), le(C(0), V(newp.K))}
            if ln is not None:
                cons |= {le(V(newp.c0), ln), le(ln, V(newp.c0))}
                cons.add(le(ln, V("v%d" % vid)))
                # kept in this explicit form: it survives `++val, --len` and the join with the branch that has no value
                cons.add(le(V(newp.K) + ln, V(newp.c0)))
            st = State(frozenset(cons), st.ne)
        return st

    # ---- conditions
    def _str_cell(self, e):
        """(pair, absolute offset Lin) if e reads one character of a tracked string"""
        e = strip(e)
        if not isinstance(e, dict):
            return None
        if e.get("k") == "Index":
            po = self.ptr_offset(e["b"])
            ix = self.lin(e["i"])
            if po is not None and po[0].kind == "str" and po[1] is not None and ix is not None:
                return po[0], V(po[0].K) + po[1] + ix
        if e.get("k") == "Un" and e["op"] == "*":
            po = self.ptr_offset(e["e"])
            if po is not None and po[0].kind == "str" and po[1] is not None:
                return po[0], V(po[0].K) + po[1]
        return None

    def learn_nonzero(self, c, pol, st):
        """the condition c == pol shows that a character of a string is not the terminator: everything up to and
        including the next position is readable"""
        c = strip(c)
        cell, nz = None, False
        if c.get("k") in ("Index", "Un") and pol:
            cell, nz = self._str_cell(c), True
        elif c.get("k") == "Bin" and c["op"] in ("==", "!=", "<", "<=", ">", ">=") and int_val(c["y"]) is not None:
            cell = self._str_cell(c["x"])
            v, op = int_val(c["y"]), c["op"]
            if not pol:
                op = {"==": "!=", "!=": "==", "<": ">=", "<=": ">", ">": "<=", ">=": "<"}[op]
            nz = (op == "!=" and v == 0) or (op == "==" and v != 0) or (op == ">" and v >= 0) or (op == ">=" and v >= 1) or \
                (op == "<" and v <= 0) or (op == "<=" and v <= -1)
        if c.get("k") == "Bin" and c["op"] in ("==", "!=") and (c["op"] == "==") == bool(pol):
            # *str == *prefix with *prefix known non-zero (it lies before its string's known extent)
            c1, c2 = self._str_cell(c["x"]), self._str_cell(c["y"])
            if c1 is not None and c2 is not None:
                for me, other in ((c1, c2), (c2, c1)):
                    if implied(st.cons, le(other[1] + C(2), V(other[0].c0))) and implied(st.cons, le(me[1] + C(1), V(me[0].c0))):
                        st = State(st.cons | {le(me[1] + C(2), V(me[0].c0))}, st.ne)
                return st
        if cell is None or not nz:
            return st
        pair, a = cell
        if not implied(st.cons, le(a + C(1), V(pair.root.c0 if False else pair.c0))):
            return st
        return State(st.cons | {le(a + C(2), V(pair.c0))}, st.ne)

    def assume(self, c, pol, st, node):
        st = self._assume(c, pol, st, node)
        if st is not None and not st.bottom() and any(p.kind == "str" for p in self.pairs.values()):
            st = self.learn_nonzero(c, pol, st)
        return st

    def _assume(self, c, pol, st, node):
        self.cur = st
        c = strip(c)
        k = c.get("k")
        if k == "Un" and c["op"] in ("post--", "post++", "pre--", "pre++") and strip(c["e"]).get("k") == "Ref" and \
                not strip(c["e"]).get("p") and strip(c["e"])["id"] not in self.pairs:
            # while (pos--) / while (--n): the tested value is the old (post) or the new (pre) one
            l = strip(c["e"])
            t = self.lin(l)
            if t is not None and len(t.t) == 1:
                sym = list(t.t)[0]
                d = 1 if "++" in c["op"] else -1
                if c["op"].startswith("post"):
                    st = self.add(st, V(sym), "!=" if pol else "==", C(0))
                    if st.bottom():
                        return st
                    if d < 0 and not implied(st.cons, le(C(1), V(sym))):
                        return self.assign(st, sym, None)          # 0 - 1 wraps: the variable is dead after the loop
                    return self.assign(st, sym, V(sym) + C(d))
                if d < 0 and not implied(st.cons, le(C(1), V(sym))):
                    st = self.assign(st, sym, None)
                else:
                    st = self.assign(st, sym, V(sym) + C(d))
                return self.add(st, V(sym), "!=" if pol else "==", C(0))
        if k == "Bin" and c["op"] in ("==", "!=", "<", "<=", ">", ">="):
            x, y = strip(c["x"]), strip(c["y"])
            op = c["op"]
            if not pol:
                op = {"==": "!=", "!=": "==", "<": ">=", "<=": ">", ">": "<=", ">=": "<"}[op]
            if x.get("k") == "Bin" and x["op"] == "=":
                st = self.eval(x, st, node)
                x = strip(x["x"])
            else:
                st = self.reads_in(x, st, node)
            st = self.reads_in(y, st, node)
            for a, b in ((x, y), (y, x)):
                if int_val(b) == SIZE_MAX and a.get("k") == "Ref":
                    if op == "!=":
                        return self.on_valid(st, a["id"])
                    if op == "==":
                        return self.on_invalid(st, a["id"])
                    return st
            lx, ly = self.lin(x), self.lin(y)
            if lx is not None and ly is not None:
                return self.add(st, lx, op, ly)
            if op in ("==", "!="):
                for a, b in ((x, y), (y, x)):
                    if a.get("k") == "Ref" and a.get("p") and a.get("rk") in ("param", "local") and \
                            a["id"] not in self.pairs and int_val(b) == 0:
                        return self.add(st, V(self.sym(a)), op, C(0))
            return st
        st = self.reads_in(c, st, node)
        if k in ("Ref", "Member", "Index") and not c.get("p"):
            lx = self.lin(c)
            if lx is not None:
                return self.add(st, lx, "!=" if pol else "==", C(0))
        if k == "Ref" and c.get("p") and c.get("rk") in ("param", "local") and c["id"] not in self.pairs:
            # an untracked pointer used as a truth value: remember whether it is null (one symbol, 0 or >= 1)
            return self.add(st, V(self.sym(c)), "!=" if pol else "==", C(0))
        return st

    # ---- fixpoint
    def join(self, a, b):
        str_c0 = {p.c0 for p in self.pairs.values() if p.kind == "str"}      # a string's extent is a variable
        keep = set()
        for c in a.cons:
            if c in b.cons or implied(b.cons, c):
                keep.add(c)
        for c in b.cons:
            if c in a.cons or implied(a.cons, c):
                keep.add(c)
        # template constraints valid on both sides: x - y <= k (k in -1, 0) and interval hulls
        syms = set()
        for k, _ in a.cons | b.cons:
            for s_, _v in k:
                if not s_.startswith(("t", "B:", "g:", "E0:", "c0:")) or s_ in str_c0:
                    syms.add(s_)
        # a symbol pinned to one constant on both sides is described by its interval alone
        def pinned(st, x):
            lo = [bd for k, bd in st.cons if k == ((x, -1),)]
            hi = [bd for k, bd in st.cons if k == ((x, 1),)]
            return bool(lo and hi and -min(lo) == min(hi))
        syms = sorted(x for x in syms if not (pinned(a, x) and pinned(b, x)))
        def components(st):
            comp = {}
            for k, _ in st.cons:
                ks = [s_ for s_, _v in k]
                root = None
                for s_ in ks:
                    r_ = s_
                    while comp.get(r_, r_) != r_:
                        r_ = comp[r_]
                    if root is None:
                        root = r_
                    comp[r_] = root
                    comp[s_] = root
            def find(s_):
                while comp.get(s_, s_) != s_:
                    s_ = comp[s_]
                return s_
            return find
        fa, fb = components(a), components(b)
        if len(syms) <= 14:
            for x in syms:
                for y in syms:
                    # a relation between symbols that are unrelated on both sides says no more than their intervals
                    if x == y or (fa(x) != fa(y) and fb(x) != fb(y)):
                        continue
                    for kk in (-1, 0):
                        c = (tuple(sorted(((x, 1), (y, -1)))), kk)
                        if c in keep:
                            break
                        if implied(a.cons, c) and implied(b.cons, c):
                            keep.add(c)
                            break
        def bounds(st, sign):
            """x*sign <= bound for every symbol, by interval propagation through the constraints (all symbols >= 0)"""
            lo, hi = {}, {}
            syms_ = {s_ for k, _ in st.cons for s_, _v in k}
            for x in syms_:
                lo[x] = 0
                hi[x] = 255 if x.startswith("B:") else None
            for _ in range(6):
                changed = False
                for k, bd in st.cons:
                    for x, ax in k:
                        rest = 0
                        for y, ay in k:
                            if y == x:
                                continue
                            if ay > 0:
                                rest += ay * lo[y]
                            elif hi[y] is None:
                                rest = None
                                break
                            else:
                                rest += ay * hi[y]
                        if rest is None:
                            continue
                        r = bd - rest
                        if ax > 0:
                            v = r // ax
                            if hi[x] is None or v < hi[x]:
                                hi[x] = v
                                changed = True
                        else:
                            v = -(r // -ax)          # ceil(r / ax) for ax < 0:  x >= r/ax
                            if v > lo[x]:
                                lo[x] = v
                                changed = True
                if not changed:
                    break
            if sign == 1:
                return {x: v for x, v in hi.items() if v is not None}
            return {x: -v for x, v in lo.items() if v > 0}
        for sign in (1, -1):
            ba, bb = bounds(a, sign), bounds(b, sign)
            for x in set(ba) & set(bb):
                keep.add((((x, sign),), max(ba[x], bb[x])))
        keep = frozenset(keep)
        if len(keep) > 30:
            keep = simplify(keep)
        return State(keep, a.ne & b.ne)

    def widen(self, old, new):
        keep = {c for c in old.cons if c in new.cons or implied(new.cons, c)}
        return State(frozenset(keep), old.ne & new.ne)

    def _liveness(self, cfg):
        """var id -> set of node ids from which a mention of the variable is still reachable"""
        mention = {}
        for node in cfg.nodes:
            if node.e is None:
                continue
            for n in walk(node.e):
                if n.get("k") in ("Ref", "Decl") and n.get("id") is not None:
                    mention.setdefault(n["id"], set()).add(node.id)
        preds = {}
        for node in cfg.nodes:
            for _, s_ in node.succ:
                preds.setdefault(s_.id, set()).add(node.id)
        live = {}
        for vid, nodes in mention.items():
            seen = set(nodes)
            work = list(nodes)
            while work:
                x = work.pop()
                for p_ in preds.get(x, ()):
                    if p_ not in seen:
                        seen.add(p_)
                        work.append(p_)
            live[vid] = seen
        return live

    def drop_dead(self, st, nid):
        """project out the symbols of locals that are never mentioned again from node nid on (and the call snapshots
        owned by them): keeps the constraint systems of long straight-line decoders small"""
        dead = []
        syms = {s_ for k, _ in st.cons for s_, _v in k}
        for s_ in syms:
            if s_.startswith("v") and s_[1:].isdigit():
                vid = int(s_[1:])
                if vid in self.param_ids:
                    continue
                if nid not in self.live.get(vid, ()):
                    dead.append(s_)
            elif s_.startswith("g:"):
                o = self.ghost_owner.get(s_)
                if o is not None and nid not in self.live.get(o, ()):
                    dead.append(s_)
        for s_ in dead:
            st = self.forget(st, s_)
        return st

    def run(self):
        cfg = self.f.cfg()
        self.live = self._liveness(cfg)
        self.param_ids = {p["id"] for p in self.f.params}
        init = set()
        for p in list(self.pairs.values()):
            if p.kind == "str":
                init |= {le(V(p.K), C(0)), le(C(0), V(p.K)), le(C(1), V(p.c0))}      # the first character is readable
                continue
            cs = V("v%d" % p.cnt_id)
            init |= {le(V(p.K), C(0)), le(C(0), V(p.K)), le(cs, V(p.c0)), le(V(p.c0), cs), le(cs, V(p.E0)), le(V(p.E0), cs)}
        states = {cfg.entry.id: [State(frozenset(init))]}
        collapsed = set()
        visits = {}
        work = deque([cfg.entry.id])
        inq = {cfg.entry.id}
        steps = 0
        while work:
            nid = work.popleft()
            inq.discard(nid)
            steps += 1
            if steps > 6000:
                raise ir.AnalysisBroken("decoder-bounds analysis does not converge in %s" % self.f.name)
            node = cfg.nodes[nid]
            for st in list(states[nid]):
                outs = []
                kind = node.kind
                if kind in ("entry", "nop"):
                    outs = [(s, st) for _, s in node.succ]
                elif kind == "eval":
                    st2 = self.eval(node.e, st, node)
                    outs = [(s, st2) for _, s in node.succ]
                elif kind == "decl":
                    d = node.e
                    st2 = st
                    if d.get("init") is not None:
                        asg = {"k": "Bin", "op": "=", "l": d.get("l"),
                               "x": {"k": "Ref", "n": d["n"], "id": d["id"], "rk": "local", "p": d.get("p"), "t": d.get("t"),
                                     "pc": d.get("pc")},
                               "y": d["init"]}
                        st2 = self.eval(asg, st, node)
                    outs = [(s, st2) for _, s in node.succ]
                elif kind == "cond":
                    for lab, s in node.succ:
                        st2 = self.assume(node.e, lab, st, node)
                        if not st2.bottom():
                            outs.append((s, st2))
                elif kind == "switch":
                    st1 = self.reads_in(node.e, st, node)
                    lx = self.lin(node.e)
                    for lab, s in node.succ:
                        st2 = st1
                        if lab != "default" and lx is not None and lab[1] is not None:
                            st2 = self.add(st1, lx, "==", C(lab[1]))
                        elif lab == "default" and lx is not None:
                            for l2, _ in node.succ:
                                if l2 != "default" and l2[1] is not None:
                                    st2 = self.add(st2, lx, "!=", C(l2[1]))
                        if not st2.bottom():
                            outs.append((s, st2))
                elif kind == "return":
                    st2 = st
                    if node.e is not None:
                        st2 = self.reads_in(node.e, st, node)
                        self.check_return(node.e, st2, node)
                        self.check_str_return(node.e, st2, node)
                    outs = [(s, st2) for _, s in node.succ]
                for s, st2 in outs:
                    st2 = self.drop_dead(st2, s.id)
                    cur = states.setdefault(s.id, [])
                    if any(x.key() == st2.key() or leq_state(st2, x) for x in cur):
                        continue
                    visits[s.id] = visits.get(s.id, 0) + 1
                    if s.id in collapsed or len(cur) >= CAP or visits[s.id] > 12:
                        collapsed.add(s.id)
                        base = cur[0]
                        for x in cur[1:]:
                            base = self.join(base, x)
                        new = self.widen(base, st2) if visits[s.id] > 16 else self.join(base, st2)
                        if len(cur) == 1 and new.key() == cur[0].key():
                            continue
                        states[s.id] = [new]
                    else:
                        cur.append(st2)
                    if s.id not in inq:
                        inq.add(s.id)
                        work.append(s.id)
        # final pass: evaluate the checks once on the fixpoint states
        self.record = True
        for nid, sts in states.items():
            node = cfg.nodes[nid]
            for st in sts:
                if node.kind == "eval":
                    self.eval(node.e, st, node)
                elif node.kind == "decl" and node.e.get("init") is not None:
                    d = node.e
                    self.eval({"k": "Bin", "op": "=", "l": d.get("l"),
                               "x": {"k": "Ref", "n": d["n"], "id": d["id"], "rk": "local", "p": d.get("p"), "t": d.get("t"),
                                     "pc": d.get("pc")}, "y": d["init"]}, st, node)
                elif node.kind == "cond":
                    self.assume(node.e, True, st, node)
                elif node.kind == "switch":
                    self.reads_in(node.e, st, node)
                elif node.kind == "return" and node.e is not None:
                    st2 = self.reads_in(node.e, st, node)
                    self.check_return(node.e, st2, node)
                    self.check_str_return(node.e, st2, node)
        self.record = False
        return states

    def check_return(self, e, st, node):
        self.cur = st
        if not self.record:
            return
        es = strip(e)
        prim = [p for p in self.entry_pairs if p.cnt_id is not None]
        if not prim or self.f.ret.get("t") != "size_t":
            return
        pair = prim[0]
        if int_val(es) == SIZE_MAX:
            self.rets.setdefault((node.line, "SIZE_MAX"), []).append((True, "error"))
            return
        if (es.get("t") == "bool_t") or (es.get("k") == "Int" and es.get("m") in ("FALSE", "TRUE")):
            self.rets.setdefault((node.line, show(e)[:40]), []).append((False, "bool"))
            return
        if es.get("k") == "Call" and "consumed" in self.contracts.get(es.get("callee"), set()):
            self.rets.setdefault((node.line, show(e)[:40]), []).append((True, "delegated"))
            return
        if es.get("k") == "Ref" and self.pending_for(st, es["id"]) is not None:
            # a callee result returned as is: SIZE_MAX or bounded by what the callee was given
            bound = self.pending_for(st, es["id"])[0]
            ok = implied(st.cons, le(V("v%d" % es["id"]), V(pair.E0))) or implied(st.cons, le(bound, V(pair.E0)))
            self.rets.setdefault((node.line, show(e)[:40]), []).append((ok, "propagated"))
            return
        lin = self.lin(e)
        ok = lin is not None and implied(st.cons, le(lin, V(pair.E0)))
        self.rets.setdefault((node.line, show(e)[:40]), []).append((ok, "consumed"))

    def check_str_return(self, e, st, node):
        """a function that reports how many characters of a string it matched: the matched characters were seen non-zero"""
        if not self.record or self.f.ret.get("t") != "size_t":
            return
        sp = [p for p in self.entry_pairs if p.kind == "str"]
        if not sp or int_val(strip(e)) == SIZE_MAX or "strconsumed" not in self.contracts.get(self.f.name, set()):
            return
        lin = self.lin(e)
        ok = lin is not None and implied(st.cons, le(lin + C(1), V(sp[0].c0)))
        self.srets.setdefault((node.line, show(e)[:40]), []).append(ok)
