"""DB: decoder-bounds analyser.  A small relational abstract interpreter over the CFG.

State: linear inequalities  sum(coef * symbol) <= bound  and disequalities  lin != const  over integer symbols
  v<id>            scalar local / parameter
  m:<path>         scalar reached through a simple access path (x->f), D:<name> the value *p of a scalar out-parameter
  K:<ptr>          offset of a tracked input pointer from the start of its region
  c0:<ptr>         length of that region
  B:<ptr>[k]       octet of the input at constant index from the current pointer (0..255)
  g<n>             ghost = value of an expression at an earlier program point
Per CFG node a bounded set of such states is kept (disjunctive up to CAP, then joined; loop heads widened).
Implication is decided by summing at most four known inequalities (sound, incomplete).  Forgetting a symbol
projects it out (Fourier-Motzkin on that symbol), so derived facts about the other symbols survive."""
from collections import deque
from . import ir
from .ir import strip, show, walk, int_val, is_int, access_path

SIZE_MAX = (1 << 64) - 1
CAP = 6


class Lin:
    __slots__ = ("t", "c")

    def __init__(self, t=None, c=0):
        self.t = {k: v for k, v in (t or {}).items() if v != 0}
        self.c = c

    def __add__(self, o):
        d = dict(self.t)
        for k, v in o.t.items():
            d[k] = d.get(k, 0) + v
        return Lin(d, self.c + o.c)

    def scale(self, k):
        return Lin({s: v * k for s, v in self.t.items()}, self.c * k)

    def __sub__(self, o):
        return self + o.scale(-1)

    def subst(self, sym, lin):
        if sym not in self.t:
            return self
        k = self.t[sym]
        d = dict(self.t)
        del d[sym]
        return Lin(d, self.c) + lin.scale(k)

    def key(self):
        return tuple(sorted(self.t.items()))

    def __repr__(self):
        return " + ".join("%s*%s" % (v, k) for k, v in sorted(self.t.items())) + " + %d" % self.c


def V(sym):
    return Lin({sym: 1}, 0)


def C(k):
    return Lin({}, k)


def le(lhs, rhs):
    d = lhs - rhs
    return (d.key(), -d.c)


_imp_cache = {}


def _fm_infeasible(cons):
    """rational infeasibility of a set of inequalities by Fourier-Motzkin elimination (bounded)"""
    cur = set(cons)
    for _ in range(40):
        if any(not k and b < 0 for k, b in cur):
            return True
        syms = {}
        for k, b in cur:
            for s_, v in k:
                p, n = syms.get(s_, (0, 0))
                syms[s_] = (p + (v > 0), n + (v < 0))
        if not syms:
            return False
        # eliminate the cheapest symbol
        s_ = min(syms, key=lambda x: syms[x][0] * syms[x][1] - syms[x][0] - syms[x][1])
        pos = [(dict(k), b) for k, b in cur if dict(k).get(s_, 0) > 0]
        neg = [(dict(k), b) for k, b in cur if dict(k).get(s_, 0) < 0]
        nxt = {(k, b) for k, b in cur if s_ not in dict(k)}
        if len(pos) * len(neg) > 600:
            return False
        for dp, bp in pos:
            for dn, bn in neg:
                a, b_ = dp[s_], -dn[s_]
                acc = {}
                for x, v in dp.items():
                    acc[x] = acc.get(x, 0) + v * b_
                for x, v in dn.items():
                    acc[x] = acc.get(x, 0) + v * a
                acc = {x: v for x, v in acc.items() if v != 0}
                bd = bp * b_ + bn * a
                if not acc:
                    if bd < 0:
                        return True
                    continue
                nxt.add((tuple(sorted(acc.items())), bd))
        # keep only the tightest bound per left-hand side
        best = {}
        for k, b in nxt:
            if k not in best or b < best[k]:
                best[k] = b
        cur = set(best.items())
        if len(cur) > 500:
            return False
    return False


def implied(cons, target):
    """cons |= target, decided by refuting cons /\ not(target) over the rationals (sound for integers)"""
    tkey, tb = target
    if not tkey:
        return 0 <= tb
    ck = (cons, target)
    if ck in _imp_cache:
        return _imp_cache[ck]
    if target in cons:
        return True
    tvec = dict(tkey)
    # relevant constraints: those connected to the target's symbols
    frontier = set(tvec)
    pool = list(cons)
    changed = True
    while changed:
        changed = False
        for k, b in pool:
            ks = [x for x, _ in k]
            if any(x in frontier for x in ks) and not all(x in frontier for x in ks):
                frontier.update(ks)
                changed = True
    rel = [(k, b) for k, b in pool if all(x in frontier for x, _ in k)]
    for x in frontier:
        rel.append((((x, -1),), 0))
        if x.startswith("B:"):
            rel.append((((x, 1),), 255))
    # negation of target:  sum >= tb + 1   <=>   -sum <= -tb - 1
    rel.append((tuple(sorted((x, -v) for x, v in tkey)), -tb - 1))
    res = _fm_infeasible(rel)
    if len(_imp_cache) > 300000:
        _imp_cache.clear()
    _imp_cache[ck] = res
    return res


def project(cons, sym):
    """eliminate sym (Fourier-Motzkin), keeping what follows for the other symbols"""
    pos, neg, rest = [], [], []
    for k, b in cons:
        d = dict(k)
        if sym in d:
            (pos if d[sym] > 0 else neg).append((d, b))
        else:
            rest.append((k, b))
    out = set(rest)
    # implicit sym >= 0
    neg.append(({sym: -1}, 0))
    if sym.startswith("B:"):
        pos.append(({sym: 1}, 255))
    n = 0
    for dp, bp in pos:
        for dn, bn in neg:
            a, b_ = dp[sym], -dn[sym]
            acc = {}
            for s, v in dp.items():
                acc[s] = acc.get(s, 0) + v * b_
            for s, v in dn.items():
                acc[s] = acc.get(s, 0) + v * a
            acc = {s: v for s, v in acc.items() if v != 0}
            if sym in acc:
                continue
            if not acc:
                if bp * b_ + bn * a < 0:
                    out.add(((), -1))
                continue
            out.add((tuple(sorted(acc.items())), bp * b_ + bn * a))
            n += 1
            if n > 150:
                break
    return frozenset(out)


class State:
    __slots__ = ("cons", "ne")

    def __init__(self, cons=frozenset(), ne=frozenset()):
        self.cons = cons
        self.ne = ne

    def key(self):
        return (self.cons, self.ne)

    def bottom(self):
        return any(not k and b < 0 for k, b in self.cons)


def leq_state(a, b):
    """a is at least as strong as b?"""
    return all(c in a.cons or implied(a.cons, c) for c in b.cons)


class Pair:
    def __init__(self, name, ptr_id, cnt_id=None):
        self.name, self.ptr_id, self.cnt_id = name, ptr_id, cnt_id
        self.K = "K:" + name
        self.c0 = "c0:" + name
        self.E0 = "E0:" + name


INPUT_NAMES = ("der", "apdu", "cert", "epki", "src", "in", "buf", "body")
COUNT_NAMES = ("count", "len", "size", "der_len", "cert_len", "apdu_len", "epki_len", "in_len", "body_len")
NOT_READERS = {"memIsValid", "memIsNullOrValid", "memIsDisjoint2", "memIsDisjoint", "memIsSameOrDisjoint", "memIsDisjoint3",
               "memIsAligned", "utilAssert"}


def find_pairs(func):
    out = []
    ps = func.params
    for i, p in enumerate(ps):
        if p.get("p") and p.get("pc") and not p.get("pf") and p["n"] in INPUT_NAMES and i + 1 < len(ps):
            q = ps[i + 1]
            if q["t"] == "size_t" and q["n"] in COUNT_NAMES and (p.get("ct") or "").count("*") == 1:
                out.append(Pair(p["n"], p["id"], q["id"]))
    return out


class Analyzer:
    def __init__(self, func, prog, contracts):
        self.f, self.prog = func, prog
        self.contracts = contracts      # name -> set of {'consumed', 'region'}
        self.pairs = {p.ptr_id: p for p in find_pairs(func)}
        self.entry_pairs = list(self.pairs.values())
        self.cnt_ids = {p.cnt_id for p in self.pairs.values()}
        self.reads, self.subs, self.rets, self.regions = {}, {}, {}, {}
        self.pending = {}      # result var id -> (kind, Lin bound, region info)
        self.record = False
        self.ghost = 0
        self.locals_ptr = {}

    # ---- symbols
    def sym(self, ref):
        return "v%d" % ref["id"]

    def fresh(self, tag=None):
        if tag is not None:
            return "g:%s" % tag
        self.ghost += 1
        return "t%d" % self.ghost

    def lin(self, e):
        e = strip(e)
        if not isinstance(e, dict):
            return None
        k = e.get("k")
        if k == "Int":
            v = int_val(e)
            if v is None or v >= (1 << 62):
                return None
            return C(v)
        if k == "Ref" and e.get("rk") in ("local", "param") and not e.get("p"):
            return V(self.sym(e))
        if k == "Member" and not e.get("p"):
            ap = access_path(e)
            return V("m:" + ap) if ap else None
        if k == "Un" and e["op"] == "*" and strip(e["e"]).get("k") == "Ref" and not e.get("p"):
            r = strip(e["e"])
            if r["id"] not in self.pairs:
                return V("D:%d" % r["id"])
            return None
        if k == "Bin" and e["op"] in ("+", "-"):
            a, b = self.lin(e["x"]), self.lin(e["y"])
            if a is None or b is None:
                return None
            return a + b if e["op"] == "+" else a - b
        if k == "Bin" and e["op"] == "*":
            a, b = self.lin(e["x"]), self.lin(e["y"])
            if a is not None and b is not None:
                if not a.t:
                    return b.scale(a.c)
                if not b.t:
                    return a.scale(b.c)
            return None
        if k == "Bin" and e["op"] == "=":
            return self.lin(e["y"])
        if k == "Index":
            b = strip(e["b"])
            i = self.lin(e["i"])
            if b.get("k") == "Ref" and b["id"] in self.pairs and i is not None and not i.t and b.get("pc") is not None:
                return V("B:%s[%d]" % (self.pairs[b["id"]].name, i.c))
            return None
        return None

    # ---- state ops
    def forget(self, st, sym):
        return State(project(st.cons, sym), frozenset(n for n in st.ne if not any(s == sym for s, _ in n[0])))

    def forget_prefix(self, st, prefix):
        syms = {s for k, b in st.cons for s, _ in k if s.startswith(prefix)}
        for s in syms:
            st = self.forget(st, s)
        return State(st.cons, frozenset(n for n in st.ne if not any(s.startswith(prefix) for s, _ in n[0])))

    def assign(self, st, sym, lin):
        """sym := lin (lin may mention sym)"""
        if lin is None:
            return self.forget(st, sym)
        if sym in lin.t and lin.t[sym] == 1:
            d = Lin({k: v for k, v in lin.t.items() if k != sym}, lin.c)
            new = set()
            for key, b in st.cons:
                L = Lin(dict(key), -b)
                if sym in L.t:
                    L2 = L.subst(sym, V(sym) - d)
                    new.add((L2.key(), -L2.c))
                else:
                    new.add((key, b))
            ne = set()
            for key, c in st.ne:
                L = Lin(dict(key), -c)
                if sym in L.t:
                    L2 = L.subst(sym, V(sym) - d)
                    ne.add((L2.key(), -L2.c))
                else:
                    ne.add((key, c))
            return State(frozenset(new), frozenset(ne))
        if sym in lin.t:
            # non-invertible self reference: go through a temporary
            tmp = self.fresh()
            st = State(st.cons | {le(V(tmp), lin), le(lin, V(tmp))}, st.ne)
            st = self.forget(st, sym)
            return self.rename(st, tmp, sym)
        st = self.forget(st, sym)
        return State(st.cons | {le(V(sym), lin), le(lin, V(sym))}, st.ne)

    @staticmethod
    def rename(st, a, b):
        def rn(k):
            return tuple(sorted((b if s == a else s, v) for s, v in k))
        return State(frozenset((rn(k), bd) for k, bd in st.cons), frozenset((rn(k), c) for k, c in st.ne))

    def add(self, st, lhs, op, rhs):
        cons = set(st.cons)
        ne = set(st.ne)
        if op == "<=":
            cons.add(le(lhs, rhs))
        elif op == "<":
            cons.add(le(lhs + C(1), rhs))
        elif op == ">=":
            cons.add(le(rhs, lhs))
        elif op == ">":
            cons.add(le(rhs + C(1), lhs))
        elif op == "==":
            cons.add(le(lhs, rhs))
            cons.add(le(rhs, lhs))
        elif op == "!=":
            d = lhs - rhs
            ne.add((d.key(), -d.c))
        st = State(frozenset(cons), frozenset(ne))
        return self.sharpen(st)

    def sharpen(self, st):
        """x != k with x >= k known gives x >= k + 1 (and symmetrically)"""
        changed = True
        cons = set(st.cons)
        rounds = 0
        while changed and rounds < 4:
            changed = False
            rounds += 1
            fc = frozenset(cons)
            for key, c in st.ne:
                L = Lin(dict(key), 0)
                if implied(fc, le(C(c), L)) and not implied(fc, le(C(c + 1), L)):
                    cons.add(le(C(c + 1), L))
                    changed = True
                elif implied(fc, le(L, C(c))) and not implied(fc, le(L, C(c - 1))):
                    cons.add(le(L, C(c - 1)))
                    changed = True
        return State(frozenset(cons), st.ne)

    # ---- pointer expressions
    def ptr_offset(self, e):
        e = strip(e)
        k = e.get("k")
        if k == "Ref" and e["id"] in self.pairs:
            return self.pairs[e["id"]], C(0)
        if k == "Bin" and e["op"] in ("+", "-"):
            a = self.ptr_offset(e["x"])
            if a is not None:
                o = self.lin(e["y"])
                if o is not None and e["op"] == "-":
                    o = o.scale(-1)
                return (a[0], None if o is None or a[1] is None else a[1] + o)
            if e["op"] == "+":
                b = self.ptr_offset(e["y"])
                if b is not None:
                    o = self.lin(e["x"])
                    return (b[0], None if o is None or b[1] is None else b[1] + o)
        if k == "Cond":
            a = self.ptr_offset(e["x"])
            if a is not None and is_int(e["y"], 0):
                return a
        if k == "Un" and e["op"] == "&" and strip(e["e"]).get("k") == "Index":
            ix = strip(e["e"])
            a = self.ptr_offset(ix["b"])
            if a is not None:
                o = self.lin(ix["i"])
                return (a[0], None if o is None or a[1] is None else a[1] + o)
        return None

    def check_read(self, st, pair, idx, node, text):
        ok = idx is not None and implied(st.cons, le(V(pair.K) + idx + C(1), V(pair.c0))) and \
            implied(st.cons, le(C(0), V(pair.K) + idx))
        if self.record:
            self.reads.setdefault((node.line, text), []).append(ok)

    def check_len(self, st, pair, off, ln, node, text):
        ok = off is not None and ln is not None and implied(st.cons, le(V(pair.K) + off + ln, V(pair.c0)))
        if self.record:
            self.reads.setdefault((node.line, text), []).append(ok)

    # ---- expressions
    def eval(self, e, st, node):
        if not isinstance(e, dict):
            return st
        k = e.get("k")
        if k == "Bin" and e["op"] == ",":
            return self.eval(e["y"], self.eval(e["x"], st, node), node)
        if k == "Call":
            return self.call(e, st, node)
        if k == "Bin" and e["op"] in ir.ASSIGN_OPS:
            lhs, rhs = strip(e["x"]), strip(e["y"])
            if rhs.get("k") == "Call" and e["op"] == "=":
                return self.call(rhs, st, node, result=lhs)
            st = self.reads_in(e["y"], st, node)
            if lhs.get("k") == "Ref" and lhs.get("p"):
                vid = lhs["id"]
                if vid in self.pairs:
                    pair = self.pairs[vid]
                    d = None
                    if e["op"] == "+=":
                        d = self.lin(rhs)
                    elif e["op"] == "-=":
                        d = self.lin(rhs)
                        d = d.scale(-1) if d is not None else None
                    else:
                        po = self.ptr_offset(rhs)
                        if po is not None and po[0] is pair:
                            d = po[1]
                    st = self.forget_prefix(st, "B:%s[" % pair.name)
                    return self.assign(st, pair.K, None if d is None else V(pair.K) + d)
                # a local pointer that takes the value of a tracked pointer becomes an alias pair
                po = self.ptr_offset(rhs) if e["op"] == "=" else None
                if po is not None and po[1] is not None:
                    base = po[0]
                    newp = self.pairs.get(vid)
                    if newp is None:
                        newp = Pair(lhs["n"], vid)
                        self.pairs[vid] = newp
                    st = self.forget_prefix(st, "B:%s[" % newp.name)
                    st = self.forget(st, newp.K)
                    st = self.forget(st, newp.c0)
                    return State(st.cons | {le(V(newp.K), V(base.K) + po[1]), le(V(base.K) + po[1], V(newp.K)),
                                            le(V(newp.c0), V(base.c0)), le(V(base.c0), V(newp.c0))}, st.ne)
                return st
            target = self.lin(lhs) if lhs.get("k") in ("Ref", "Member", "Un") else None
            if target is None or len(target.t) != 1:
                return self.reads_in(lhs, st, node, lvalue=True)
            sym = list(target.t)[0]
            if e["op"] == "=":
                if rhs.get("k") == "Cond":
                    return self.assign_cond(st, sym, rhs)
                return self.assign(st, sym, self.lin(rhs))
            if e["op"] in ("+=", "-="):
                d = self.lin(rhs)
                if e["op"] == "-=" and lhs.get("k") == "Ref" and lhs["id"] in self.cnt_ids:
                    ok = d is not None and implied(st.cons, le(d, V(sym)))
                    if self.record:
                        self.subs.setdefault((node.line, show(e)[:50]), []).append(ok)
                if d is not None and e["op"] == "-=":
                    d = d.scale(-1)
                return self.assign(st, sym, None if d is None else V(sym) + d)
            if e["op"] == "*=" and self.lin(rhs) is not None and not self.lin(rhs).t:
                kk = self.lin(rhs).c
                tmp = self.assign(st, sym, None)
                # x *= k : new x = k * old x ; keep x >= 0 only
                return tmp
            return self.assign(st, sym, None)
        if k == "Un" and e["op"] in ("pre++", "pre--", "post++", "post--"):
            l = strip(e["e"])
            d = 1 if "++" in e["op"] else -1
            if l.get("k") == "Ref" and l["id"] in self.pairs:
                pair = self.pairs[l["id"]]
                st = self.forget_prefix(st, "B:%s[" % pair.name)
                return self.assign(st, pair.K, V(pair.K) + C(d))
            t = self.lin(l)
            if t is not None and len(t.t) == 1 and not l.get("p"):
                sym = list(t.t)[0]
                if d < 0 and l.get("k") == "Ref" and l["id"] in self.cnt_ids:
                    if self.record:
                        self.subs.setdefault((node.line, show(e)[:50]), []).append(implied(st.cons, le(C(1), V(sym))))
                return self.assign(st, sym, V(sym) + C(d))
            return self.reads_in(l, st, node)
        return self.reads_in(e, st, node)

    def assign_cond(self, st, sym, rhs):
        a, b = self.lin(rhs["x"]), self.lin(rhs["y"])
        c = strip(rhs["c"])
        tmp = self.fresh()
        cons = set(st.cons)
        if a is not None and b is not None and c.get("k") == "Bin" and c["op"] in ("<", "<=", ">", ">="):
            ca, cb = self.lin(c["x"]), self.lin(c["y"])
            if ca is not None and cb is not None:
                same = (ca.key(), ca.c) == (a.key(), a.c) and (cb.key(), cb.c) == (b.key(), b.c)
                swapped = (ca.key(), ca.c) == (b.key(), b.c) and (cb.key(), cb.c) == (a.key(), a.c)
                if same or swapped:
                    is_min = (c["op"] in ("<", "<=")) == same
                    if is_min:
                        cons |= {le(V(tmp), a), le(V(tmp), b)}
                    else:
                        cons |= {le(a, V(tmp)), le(b, V(tmp))}
        elif a is not None and b is not None and not a.t and not b.t:
            cons |= {le(V(tmp), C(max(a.c, b.c))), le(C(min(a.c, b.c)), V(tmp))}
        st2 = self.forget(State(frozenset(cons), st.ne), sym)
        return self.rename(st2, tmp, sym)

    def reads_in(self, e, st, node, lvalue=False):
        if not isinstance(e, dict):
            return st
        k = e.get("k")
        if k == "Call":
            return self.call(e, st, node)
        if k == "Bin" and (e["op"] in ir.ASSIGN_OPS or e["op"] == ","):
            return self.eval(e, st, node)
        if k == "Un" and e["op"] in ("pre++", "pre--", "post++", "post--"):
            return self.eval(e, st, node)
        if k == "Index":
            po = self.ptr_offset(e["b"])
            if po is not None:
                ix = strip(e["i"])
                post = None
                if ix.get("k") == "Un" and ix["op"] in ("post++", "post--"):
                    post = ix
                    idx = self.lin(ix["e"])
                else:
                    st = self.reads_in(e["i"], st, node)
                    idx = self.lin(e["i"])
                pair, off = po
                if not lvalue:
                    self.check_read(st, pair, None if (idx is None or off is None) else off + idx, node, show(e)[:40])
                if post is not None:
                    st = self.eval(post, st, node)
                return st
        if k == "Un" and e["op"] == "*":
            po = self.ptr_offset(e["e"])
            if po is not None:
                if not lvalue:
                    self.check_read(st, po[0], po[1], node, show(e)[:40])
                return st
        if k == "Un" and e["op"] == "&":
            return st
        if k == "Bin" and e["op"] in ("&&", "||"):
            st = self.reads_in(e["x"], st, node)
            inner = self.assume_quiet(e["x"], e["op"] == "&&", st, node)
            if inner is not None and not inner.bottom():
                self.reads_in(e["y"], inner, node)
            return st
        if k == "Cond":
            st = self.reads_in(e["c"], st, node)
            for pol, arm in ((True, e["x"]), (False, e["y"])):
                inner = self.assume_quiet(e["c"], pol, st, node)
                if inner is not None and not inner.bottom():
                    self.reads_in(arm, inner, node)
            return st
        for c in ir.kids(e):
            st = self.reads_in(c, st, node)
        return st

    def assume_quiet(self, c, pol, st, node):
        """refine by condition c == pol without recording its reads again"""
        rec = self.record
        self.record = False
        try:
            c = strip(c)
            if c.get("k") == "Un" and c["op"] == "!":
                return self.assume_quiet(c["e"], not pol, st, node)
            if c.get("k") == "Bin" and c["op"] == "&&":
                if pol:
                    a = self.assume_quiet(c["x"], True, st, node)
                    return None if a is None else self.assume_quiet(c["y"], True, a, node)
                return st
            if c.get("k") == "Bin" and c["op"] == "||":
                if not pol:
                    a = self.assume_quiet(c["x"], False, st, node)
                    return None if a is None else self.assume_quiet(c["y"], False, a, node)
                return st
            return self.assume(c, pol, st, node)
        finally:
            self.record = rec

    def call(self, c, st, node, result=None):
        cn = c.get("callee")
        if cn == "utilAssert":
            return st
        for a in c["a"]:
            if self.ptr_offset(a) is None and strip(a).get("k") not in ("Ref", "Int", "Str"):
                st = self.reads_in(a, st, node)
        proto = self.prog.proto(cn, self.f.unit) if cn else None
        kinds = self.contracts.get(cn, set())
        bound = None
        region = None
        if proto is not None and cn not in NOT_READERS:
            ps = proto.params
            for i, a in enumerate(c["a"]):
                po = self.ptr_offset(a)
                if po is None or i >= len(ps) or not ps[i].get("pc"):
                    continue
                pair, off = po
                if i + 1 < len(ps) and ps[i + 1]["t"] == "size_t" and i + 1 < len(c["a"]):
                    ln = self.lin(c["a"][i + 1])
                    self.check_len(st, pair, off, ln, node, "%s(%s, %s)" % (cn, show(a)[:20], show(c["a"][i + 1])[:20]))
                    if ln is not None and off is not None:
                        g = self.fresh("%s:%d:len" % (c.get("l"), i))
                        st = self.forget(st, g)
                        st = State(st.cons | {le(V(g), ln), le(ln, V(g))}, st.ne)
                        bound = V(g)
                        # region contract: *val points into [a, a + result) ...
                        if "region" in kinds:
                            gk = self.fresh("%s:%d:off" % (c.get("l"), i))
                            st = self.forget(st, gk)
                            st = State(st.cons | {le(V(gk), V(pair.K) + off), le(V(pair.K) + off, V(gk))}, st.ne)
                            region = (pair, V(gk), V(g))
        # out-parameters
        outs = []
        for i, a in enumerate(c["a"]):
            sa = strip(a)
            if sa.get("k") == "Un" and sa["op"] == "&" and strip(sa["e"]).get("k") == "Ref":
                r = strip(sa["e"])
                outs.append((i, r))
            elif sa.get("k") == "Ref" and sa.get("p") and not sa.get("pc") and sa["id"] not in self.pairs and \
                    (sa.get("t") or "").replace(" ", "") in ("size_t*", "u32*"):
                st = self.forget(st, "D:%d" % sa["id"])
                outs.append((i, None))
        # member symbols rooted at objects passed non-const are clobbered
        for a in c["a"]:
            sa = strip(a)
            if sa.get("p") and not sa.get("pc"):
                r = ir.root_ref(sa)
                if r is not None:
                    st = self.forget_prefix(st, "m:%s->" % r["n"])
                    st = self.forget_prefix(st, "m:%s." % r["n"])
        val_ref = len_ref = None
        if proto is not None:
            for i, r in outs:
                if r is None or i >= len(proto.params):
                    continue
                pt = (proto.params[i].get("ct") or "")
                if r["id"] in self.pairs and pt.count("*") >= 2:
                    val_ref = r
                elif pt.count("*") >= 2 and r.get("p"):
                    val_ref = r
                else:
                    if proto.params[i]["n"] in ("len", "count") and r.get("t") == "size_t":
                        len_ref = r
                    st = self.forget(st, self.sym(r)) if not r.get("p") else st
        else:
            for i, r in outs:
                if r is not None and not r.get("p"):
                    st = self.forget(st, self.sym(r))
        len_lin = None
        if proto is not None and len_ref is None and "region" in kinds:
            for i, p_ in enumerate(proto.params):
                if p_["n"] == "len" and p_["t"] == "size_t" and i < len(c["a"]):
                    len_lin = self.lin(c["a"][i])
                    if len_lin is not None:
                        g2 = self.fresh("%s:%d:vlen" % (c.get("l"), i))
                        st = self.forget(st, g2)
                        st = State(st.cons | {le(V(g2), len_lin), le(len_lin, V(g2))}, st.ne)
                        len_lin = V(g2)
        if result is not None:
            rs = strip(result)
            tl = self.lin(rs) if not rs.get("p") else None
            if tl is not None and len(tl.t) == 1:
                sym = list(tl.t)[0]
                st = self.forget(st, sym)
                if rs.get("k") == "Ref":
                    if ("consumed" in kinds or "region" in kinds) and bound is not None:
                        self.pending[rs["id"]] = (bound, region, val_ref, len_ref if len_ref is not None else len_lin)
                    else:
                        self.pending.pop(rs["id"], None)
        elif ("consumed" in kinds or "region" in kinds):
            pass
        return st

    def on_valid(self, st, vid):
        """result variable vid was compared unequal to SIZE_MAX"""
        if vid not in self.pending:
            return st
        bound, region, val_ref, len_ref = self.pending[vid]
        st = self.add(st, V("v%d" % vid), "<=", bound)
        if region is not None and val_ref is not None:
            pair, start, avail = region
            # *val = start + t, with t + *len <= result <= avail: the value region is [K', K' + len) inside the old one
            newp = self.pairs.get(val_ref["id"])
            if newp is None:
                newp = Pair(val_ref["n"], val_ref["id"])
                self.pairs[val_ref["id"]] = newp
            st = self.forget_prefix(st, "B:%s[" % newp.name)
            st = self.forget(st, newp.K)
            st = self.forget(st, newp.c0)
            ln = None
            if isinstance(len_ref, Lin):
                ln = len_ref
            elif len_ref is not None:
                ln = V(self.sym(len_ref))
            cons = set(st.cons)
            cons |= {le(V(newp.K), C(0)), le(C(0), V(newp.K))}
            if ln is not None:
                cons |= {le(V(newp.c0), ln), le(ln, V(newp.c0))}
                cons.add(le(ln, V("v%d" % vid)))
            st = State(frozenset(cons), st.ne)
        return st

    # ---- conditions
    def assume(self, c, pol, st, node):
        c = strip(c)
        k = c.get("k")
        if k == "Bin" and c["op"] in ("==", "!=", "<", "<=", ">", ">="):
            x, y = strip(c["x"]), strip(c["y"])
            op = c["op"]
            if not pol:
                op = {"==": "!=", "!=": "==", "<": ">=", "<=": ">", ">": "<=", ">=": "<"}[op]
            if x.get("k") == "Bin" and x["op"] == "=":
                st = self.eval(x, st, node)
                x = strip(x["x"])
            else:
                st = self.reads_in(x, st, node)
            st = self.reads_in(y, st, node)
            for a, b in ((x, y), (y, x)):
                if int_val(b) == SIZE_MAX and a.get("k") == "Ref":
                    if op == "!=":
                        return self.on_valid(st, a["id"])
                    return st
            lx, ly = self.lin(x), self.lin(y)
            if lx is not None and ly is not None:
                return self.add(st, lx, op, ly)
            return st
        st = self.reads_in(c, st, node)
        if k in ("Ref", "Member", "Index") and not c.get("p"):
            lx = self.lin(c)
            if lx is not None:
                return self.add(st, lx, "!=" if pol else "==", C(0))
        return st

    # ---- fixpoint
    def join(self, a, b):
        keep = set()
        for c in a.cons:
            if c in b.cons or implied(b.cons, c):
                keep.add(c)
        for c in b.cons:
            if c in a.cons or implied(a.cons, c):
                keep.add(c)
        # template constraints valid on both sides: x - y <= k (k in -1, 0) and interval hulls
        syms = set()
        for k, _ in a.cons | b.cons:
            for s_, _v in k:
                if not s_.startswith(("t", "B:")):
                    syms.add(s_)
        syms = sorted(syms)
        if len(syms) <= 14:
            for x in syms:
                for y in syms:
                    if x == y:
                        continue
                    for kk in (-1, 0):
                        c = (tuple(sorted(((x, 1), (y, -1)))), kk)
                        if c in keep:
                            break
                        if implied(a.cons, c) and implied(b.cons, c):
                            keep.add(c)
                            break
        def bounds(st, sign):
            out = {}
            for k, bd in st.cons:
                if len(k) == 1 and k[0][1] == sign:
                    out[k[0][0]] = min(out.get(k[0][0], bd), bd)
            return out
        for sign in (1, -1):
            ba, bb = bounds(a, sign), bounds(b, sign)
            for x in set(ba) & set(bb):
                keep.add((((x, sign),), max(ba[x], bb[x])))
        return State(frozenset(keep), a.ne & b.ne)

    def widen(self, old, new):
        keep = {c for c in old.cons if c in new.cons or implied(new.cons, c)}
        return State(frozenset(keep), old.ne & new.ne)

    def run(self):
        cfg = self.f.cfg()
        init = set()
        for p in list(self.pairs.values()):
            cs = V("v%d" % p.cnt_id)
            init |= {le(V(p.K), C(0)), le(C(0), V(p.K)), le(cs, V(p.c0)), le(V(p.c0), cs), le(cs, V(p.E0)), le(V(p.E0), cs)}
        states = {cfg.entry.id: [State(frozenset(init))]}
        collapsed = set()
        visits = {}
        work = deque([cfg.entry.id])
        inq = {cfg.entry.id}
        steps = 0
        while work:
            nid = work.popleft()
            inq.discard(nid)
            steps += 1
            if steps > 6000:
                raise ir.AnalysisBroken("decoder-bounds analysis does not converge in %s" % self.f.name)
            node = cfg.nodes[nid]
            for st in list(states[nid]):
                outs = []
                kind = node.kind
                if kind in ("entry", "nop"):
                    outs = [(s, st) for _, s in node.succ]
                elif kind == "eval":
                    st2 = self.eval(node.e, st, node)
                    outs = [(s, st2) for _, s in node.succ]
                elif kind == "decl":
                    d = node.e
                    st2 = st
                    if d.get("init") is not None:
                        asg = {"k": "Bin", "op": "=", "l": d.get("l"),
                               "x": {"k": "Ref", "n": d["n"], "id": d["id"], "rk": "local", "p": d.get("p"), "t": d.get("t"),
                                     "pc": d.get("pc")},
                               "y": d["init"]}
                        st2 = self.eval(asg, st, node)
                    outs = [(s, st2) for _, s in node.succ]
                elif kind == "cond":
                    for lab, s in node.succ:
                        st2 = self.assume(node.e, lab, st, node)
                        if not st2.bottom():
                            outs.append((s, st2))
                elif kind == "switch":
                    st1 = self.reads_in(node.e, st, node)
                    lx = self.lin(node.e)
                    for lab, s in node.succ:
                        st2 = st1
                        if lab != "default" and lx is not None and lab[1] is not None:
                            st2 = self.add(st1, lx, "==", C(lab[1]))
                        elif lab == "default" and lx is not None:
                            for l2, _ in node.succ:
                                if l2 != "default" and l2[1] is not None:
                                    st2 = self.add(st2, lx, "!=", C(l2[1]))
                        if not st2.bottom():
                            outs.append((s, st2))
                elif kind == "return":
                    st2 = st
                    if node.e is not None:
                        st2 = self.reads_in(node.e, st, node)
                        self.check_return(node.e, st2, node)
                    outs = [(s, st2) for _, s in node.succ]
                for s, st2 in outs:
                    cur = states.setdefault(s.id, [])
                    if any(x.key() == st2.key() or leq_state(st2, x) for x in cur):
                        continue
                    visits[s.id] = visits.get(s.id, 0) + 1
                    if s.id in collapsed or len(cur) >= CAP or visits[s.id] > 12:
                        collapsed.add(s.id)
                        base = cur[0]
                        for x in cur[1:]:
                            base = self.join(base, x)
                        new = self.widen(base, st2) if visits[s.id] > 16 else self.join(base, st2)
                        if len(cur) == 1 and new.key() == cur[0].key():
                            continue
                        states[s.id] = [new]
                    else:
                        cur.append(st2)
                    if s.id not in inq:
                        inq.add(s.id)
                        work.append(s.id)
        # final pass: evaluate the checks once on the fixpoint states
        self.record = True
        for nid, sts in states.items():
            node = cfg.nodes[nid]
            for st in sts:
                if node.kind == "eval":
                    self.eval(node.e, st, node)
                elif node.kind == "decl" and node.e.get("init") is not None:
                    d = node.e
                    self.eval({"k": "Bin", "op": "=", "l": d.get("l"),
                               "x": {"k": "Ref", "n": d["n"], "id": d["id"], "rk": "local", "p": d.get("p"), "t": d.get("t"),
                                     "pc": d.get("pc")}, "y": d["init"]}, st, node)
                elif node.kind == "cond":
                    self.assume(node.e, True, st, node)
                elif node.kind == "switch":
                    self.reads_in(node.e, st, node)
                elif node.kind == "return" and node.e is not None:
                    st2 = self.reads_in(node.e, st, node)
                    self.check_return(node.e, st2, node)
        self.record = False
        return states

    def check_return(self, e, st, node):
        if not self.record:
            return
        es = strip(e)
        prim = [p for p in self.entry_pairs if p.cnt_id is not None]
        if not prim or self.f.ret.get("t") != "size_t":
            return
        pair = prim[0]
        if int_val(es) == SIZE_MAX:
            self.rets.setdefault((node.line, "SIZE_MAX"), []).append((True, "error"))
            return
        if (es.get("t") == "bool_t") or (es.get("k") == "Int" and es.get("m") in ("FALSE", "TRUE")):
            self.rets.setdefault((node.line, show(e)[:40]), []).append((False, "bool"))
            return
        if es.get("k") == "Call" and "consumed" in self.contracts.get(es.get("callee"), set()):
            self.rets.setdefault((node.line, show(e)[:40]), []).append((True, "delegated"))
            return
        if es.get("k") == "Ref" and es["id"] in self.pending:
            # a callee result returned as is: SIZE_MAX or bounded by what the callee was given
            bound = self.pending[es["id"]][0]
            ok = implied(st.cons, le(V("v%d" % es["id"]), V(pair.E0))) or implied(st.cons, le(bound, V(pair.E0)))
            self.rets.setdefault((node.line, show(e)[:40]), []).append((ok, "propagated"))
            return
        lin = self.lin(e)
        ok = lin is not None and implied(st.cons, le(lin, V(pair.E0)))
        self.rets.setdefault((node.line, show(e)[:40]), []).append((ok, "consumed"))
