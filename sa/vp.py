"""VP: validation-presence engine (client of the path engine).

Along every path it keeps a set of *facts* established by accepted/rejected
conditions and by producers, keyed by canonical memory names, and lets rules
ask at sinks (calls, success returns) whether the required facts hold.

fact kinds (tuples):
  ("T"|"F", callstr)          atomic condition `callee(args)` assumed true / false
  ("cmp", pol, str)           other atomic condition, canonical text
  ("lt", X, M) ("ge", X, M)   X < M / X >= M (multi-word numbers)
  ("nz", X)                   X != 0
  ("field", X)                qrFrom(X, ..) accepted (X reduced modulo the field)
  ("oncurve", P)              ecpIsOnA / ec2IsOnA accepted
  ("ext", X)                  X was loaded from octets by qrFrom/wwFrom/memCopy (caller-controlled)
  ("ok", callstr)             err_t call whose result was assumed ERR_OK
  ("bad", callstr)            ... assumed != ERR_OK
"""
import re
from . import ir
from .ir import strip, show, walk, root_ref, is_int, int_val


# --------------------------------------------------------------------------
# canonical names

def single_assign_syms(func):
    """pointer locals assigned exactly once (flow-insensitively) -> defining expression"""
    counts, defs = {}, {}
    for n in walk(func.body):
        k = n.get("k")
        if k == "Decl" and n.get("init") is not None:
            counts[n["id"]] = counts.get(n["id"], 0) + 1
            defs[n["id"]] = n["init"]
        elif k == "Bin" and n["op"] in ir.ASSIGN_OPS:
            l = strip(n["x"])
            if l.get("k") == "Ref" and l.get("rk") == "local":
                counts[l["id"]] = counts.get(l["id"], 0) + (1 if n["op"] == "=" else 2)
                defs[l["id"]] = n["y"]
        elif k == "Un" and n["op"] in ("pre++", "pre--", "post++", "post--"):
            l = strip(n["e"])
            if l.get("k") == "Ref":
                counts[l["id"]] = counts.get(l["id"], 0) + 2
        elif k == "Un" and n["op"] == "&":
            l = strip(n["e"])
            if l.get("k") == "Ref":
                counts[l["id"]] = counts.get(l["id"], 0) + 2
    return {i: defs[i] for i, c in counts.items() if c == 1}


class Canon:
    def __init__(self, func):
        self.syms = single_assign_syms(func)
        self.cache = {}
        self.depth = 0

    def __call__(self, e):
        e = strip(e)
        if not isinstance(e, dict):
            return "?"
        k = e.get("k")
        if k == "Int":
            return str(e.get("v"))
        if k == "Ref":
            if e.get("rk") == "local" and e.get("p") and e["id"] in self.syms:
                if e["id"] in self.cache:
                    return self.cache[e["id"]]
                if self.depth > 20:
                    return e["n"]
                self.depth += 1
                # chained assignment d = s1 = X : value is X
                d = strip(self.syms[e["id"]])
                while d.get("k") == "Bin" and d["op"] == "=":
                    d = strip(d["y"])
                if d.get("k") in ("Call", "Cond", "Int"):
                    # allocation results, selected pointers, constants: the variable's own name is the canonical one
                    self.depth -= 1
                    self.cache[e["id"]] = e["n"]
                    return e["n"]
                r = self(d)
                self.depth -= 1
                self.cache[e["id"]] = r
                return r
            return e["n"]
        if k == "Member":
            return "%s%s%s" % (self(e["b"]), "->" if e.get("arrow") else ".", e["f"])
        if k == "Index":
            return "%s[%s]" % (self(e["b"]), self(e["i"]))
        if k == "Un":
            if e["op"] == "&" and strip(e["e"]).get("k") == "Index" and is_int(strip(e["e"])["i"], 0):
                return self(strip(e["e"])["b"])
            return "%s%s" % (e["op"], self(e["e"]))
        if k == "Bin":
            if e["op"] == "=":
                return self(e["y"])
            a, b = self(e["x"]), self(e["y"])
            if e["op"] == "+":
                if b == "0":
                    return a
                return "%s+%s" % (a, b)
            return "(%s%s%s)" % (a, e["op"], b)
        if k == "Call":
            return "%s(%s)" % (e.get("callee") or "(*%s)" % self(e.get("fn")), ",".join(self(a) for a in e["a"]))
        if k == "Cond":
            return "(%s?%s:%s)" % (self(e["c"]), self(e["x"]), self(e["y"]))
        if k == "Str":
            return '"%s"' % (e.get("v") or "")
        return "<%s>" % k


# producers: callee -> (dest arg index, modulus arg index)
def modulus_index(proto):
    if proto is None:
        return None
    for i, p in enumerate(proto.params):
        if p["n"] == "mod":
            return i
    return None


class FactClient(ir.Client):
    """Generic fact collector.  Subclasses / users register sink callbacks:
         on_call(call, facts, node, client)   for every call evaluated
         on_return(e, retclass, facts, node, client)"""

    def __init__(self, func, prog, on_call=None, on_return=None, track_generic=True):
        self.func, self.prog = func, prog
        self.canon = Canon(func)
        self.on_call = on_call
        self.on_return = on_return
        self.track_generic = track_generic

    def init(self, func):
        return (frozenset(), (), frozenset())

    hist_kinds = ("T", "F", "ok", "bad", "field", "oncurve", "lt", "ltc", "nz", "cmp")

    # ---- helpers
    def callstr(self, c):
        return "%s(%s)" % (c.get("callee") or "(*%s)" % self.canon(c.get("fn")), ",".join(self.canon(a) for a in c["a"]))

    @staticmethod
    def _drop_subject(facts, name):
        """forget what was known about the memory called `name`"""
        out = set()
        for f in facts:
            k = f[0]
            if k in ("lt", "ltc", "ge", "nz", "field", "oncurve", "ext", "priv") and f[1] == name:
                continue
            if k in ("T", "F") and re.match(r"[\w>*().-]*?\(%s[,)]" % re.escape(name), f[1]) and \
                    f[1].split("(", 1)[1].startswith(name):
                continue       # a test whose first argument (the tested object) has been overwritten
            out.add(f)
        return out

    def eval(self, e, st, env, node):
        facts, pend, hist = st
        facts = set(facts)
        pend = dict(pend)
        # calls, innermost first would be ideal; pre-order is adequate for statement-level calls
        cs = [n for n in walk(e) if n.get("k") == "Call" and n.get("callee") != "utilAssert"]
        in_assert = set()
        for n in walk(e):
            if n.get("k") == "Call" and n.get("callee") == "utilAssert":
                for m in walk(n):
                    in_assert.add(id(m))
        for c in reversed(cs):
            if id(c) in in_assert:
                continue
            cn = c.get("callee")
            proto = self.prog.proto(cn, self.func.unit) if cn else None
            if self.on_call:
                self.on_call(c, frozenset(facts), node, self)
            # writes: arguments in non-const pointer positions
            args = c["a"]
            names = [self.canon(a) for a in args]
            written = []
            for i, a in enumerate(args):
                sa = strip(a)
                if not (sa.get("p") or sa.get("k") in ("Ref",) and sa.get("p")):
                    continue
                writable = True
                if proto is not None and i < len(proto.params):
                    writable = bool(proto.params[i].get("p")) and not proto.params[i].get("pc")
                elif proto is not None and proto.variadic:
                    writable = False
                elif c.get("indirect"):
                    writable = (i == 0) or (i == len(args) - 1)     # result and scratch stack
                if writable:
                    written.append(i)
            pre_facts = frozenset(facts)
            for i in written:
                facts = self._drop_subject(facts, names[i])
            # producers
            if cn:
                mi = modulus_index(proto)
                if mi is not None and mi < len(args) and re.match(r"zz\w*Mod$|zzMod$|zzRed\w*", cn) and written:
                    facts.add(("lt", names[0], names[mi]))
                if cn == "zzMod" and len(args) >= 5:
                    facts.add(("lt", names[0], names[3]))
                if cn in ("zzSub2",) and len(args) == 3 and ("ge", names[0], names[1]) in pre_facts:
                    # conditional subtraction x >= m -> x -= m (x < 2m by the length of x): x < m afterwards
                    facts.add(("lt", names[0], names[1]))
                if cn in ("qrFrom",) and len(args) >= 3:
                    facts.add(("ext", names[0]))
                if cn in ("wwFrom", "memCopy", "memMove", "u32From", "u64From") and len(args) >= 2:
                    facts.add(("ext", names[0]))
                    facts = {x for x in facts if not (x[0] == "from" and x[1] == names[0])}
                    facts.add(("from", names[0], names[1]))
                if cn == "wwTrimHi" and len(args) == 3:
                    # x trimmed to (bit size of M) - 1 bits is < M
                    b = strip(args[2])
                    if b.get("k") == "Bin" and b["op"] == "-" and is_int(b["y"], 1) and strip(b["x"]).get("k") == "Ref":
                        d = self.canon.syms.get(strip(b["x"])["id"])
                        if d is not None and ir.is_call(d, "wwBitSize"):
                            facts.add(("lt", names[0], self.canon(strip(d)["a"][0])))
            # field operations through the ring descriptor: qrMul(dest, .., r, stack) leaves dest < r->mod
            if c.get("indirect") == "qr_o" and cn in ("qrAdd", "qrSub", "qrNeg", "qrMul", "qrSqr", "qrInv", "qrDiv") and args:
                fn = strip(c["fn"])
                if fn.get("k") == "Un" and fn["op"] == "*":
                    fn = strip(fn["e"])
                base = self.canon(fn["b"])
                facts = self._drop_subject(facts, names[0])
                facts.add(("lt", names[0], base + "->mod"))
        # x[k] = <non-zero constant>: the multi-word value x is non-zero (the `e == 0 => e <- 1` idiom)
        for n in walk(e):
            if n.get("k") == "Bin" and n["op"] == "=" and strip(n["x"]).get("k") == "Index" and int_val(n["y"]) not in (None, 0):
                facts.add(("nz", self.canon(strip(n["x"])["b"])))
        # stores to plain members / variables invalidate flag facts about them
        for n in walk(e):
            if (n.get("k") == "Bin" and n["op"] in ir.ASSIGN_OPS) or (n.get("k") == "Un" and n["op"] in ("pre++", "pre--", "post++", "post--")):
                tgt = self.canon(n["x"] if n.get("k") == "Bin" else n["e"])
                facts = {x for x in facts if not (x[0] == "cmp" and x[2] == tgt)}
        # assignments of err_t call results
        for l, rhs, op in ir.assigned_vars(e):
            if l["id"] in pend:
                del pend[l["id"]]
            if op == "=" and rhs is not None and ir.is_call(rhs) and l.get("t") in ("err_t", "bool_t", "size_t", "int"):
                pend[l["id"]] = (self.callstr(strip(rhs)), l.get("t"))
            elif op == "=" and rhs is not None and strip(rhs).get("k") == "Cond":
                # code = f(..) ? ERR_OK : ERR_X
                cnd = strip(rhs)
                if ir.is_call(cnd["c"]) and is_int(cnd["x"], 0) and int_val(cnd["y"]) not in (None, 0):
                    pend[l["id"]] = ("?T:" + self.callstr(strip(cnd["c"])), "err_t")
        facts = frozenset(facts)
        return (facts, tuple(sorted(pend.items())), hist | {x for x in facts if x[0] in self.hist_kinds})

    def assume(self, c, pol, st, env, node):
        facts, pend, hist = st
        facts = set(facts)
        c = strip(c)
        k = c.get("k")
        if k == "Call":
            cs = self.callstr(c)
            facts.add(("T" if pol else "F", cs))
            cn = c.get("callee")
            names = [self.canon(a) for a in c["a"]]
            if cn == "qrFrom" and pol:
                facts.add(("field", names[0]))
                facts.add(("lt", names[0], names[2] + "->mod"))
            if cn in ("ecpIsOnA", "ec2IsOnA") and pol:
                facts.add(("oncurve", names[0]))
            if cn in ("wwIsZero",) and not pol:
                facts.add(("nz", names[0]))
            if cn in ("zzRandNZMod", "zzRandMod") and pol:
                facts.add(("lt", names[0], names[1]))
                if cn == "zzRandNZMod":
                    facts.add(("nz", names[0]))
        elif k == "Bin" and c["op"] in ("==", "!=", "<", "<=", ">", ">="):
            x, y = strip(c["x"]), strip(c["y"])
            op = c["op"]
            if ir.is_call(x, ("wwCmp", "wwCmp2", "memCmp")) and is_int(y, 0):
                names = [self.canon(a) for a in x["a"]]
                rel = None     # relation X ? M that holds
                truth = {"<": ("lt", "ge"), ">=": ("ge", "lt"), ">": ("gt", "le"), "<=": ("le", "gt"),
                         "==": ("eq", "ne"), "!=": ("ne", "eq")}[op]
                rel = truth[0] if pol else truth[1]
                if rel in ("lt", "ge"):
                    facts.add((rel, names[0], names[1]))
                    if rel == "lt":
                        facts.add(("ltc", names[0], names[1]))    # established by an explicit comparison
                elif rel == "gt":
                    facts.add(("ge", names[0], names[1]))
                elif rel == "le":
                    pass
            if ir.is_call(x) and y.get("k") == "Int":
                facts.add(("cmp", pol, "%s%s%s" % (self.callstr(x), op, self.canon(y))))
                # f(..) == 1 style acceptance (zzJacobi(..) == 1)
                if op == "==" and pol:
                    facts.add(("T", "%s==%s" % (self.callstr(x), self.canon(y))))
                if op == "!=" and not pol:
                    facts.add(("T", "%s==%s" % (self.callstr(x), self.canon(y))))
            elif self.track_generic:
                facts.add(("cmp", pol, self.canon(c)))
        elif self.track_generic and k in ("Ref", "Member"):
            cs = self.canon(c)
            if ("cmp", not pol, cs) in facts:
                return None      # the same flag was assumed the other way earlier on this path (nothing wrote it since)
            facts.add(("cmp", pol, cs))
        # result variable compared with a constant: t = f(..); if (t == SIZE_MAX) ..
        if k == "Bin" and c["op"] in ("==", "!="):
            for a, b in ((strip(c["x"]), strip(c["y"])), (strip(c["y"]), strip(c["x"]))):
                if a.get("k") == "Bin" and a["op"] == "=":
                    a = strip(a["x"])
                if a.get("k") == "Ref" and b.get("k") == "Int":
                    for vid, (cs, t) in pend:
                        if vid == a["id"] and t == "size_t":
                            eq = pol if c["op"] == "==" else not pol
                            facts.add(("cmp", eq, "%s==%s" % (cs, self.canon(b))))
        # provenance of err_t / bool variables
        env2 = ir.refine(c, pol, env)
        for vid, (cs, t) in pend:
            v = env2.get(vid)
            if v is ir.TOP:
                continue
            if cs.startswith("?T:"):
                if v == ("c", 0):
                    facts.add(("T", cs[3:]))
                else:
                    facts.add(("F", cs[3:]))
                continue
            if t == "err_t":
                facts.add(("ok", cs) if v == ("c", 0) else ("bad", cs))
            elif t == "size_t" and v[0] == "c":
                facts.add(("cmp", True, "%s==%s" % (cs, v[1])))
            elif t == "bool_t":
                facts.add(("T", cs) if v != ("c", 0) else ("F", cs))
        facts = frozenset(facts)
        return (facts, pend, hist | {x for x in facts if x[0] in self.hist_kinds})

    post_nonzero = {}

    def env_refine(self, c, pol, st, env_before, env):
        """t = f(obj, ..); if (t == SIZE_MAX) return ..;  on the accepting side the fields that f's successful returns
        leave non-zero (post_nonzero: callee -> [(argument index, "->field")], derived by the decoder analysis) are
        non-zero in the caller's object"""
        if not self.post_nonzero:
            return env
        facts, pend, hist = st
        c = strip(c)
        if not (c.get("k") == "Bin" and c["op"] in ("==", "!=")):
            return env
        for a, b in ((strip(c["x"]), strip(c["y"])), (strip(c["y"]), strip(c["x"]))):
            if a.get("k") == "Ref" and ir.int_val(b) == (1 << 64) - 1:
                ok = (not pol) if c["op"] == "==" else pol
                if not ok:
                    continue
                for vid, (cs, t) in pend:
                    if vid != a["id"] or t != "size_t":
                        continue
                    cn = cs.split("(", 1)[0]
                    args = cs[len(cn) + 1:-1].split(",")
                    for i, suffix in self.post_nonzero.get(cn, ()):
                        if i < len(args) and re.match(r"^\w+$", args[i]):
                            env = env.set("m:%s%s" % (args[i], suffix), ("nz",))
        return env

    def ret(self, e, st, env, node):
        facts, pend, hist = st
        if self.on_return:
            facts = set(facts) | set(hist)
            rv = ir.eval_abs(e, env) if e is not None else "void"
            if rv == "void":
                rc = "void"
            elif rv is ir.TOP:
                rc = "unknown"
                # return code; where code holds a pending call result: both outcomes possible
                r = strip(e)
                # return f(..) directly / return cond ? OK : ERR
                if r.get("k") == "Cond" and ir.is_call(r["c"]) and is_int(r["x"], 0):
                    rc = "cond-call"
            elif rv == ("c", 0):
                rc = "zero"
            else:
                rc = "nonzero"
            self.on_return(e, rc, frozenset(facts), node, self, dict(pend), env)
        return st


def run_facts(func, prog, on_call=None, on_return=None, track_generic=True, max_states=400000, post_nonzero=None):
    cl = FactClient(func, prog, on_call, on_return, track_generic)
    cl.post_nonzero = post_nonzero or {}
    res = ir.run_paths(func, cl, max_states=max_states)
    if res.truncated:
        raise ir.AnalysisBroken("validation-presence: state space truncated in %s" % func.name)
    return cl, res
