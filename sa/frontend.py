"""Front end: runs tools/bin/astdump over every unit of /repo/src (unit list from
src/CMakeLists.txt) for a named configuration and loads the JSON IR.

Nothing here executes bee2 code; clang only parses and type-checks.
"""
import json, os, re, subprocess, sys, hashlib, shutil
from concurrent.futures import ThreadPoolExecutor

VERIF = os.path.dirname(os.path.dirname(os.path.abspath(__file__)))
REPO = os.environ.get("BEE2_REPO", "/repo")
WORK = os.environ.get("VERIF_WORK") or os.path.join(VERIF, ".work")
ASTDUMP = os.path.join(VERIF, "tools", "bin", "astdump")

BASE_FLAGS = ["-std=gnu11", "-I%s/include" % REPO, "-I%s/src" % REPO, "-UNDEBUG"]

# configuration name -> extra flags
CONFIGS = {
    "w64": [],
    "w32": ["-U__SIZEOF_INT128__"],
    "w64fast": ["-DSAFE_FAST"],
    "w32fast": ["-U__SIZEOF_INT128__", "-DSAFE_FAST"],
    "w64ndebug": ["-DNDEBUG"],
}


class AnalysisBroken(Exception):
    """exit code 2: the analysis itself cannot be trusted on this tree"""


def resource_dir():
    return subprocess.check_output(["clang", "-print-resource-dir"], text=True).strip()


def unit_list():
    path = os.path.join(REPO, "src", "CMakeLists.txt")
    try:
        txt = open(path).read()
    except OSError as e:
        raise AnalysisBroken("cannot read %s: %s" % (path, e))
    m = re.search(r"set\(src\s+(.*?)\)", txt, re.S)
    if not m:
        raise AnalysisBroken("no set(src ...) in src/CMakeLists.txt")
    units = [u for u in m.group(1).split() if u.endswith(".c")]
    if len(units) < 80:
        raise AnalysisBroken("only %d units listed in src/CMakeLists.txt (floor 80)" % len(units))
    return [os.path.join(REPO, "src", u) for u in units]


def _dump_one(args):
    src, out, flags = args
    root = REPO if os.path.abspath(src).startswith(os.path.abspath(REPO) + os.sep) else os.path.dirname(os.path.abspath(src))
    cmd = [ASTDUMP, src, "-o", out, "--root", root, "--"] + flags
    p = subprocess.run(cmd, stdout=subprocess.PIPE, stderr=subprocess.PIPE, text=True)
    if p.returncode != 0 or not os.path.exists(out):
        return (src, p.stderr[-2000:])
    return None


def dump_units(config="w64", units=None, extra_flags=None, tag=None):
    """Returns {unit_path: json_path}.  Always re-dumps (0.1 s per unit)."""
    if not os.path.exists(ASTDUMP):
        raise AnalysisBroken("tools/bin/astdump missing: run `make -C /verif/tools`")
    flags = BASE_FLAGS + CONFIGS[config] + (extra_flags or []) + ["-resource-dir", resource_dir()]
    if units is None:
        units = unit_list()
    outdir = os.path.join(WORK, "ast", tag or config)
    if os.path.isdir(outdir):
        shutil.rmtree(outdir)
    os.makedirs(outdir, exist_ok=True)
    jobs = []
    res = {}
    for u in units:
        name = os.path.relpath(u, REPO).replace("/", "__") + ".json"
        out = os.path.join(outdir, name)
        jobs.append((u, out, flags))
        res[u] = out
    with ThreadPoolExecutor(max_workers=16) as ex:
        errs = [e for e in ex.map(_dump_one, jobs) if e]
    if errs:
        raise AnalysisBroken("parse failure in %d unit(s): %s\n%s" % (len(errs), errs[0][0], errs[0][1]))
    return res


def load_json(path):
    with open(path) as f:
        return json.load(f)
