"""Frozen-conjunction rule: for a validator, the multiset of sub-checks (callee + literal arguments + polarity) that
is accepted on the path to *every* success return.  Listing mode produces the table; check mode demands that every
frozen sub-check is still required."""
import re, json, os
from . import ir, vp
from .ir import strip, AnalysisBroken

IGNORE = re.compile(r"^(T|F):(memIs|utilAssert|objIsOperable2?$)|^cmp")


def signature(x, facts=()):
    k = x[0]
    if k in ("T", "F", "ok", "bad"):
        s = x[1]
        callee = s.split("(")[0]
        ints = re.findall(r"[(,](\d+)(?=[,)])", s)
        tail = re.search(r"\)(==[-\w]+)$", s)
        return "%s:%s%s%s" % (k, callee, ("#" + ",".join(ints)) if ints else "", tail.group(1) if tail else "")
    if k == "ltc" and len(x) > 2:
        # a range test accepted against a named bound: keep the bound's last identifier (order, mod, q ..), so that
        # `d < q` cannot be replaced by `d < p`
        bound = str(x[2])
        for y in facts:
            if y[0] == "from" and y[1] == bound:      # a scratch copy loaded from a named source (wwFrom(Q, params->q, no))
                bound = str(y[2])
                break
        m = re.search(r"(\w+)\W*$", bound)
        return "ltc@%s" % (m.group(1) if m else "?")
    if k in ("nz", "ltc", "field", "oncurve"):
        return k
    return None


def _conj(e):
    e = strip(e)
    if e.get("k") == "Bin" and e["op"] == "&&":
        return _conj(e["x"]) + _conj(e["y"])
    return [e]


def success_requirements(prog, fname, success=None):
    """intersection over success return states of the signature multisets; also the number of success states"""
    f = prog.funcs.get(fname)
    if f is None or f.body is None:
        raise AnalysisBroken("validator anchor %s vanished" % fname)
    rett = f.ret.get("t")
    if success is None:
        success = "zero" if rett == "err_t" else "nonzero"
    rets = []

    def on_return(e, rc, facts, node, cl, pend, env):
        rets.append((rc, facts, node.line, e, pend, cl))

    vp.run_facts(f, prog, on_return=on_return, track_generic=True)
    sets = []
    for rc, facts, line, e, pend, cl in rets:
        extra = set()
        ok = rc == success
        if rc in ("unknown", "cond-call"):
            r = strip(e) if e is not None else None
            if r is None:
                continue
            if r.get("k") == "Call":
                cs = cl.callstr(r)
                extra |= {("ok" if r.get("t") == "err_t" else "T", cs)}
                ok = True
            elif r.get("k") == "Ref" and r["id"] in pend:
                cs, t = pend[r["id"]]
                extra.add(("T", cs[3:]) if cs.startswith("?T:") else (("ok", cs) if t == "err_t" else ("T", cs)))
                ok = True
            elif r.get("k") == "Cond" and ir.is_call(r["c"]):
                extra.add(("T", cl.callstr(strip(r["c"]))))
                ok = True
            elif r.get("k") in ("Bin", "Un"):
                parts = _conj(r) if r.get("k") == "Bin" and r["op"] == "&&" else [r]
                for part in parts:
                    pp = strip(part)
                    pol = True
                    while pp.get("k") == "Un" and pp["op"] == "!":
                        pol = not pol
                        pp = strip(pp["e"])
                    if ir.is_call(pp):
                        extra.add(("T" if pol else "F", cl.callstr(pp)))
                    elif pp.get("k") == "Bin" and ir.is_call(pp["x"]) and pp["op"] in ("==",) and pol:
                        extra.add(("T", "%s==%s" % (cl.callstr(strip(pp["x"])), cl.canon(pp["y"]))))
                ok = True
            else:
                ok = True      # value unknown: it may be the success value, with nothing further established
        if not ok:
            continue
        ms = {}
        for x in set(facts) | extra:
            s = signature(x, facts)
            if s and not IGNORE.search(s):
                ms[s] = ms.get(s, 0) + 1
        sets.append(ms)
    if not sets:
        raise AnalysisBroken("%s: no success return found" % fname)
    inter = dict(sets[0])
    for ms in sets[1:]:
        for k in list(inter):
            inter[k] = min(inter[k], ms.get(k, 0))
            if inter[k] == 0:
                del inter[k]
    return inter, len(sets), f


def check_table(prog, res, rule, table):
    n = 0
    for fname, spec in sorted(table.items()):
        inter, nsucc, f = success_requirements(prog, fname, spec.get("success"))
        for sig, cnt in sorted(spec["requires"].items()):
            n += 1
            have = inter.get(sig, 0)
            if have >= cnt:
                res.proved(rule, function=fname, file=f.relfile, line=f.line, construct="requires %s x%d" % (sig, cnt),
                           detail="accepted on the path to each of the %d success return state(s)%s" %
                                  (nsucc, (" -- " + spec["why"][sig]) if sig in spec.get("why", {}) else ""))
            else:
                res.violation(rule, function=fname, file=f.relfile, line=f.line, construct="requires %s x%d" % (sig, cnt),
                              detail="%s can report success on a path where the sub-check `%s` was %s (frozen from the "
                                     "reference tree: every success used to require it%s)" %
                                     (fname, sig, "accepted only %d time(s)" % have if have else "not accepted",
                                      (": " + spec["why"][sig]) if sig in spec.get("why", {}) else ""))
    return n


def load_table(name):
    p = os.path.join(os.path.dirname(os.path.dirname(os.path.abspath(__file__))), "tables", name)
    return json.load(open(p))
