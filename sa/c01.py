"""C01: belt -- the structural clause `authenticated unwrapping accepts only what was produced under the same key`,
and the encrypt-then-MAC data flow of the AEAD wrappers.
R01.1 (unwrap): on every path to a success return of beltDWPUnwrap / beltCHEUnwrap the tag check (Step V) was accepted,
      and before it the associated data and the *received ciphertext* were absorbed (StepI(src2), StepA(src1)); the
      decryption step runs only after the accepted check, on the copy of the ciphertext.  beltKWPUnwrap succeeds only
      after the header comparison that the `header` argument selects (memEq with a given header, memIsZero only for
      header == 0), and before it the decryption step ran on the token.
R01.2 (wrap): beltDWPWrap / beltCHEWrap absorb associated data, encrypt, then authenticate the *encrypted* buffer
      (StepA on the same buffer StepE wrote) before producing the tag.
Octet-exact agreement with STB 34.101.31 and the inversion clauses are equations over values and are declined."""
import re
from . import ir, vp
from .ir import AnalysisBroken, strip
from .report import Result, COMMON_ASSUMPTIONS


class Events(ir.Client):
    """state: the ordered tuple of (callee, canonical first buffer argument) of the family's calls on the path, plus
    ('T'|'F', callee) for calls that were branched on, plus nullness facts of `header`"""

    def __init__(self, f, prefix):
        self.f, self.prefix = f, prefix
        self.canon = vp.Canon(f)
        self.success = []
        self.header = "header"

    def init(self, func):
        return ()

    def _calls(self, e, st):
        for c in ir.calls(e):
            cn = c.get("callee") or ""
            if cn.startswith(self.prefix) or cn in ("memEq", "memIsZero", "memMove", "memCopy"):
                a0 = self.canon(c["a"][0]) if c["a"] else ""
                a1 = self.canon(c["a"][1]) if len(c["a"]) > 1 else ""
                st = st + ((cn, a0, a1),)
        return st

    def eval(self, e, st, env, node):
        return self._calls(e, st)

    def assume(self, c, pol, st, env, node):
        c = strip(c)
        while c.get("k") == "Un" and c["op"] == "!":
            pol, c = not pol, strip(c["e"])
        if c.get("k") == "Call":
            cn = c.get("callee") or ""
            if cn.startswith(self.prefix) or cn in ("memEq", "memIsZero"):
                return st + (("T" if pol else "F", cn, self.canon(c["a"][0]) if c["a"] else "",
                              self.canon(c["a"][1]) if len(c["a"]) > 1 else ""),)
        if c.get("k") == "Ref" and c.get("n") == self.header:
            return st + (("hdr", "nonnull" if pol else "null", ""),)
        if c.get("k") == "Bin" and c["op"] in ("==", "!=") and strip(c["x"]).get("n") == self.header and ir.int_val(c["y"]) == 0:
            isnull = pol if c["op"] == "==" else not pol
            return st + (("hdr", "null" if isnull else "nonnull", ""),)
        return st

    def ret(self, e, st, env, node):
        v = ir.eval_abs(e, env) if e is not None else None
        if v == ("c", 0):
            self.success.append((node.line, st))
        return st


def _idx(ev, pred):
    for i, x in enumerate(ev):
        if pred(x):
            return i
    return None


def _roles(f, need):
    """the wrappers' buffers by position (dest, src1 = protected data, count1, src2 = associated data, ..): renaming a
    parameter does not change its role"""
    ptr = [p_["n"] for p_ in f.params]
    if len(ptr) < need:
        raise AnalysisBroken("%s has fewer parameters than its documented signature" % f.name)
    return ptr


def check_unwrap(prog, res, fname, p):
    f = prog.funcs.get(fname)
    if f is None or f.body is None:
        raise AnalysisBroken("%s vanished" % fname)
    names = _roles(f, 5)
    DEST, SRC1, SRC2 = names[0], names[1], names[3]
    cl = Events(f, p)
    r = ir.run_paths(f, cl)
    if r.truncated or not cl.success:
        raise AnalysisBroken("%s: no success return reached" % fname)
    obligations = [
        ("associated data absorbed (%sStepI(src2)) before the tag check" % p,
         lambda ev: _before(ev, lambda x: x[0] == p + "StepI" and x[1] == SRC2, lambda x: x[0] == "T" and x[1] == p + "StepV")),
        ("received ciphertext absorbed (%sStepA(src1)) before the tag check" % p,
         lambda ev: _before(ev, lambda x: x[0] == p + "StepA" and x[1] == SRC1, lambda x: x[0] == "T" and x[1] == p + "StepV")),
        ("tag check accepted (%sStepV)" % p, lambda ev: _idx(ev, lambda x: x[0] == "T" and x[1] == p + "StepV") is not None),
        ("decryption (%sStepD) only after the accepted tag check" % p,
         lambda ev: _before(ev, lambda x: x[0] == "T" and x[1] == p + "StepV", lambda x: x[0] == p + "StepD") and
         not _before(ev, lambda x: x[0] == p + "StepD", lambda x: x[0] == "T" and x[1] == p + "StepV")),
        ("the decrypted buffer is the copy of the ciphertext (memMove(dest, src1) then %sStepD(dest))" % p,
         lambda ev: _before(ev, lambda x: x[0] == "memMove" and x[1] == DEST and x[2] == SRC1, lambda x: x[0] == p + "StepD" and x[1] == DEST)),
    ]
    _report(res, "R01.1-unwrap-accepts-only-authenticated", f, cl, obligations)


def check_wrap(prog, res, fname, p):
    f = prog.funcs.get(fname)
    if f is None or f.body is None:
        raise AnalysisBroken("%s vanished" % fname)
    names = _roles(f, 5)
    DEST, SRC1, SRC2 = names[0], names[2], names[4]
    cl = Events(f, p)
    r = ir.run_paths(f, cl)
    if r.truncated or not cl.success:
        raise AnalysisBroken("%s: no success return reached" % fname)
    obligations = [
        ("associated data absorbed (%sStepI(src2))" % p, lambda ev: _idx(ev, lambda x: x[0] == p + "StepI" and x[1] == SRC2) is not None),
        ("encrypt then authenticate the same buffer (%sStepE(dest) before %sStepA(dest))" % (p, p),
         lambda ev: _before(ev, lambda x: x[0] == p + "StepE" and x[1] == DEST, lambda x: x[0] == p + "StepA" and x[1] == DEST)),
        ("tag produced last (%sStepG after %sStepA)" % (p, p),
         lambda ev: _before(ev, lambda x: x[0] == p + "StepA", lambda x: x[0] == p + "StepG")),
    ]
    _report(res, "R01.2-wrap-encrypt-then-authenticate", f, cl, obligations)


def check_kwp_unwrap(prog, res):
    f = prog.funcs.get("beltKWPUnwrap")
    if f is None or f.body is None or len(f.params) < 4:
        raise AnalysisBroken("beltKWPUnwrap vanished")
    cl = Events(f, "beltWBL")
    cl.header = f.params[3]["n"]        # belt.h: beltKWPStart/StepD2 are the wide-block functions
    r = ir.run_paths(f, cl)
    if r.truncated or not cl.success:
        raise AnalysisBroken("beltKWPUnwrap: no success return reached")

    hname = cl.header

    def header_ok(ev):
        # the buffer compared is the header recovered from the token: the second argument of the decryption step
        d2 = [x[2] for x in ev if x[0] == "beltWBLStepD2"]
        if not d2:
            return False
        rec = d2[0]
        given = {hname} | {x[1] for x in ev if x[0] in ("memCopy", "memMove") and x[2] == hname}
        null = any(x[0] == "hdr" and x[1] == "null" for x in ev)
        eq = any(x[0] == "T" and x[1] == "memEq" and ((x[2] == rec and x[3] in given) or (x[3] == rec and x[2] in given)) for x in ev)
        zero = any(x[0] == "T" and x[1] == "memIsZero" and x[2] == rec for x in ev)
        return zero if null else eq
    obligations = [
        ("token decrypted (beltKWPStepD2 = beltWBLStepD2) before the header comparison",
         lambda ev: _before(ev, lambda x: x[0] == "beltWBLStepD2", lambda x: x[0] in ("T", "F") and x[1] in ("memEq", "memIsZero"))),
        ("header comparison selected by the header argument accepted, on the header recovered from the token (memEq with the given header, memIsZero only for header == 0)", header_ok),
    ]
    _report(res, "R01.1-unwrap-accepts-only-authenticated", f, cl, obligations)


def _before(ev, pa, pb):
    i, j = _idx(ev, pa), _idx(ev, pb)
    return i is not None and j is not None and i < j


def _report(res, rule, f, cl, obligations):
    for label, pred in obligations:
        bad = [line for line, ev in cl.success if not pred(ev)]
        if bad:
            res.violation(rule, function=f.name, file=f.relfile, line=bad[0], construct="success without: " + label[:70],
                          detail="a success return (line %d) is reachable on a path where `%s` does not hold" % (bad[0], label))
        else:
            res.proved(rule, function=f.name, file=f.relfile, line=f.line, construct=label[:80],
                       detail="holds on each of the %d success path(s)" % len(cl.success))


def run(tier, seed=0):
    res = Result("C01", "other", tier)
    prog = ir.Program("w64")
    for fn, p in (("beltDWPUnwrap", "beltDWP"), ("beltCHEUnwrap", "beltCHE")):
        check_unwrap(prog, res, fn, p)
    check_kwp_unwrap(prog, res)
    for fn, p in (("beltDWPWrap", "beltDWP"), ("beltCHEWrap", "beltCHE")):
        check_wrap(prog, res, fn, p)
    res.floor("AEAD / key-wrap obligations", len(res.instances), 18)
    res.coverage["explanation"] = (
        "All paths of the five belt wrappers are enumerated with the ordered list of the family's Step calls (and their "
        "canonical buffer arguments), the calls that were branched on, and the null-ness tests of `header`. On every path "
        "that returns ERR_OK the order and operands required by the data-with-protection scheme hold: unwrap authenticates "
        "associated data and the received ciphertext, accepts the tag, and only then decrypts the copy; wrap encrypts and "
        "then authenticates the encrypted buffer; key unwrap accepts only under the header comparison the caller's header "
        "selects. The Step functions themselves (block cipher, GF(2^128) accumulator, counters) compute values and are "
        "declined, as is every `octet-for-octet` clause.")
    res.assumptions = COMMON_ASSUMPTIONS + [
        "buffers are identified by their parameter position in the documented signatures (dest, data, associated data, header)",
        "what the Step functions compute is not decided",
    ]
    return res
