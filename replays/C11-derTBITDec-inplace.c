#include <stdio.h>
#include <string.h>
#include <bee2/core/der.h>
int main(void)
{
	octet val[8] = {0x11,0x22,0x33,0x44,0x55,0x66,0x77,0x08};
	octet der[32], der2[32];
	size_t len = 0, len2 = 0, n, c1, c2;
	octet out[8];
	n = derBITEnc(der, val, 61);          /* 61 bits -> 3 padding bits */
	memcpy(der2, der, n);
	c1 = derBITDec(out, &len, der, n);     /* disjoint buffers */
	c2 = derBITDec(der2, &len2, der2, n);  /* in place: val == der, allowed by der.h */
	printf("disjoint: count=%zu len=%zu\nin place: count=%zu len=%zu value %s\n", c1, len, c2, len2,
		memcmp(out, der2, 8) == 0 ? "equal" : "differs");
	return len != len2;
}
