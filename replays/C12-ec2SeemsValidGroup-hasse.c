#include <stdio.h>
#include <string.h>
#include <stdlib.h>
#include <bee2/core/mem.h>
#include <bee2/core/util.h>
#include <bee2/crypto/dstu.h>
#include <bee2/math/gf2.h>
#include <bee2/math/ec2.h>
/* ec2SeemsValidGroup() must reject a group whose order*cofactor violates the Hasse bound
   |order*cofactor - (2^m + 1)| <= 2*2^(m/2).  Standard DSTU curve over GF(2^163); the order is replaced by order + 2^90
   (and, as a control, by order + 2^140). */
static int run(size_t bit)
{
	dstu_params params[1];
	size_t m, n, f_keep, f_deep, ec_keep, ec_deep;
	octet* state; qr_o* f; ec_o* ec; size_t* p; octet* A; void* stack;
	bool_t r;
	if (dstuParamsStd(params, "1.2.804.2.1.1.1.1.3.1.1.1.2.0") != ERR_OK) return -1;
	m = params->p[0]; n = W_OF_B(m);
	f_keep = gf2Create_keep(m); f_deep = gf2Create_deep(m);
	ec_keep = ec2CreateLD_keep(n); ec_deep = ec2CreateLD_deep(n, f_deep);
	state = calloc(1, f_keep + ec_keep + 65536 + ec_deep + f_deep);
	f = (qr_o*)(state + ec_keep); p = (size_t*)((octet*)f + f_keep);
	p[0] = params->p[0], p[1] = params->p[1], p[2] = params->p[2], p[3] = params->p[3];
	stack = p + 4;
	if (!gf2Create(f, p, stack)) return -2;
	ec = (ec_o*)state; A = (octet*)p; memset(A, 0, f->no); A[0] = params->A; stack = A + f->no;
	if (bit) params->n[bit / 8] ^= (octet)(1u << (bit % 8));      /* order +/- 2^bit */
	if (!ec2CreateLD(ec, f, A, params->B, stack) ||
		!ecCreateGroup(ec, params->P, params->P + f->no, params->n, f->no, params->c, stack)) return -3;
	r = ec2SeemsValidGroup(ec, stack);
	free(state);
	return r;
}
int main(void)
{
	int r0 = run(0), r90 = run(90), r140 = run(140);
	printf("m=163: true order -> %d; order^2^90 (Hasse violated by 2^91 >> 2^82.5) -> %d; order^2^140 -> %d\n", r0, r90, r140);
	return !(r0 == 1 && r90 == 0 && r140 == 0);
}
