/* replay: belt-fmt, number of 64-bit blocks b = ceil(n log2(mod) / 64) for (mod, n) = (49667, 160).
   49667^5 < 2^78, hence 2.5 log2(49667) < 39 and b = 39.  The approximation in beltFMTCalcB gives 40 for exactly this
   pair -- its own comment lists (49667, 160) as the one exception -- but the special case in the code tests
   count == 320, which the precondition count <= 300 excludes, so the exception is never taken.
   Observed through beltFMT_keep(mod, count) = sizeof(state) + 8 (b((count+1)/2) + 1):
   count = 320 and count = 318 both need b = 39 (159 * log2(49667) / 64 = 38.76).
   build: cc -I/repo/include replay.c <libbee2_static.a> ; exit 1 = defect present */
#include <stdio.h>
#include <bee2/crypto/belt.h>

int main(void)
{
	size_t k320 = beltFMT_keep(49667, 320);
	size_t k318 = beltFMT_keep(49667, 318);
	printf("beltFMT_keep(49667, 320) - beltFMT_keep(49667, 318) = %d octets (0 expected: b = 39 for both)\n",
		(int)(k320 - k318));
	return k320 == k318 ? 0 : 1;
}
