#include <stdio.h>
#include <string.h>
#include <bee2/core/der.h>
int main(void)
{
	/* OCTET STRING, long-form length of 8 octets = SIZE_MAX - 2 */
	octet der[16] = {0x04, 0x88, 0xFF,0xFF,0xFF,0xFF,0xFF,0xFF,0xFF,0xFD, 1,2,3,4,5,6};
	const octet* v = 0; size_t l = 0; u32 tag = 0;
	size_t c = derDec(&tag, &v, &l, der, sizeof(der));
	printf("derDec: returned %zu (count=%zu), len=%zx, val-der=%td\n", c, sizeof(der), l, v ? v - der : -1);
	printf("derIsValid=%d\n", (int)derIsValid(der, 7));
	if (c != SIZE_MAX) {
		octet out[16]; size_t n;
		c = derOCTDec(out, &n, der, sizeof(der));   /* memMove(out, v, SIZE_MAX-2) */
		printf("derOCTDec returned %zu len %zx\n", c, n);
	}
	return c != SIZE_MAX;
}
