/* replay: bignKeypairVal on parameters whose prime is not of the form 2^{2l} - c.
   zmCreate() then builds a Montgomery ring, so the coordinates of d*G are kept in Montgomery form; every other exporter
   (bignKeypairGen, bignPubkeyCalc, bignDH, ..) converts them with qrTo(), bignKeypairVal() copied the raw words
   with wwTo() and compared them with the public key: the pair that bignKeypairGen() has just produced was rejected with
   ERR_BAD_PUBKEY.  The representation depends on p alone; the parameters below are operable (p = 2^255 + 95 is a
   prime = 3 mod 4, curve y^2 = x^3 - 3x + 4, G = (0, 2)); the order field is a placeholder, which none of the two
   functions looks at beyond 0 < d < q.  For the standard parameters (Crandall primes) the two representations coincide.
   build: cc -I/repo/include replay.c <libbee2_static.a> ; exit 1 = defect present */
#include <stdio.h>
#include <string.h>
#include <bee2/core/mem.h>
#include <bee2/core/hex.h>
#include <bee2/core/prng.h>
#include <bee2/crypto/bign.h>

int main(void)
{
	bign_params params[1];
	octet privkey[32], pubkey[64], pubkey2[64];
	octet echo[64];
	octet st[1024];
	err_t c1, c2, c3;
	memSetZero(params, sizeof(params));
	params->l = 128;
	hexTo(params->p, "5F00000000000000000000000000000000000000000000000000000000000080");
	memCopy(params->a, params->p, 32), params->a[0] -= 3;
	params->b[0] = 4;
	params->yG[0] = 2;
	memSet(params->q, 0xFF, 32), params->q[0] = 0x01;
	memSet(echo, 0x5A, sizeof(echo));
	if (prngEcho_keep() > sizeof(st)) return 2;
	prngEchoStart(st, echo, sizeof(echo));
	c1 = bignKeypairGen(privkey, pubkey, params, prngEchoStepR, st);
	c2 = bignPubkeyCalc(pubkey2, params, privkey);
	c3 = bignKeypairVal(params, privkey, pubkey);
	printf("bignKeypairGen -> %u, bignPubkeyCalc -> %u (same public key: %s), bignKeypairVal -> %u\n",
		(unsigned)c1, (unsigned)c2, memcmp(pubkey, pubkey2, 64) == 0 ? "yes" : "no", (unsigned)c3);
	if (c1 != ERR_OK || c2 != ERR_OK) return 2;
	return c3 == ERR_OK ? 0 : 1;
}
