#include <stdio.h>
#include <stdlib.h>
#include <string.h>
#include <bee2/core/blob.h>
#include <bee2/crypto/bels.h>
/* exact-size allocator behind blobCreate/blobClose (link with -Wl,--wrap=blobCreate,--wrap=blobClose):
   every access beyond the size the caller asked for is then visible to AddressSanitizer */
blob_t __wrap_blobCreate(size_t size) { void* p = malloc(size ? size : 1); if (p) memset(p, 0, size); return p; }
void __wrap_blobClose(blob_t b) { free(b); }
int main(void)
{
	octet m0[32];
	err_t c;
	belsStdM(m0, 16, 0);
	c = belsValM(m0, 16);
	printf("belsValM(len=16) = %u\n", (unsigned)c);
	return 0;
}
