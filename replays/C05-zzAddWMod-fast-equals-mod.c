#include <stdio.h>
#include <bee2/math/zz.h>
#include <bee2/math/ww.h>
/* zzAddWMod(b, a, w, mod, n): b = (a + w) mod mod.  a = mod - w gives a + w = mod, the result must be 0. */
extern void zzAddWMod_fast(word b[], const word a[], register word w, const word mod[], size_t n);
int main(void)
{
	word mod[2] = {0xFFFFFFFFFFFFFF61ull, 0x7FFFFFFFFFFFFFFFull}, a[2], b[2], c[2];
	word w = 5;
	a[0] = mod[0] - w; a[1] = mod[1];
	zzAddWMod(b, a, w, mod, 2);          /* regular edition (default build) */
	zzAddWMod_fast(c, a, w, mod, 2);     /* fast edition */
	printf("regular: %016llx%016llx  fast: %016llx%016llx (mod = %016llx%016llx)\n",
		(unsigned long long)b[1], (unsigned long long)b[0], (unsigned long long)c[1], (unsigned long long)c[0],
		(unsigned long long)mod[1], (unsigned long long)mod[0]);
	return !(wwIsZero(b, 2) && wwIsZero(c, 2));
}
