#include <stdio.h>
#include <string.h>
#include <bee2/math/zz.h>
#include <bee2/math/ww.h>
#include <bee2/core/word.h>
/* zzRedMont(a, mod, n, mont_param): a <- a / B^n mod mod for a < mod * B^n.  For a = k * mod the result must be 0. */
extern void zzRedMont_fast(word a[], const word mod[], size_t n, register word mont_param, void* stack);
int main(void)
{
	word mod[2] = {0xFFFFFFFFFFFFFF61ull, 0x7FFFFFFFFFFFFFFFull};
	word mp, a[5], b[5], k[2], t[4];
	int bad = 0, i;
	/* mont_param = -mod^{-1} mod B */
	mp = 1; for (i = 0; i < 6; ++i) mp *= 2 - mod[0] * mp;  mp = (word)0 - mp;
	for (i = 1; i <= 8; ++i)
	{
		k[0] = (word)i * 0x9E3779B97F4A7C15ull + 1; k[1] = (word)i * 0x3141592653589793ull;
		memset(a, 0, sizeof(a));
		zzMul(a, k, 2, mod, 2, t);                 /* a = k * mod < mod * B^2 */
		memcpy(b, a, sizeof(a));
		zzRedMont(a, mod, 2, mp, t);               /* regular edition (default build) */
		zzRedMont_fast(b, mod, 2, mp, t);
		if (!wwIsZero(a, 2) || !wwIsZero(b, 2))
			printf("k=%d: regular -> %016llx%016llx, fast -> %016llx%016llx\n", i,
				(unsigned long long)a[1], (unsigned long long)a[0], (unsigned long long)b[1], (unsigned long long)b[0]), bad++;
	}
	printf("%d of 8 multiples of the modulus not reduced to 0\n", bad);
	return bad != 0;
}
