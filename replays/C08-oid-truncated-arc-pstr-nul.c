#include <stdio.h>
#include <string.h>
#include <bee2/core/der.h>
#include <bee2/core/oid.h>
int main(void)
{
	int bad = 0;
	{	/* OID with an unterminated final arc: 06 02 2A 81 */
		octet der[] = {0x06, 0x02, 0x2A, 0x81}; char oid[32]; size_t len; octet der2[16];
		size_t c = derOIDDec(oid, &len, der, sizeof(der));
		if (c != SIZE_MAX) {
			size_t n = derOIDEnc(der2, oid);
			printf("derOIDDec accepted 06 02 2A 81 as \"%s\"; re-encoding has %zu octets (%s)\n", oid, n,
				n == sizeof(der) && !memcmp(der, der2, n) ? "same" : "different");
			bad++;
		}
		c = derOIDDec2(der, sizeof(der), "1.2");
		if (c != SIZE_MAX) printf("derOIDDec2 matched 06 02 2A 81 against \"1.2\"\n"), bad++;
	}
	{	/* PrintableString with an embedded NUL */
		octet der[] = {0x13, 0x05, 'A', 'B', 0, 'C', 'D'}; char s[16]; size_t len; octet der2[16];
		size_t c = derPSTRDec(s, &len, der, sizeof(der));
		if (c != SIZE_MAX) {
			size_t n = derPSTREnc(der2, s);
			printf("derPSTRDec accepted AB\\0CD: len=%zu strlen=%zu; re-encoding has %zu octets\n", len, strlen(s), n);
			bad++;
		}
	}
	return bad != 0;
}
