/* replay: apduCmdDec accepts an extended Lc field for a short data field when no Le follows:
   00 A4 04 04 | 00 00 01 | 36   decodes to cdf_len = 1, rdf_len = 0, and apduCmdEnc of that command gives
   00 A4 04 04 | 01 | 36  -- two different octet strings decode to the same command (the decoder is not canonical;
   with an Le field present the same Lc form is rejected by the `cdf_len < 256 && rdf_len <= 256` test).
   build: cc -I/repo/include replay.c <libbee2_static.a> ; exit 1 = defect present */
#include <stdio.h>
#include <string.h>
#include <bee2/core/apdu.h>
#include <bee2/core/mem.h>

int main(void)
{
	const octet in[] = {0x00, 0xA4, 0x04, 0x04, 0x00, 0x00, 0x01, 0x36};
	octet buf[sizeof(apdu_cmd_t) + 16];
	octet out[16];
	apdu_cmd_t* cmd = (apdu_cmd_t*)buf;
	size_t n = apduCmdDec(cmd, in, sizeof(in));
	size_t m;
	if (n == SIZE_MAX)
	{
		printf("apduCmdDec rejects the non-minimal Lc form\n");
		return 0;
	}
	m = apduCmdEnc(out, cmd);
	printf("accepted %u octets (cdf_len = %u, rdf_len = %u); re-encoded to %u octets\n",
		(unsigned)sizeof(in), (unsigned)cmd->cdf_len, (unsigned)cmd->rdf_len, (unsigned)m);
	return (m == sizeof(in) && memcmp(in, out, m) == 0) ? 0 : 1;
}
