#include <stdio.h>
#include <string.h>
#include <bee2/core/der.h>
int main(void)
{
	u32 tags[] = {0x04, 0x5F20, 0x7F21, 0x1F8101, 0x1F818101, 0x7FFFFF7F};
	octet val[3] = {1,2,3};
	int bad = 0;
	for (size_t i = 0; i < sizeof(tags)/sizeof(tags[0]); ++i) {
		octet der[32]; u32 t = 0; const octet* v; size_t l;
		size_t n = derEnc(der, tags[i], val, 3);
		size_t m = n == SIZE_MAX ? SIZE_MAX : derDec(&t, &v, &l, der, n);
		printf("tag %08X: derEnc=%zd derDec=%zd tag'=%08X derIsValid=%d\n", tags[i], (ssize_t)n, (ssize_t)m, t, n==SIZE_MAX?-1:(int)derIsValid(der, n));
		if (n != SIZE_MAX && (m != n || t != tags[i])) bad++;
	}
	return bad != 0;
}
