/* replay: brngCTR with an all-ones counter (iv = ff..ff).
   STB 34.101.47: s <- s + 1 (mod 2^256), r <- r xor Y.  brngBlockInc's loop
   `while (w[i] == 0 && i++ < W_OF_O(32))` runs the body once more with i = W_OF_O(32) when all words wrapped:
   it increments the word *after* the 32-octet counter, i.e. the first word of the neighbouring field r.
   Reference below is computed with the public beltHash API only.
   build: cc -I/repo/include replay.c <libbee2_static.a> ; exit 1 = defect present */
#include <stdio.h>
#include <string.h>
#include <bee2/core/mem.h>
#include <bee2/crypto/belt.h>
#include <bee2/crypto/brng.h>

static void ref_block(octet y[32], const octet key[32], const octet s[32], const octet x[32], const octet r[32])
{
	octet st[4096];
	beltHashStart(st);
	beltHashStepH(key, 32, st);
	beltHashStepH(s, 32, st);
	beltHashStepH(x, 32, st);
	beltHashStepH(r, 32, st);
	beltHashStepG(y, st);
}

int main(void)
{
	octet key[32], iv[32], s[32], r[32], x[32], y[32], out[64], ref[64];
	octet state[4096];
	size_t i;
	for (i = 0; i < 32; ++i) key[i] = (octet)(i + 1);
	memset(iv, 0xFF, 32);
	memset(out, 0, 64);
	if (brngCTR_keep() > sizeof(state)) return 2;
	brngCTRStart(state, key, iv);
	brngCTRStepR(out, 64, state);
	/* reference: s = iv, r = ~s */
	memcpy(s, iv, 32);
	for (i = 0; i < 32; ++i) r[i] = (octet)~s[i];
	memset(x, 0, 32);
	ref_block(y, key, s, x, r);
	memcpy(ref, y, 32);
	memset(s, 0, 32);                     /* ff..ff + 1 mod 2^256 */
	for (i = 0; i < 32; ++i) r[i] ^= y[i];
	ref_block(y, key, s, x, r);
	memcpy(ref + 32, y, 32);
	if (memcmp(out, ref, 64) != 0)
	{
		printf("brngCTR(iv = ff..ff): second block differs from the standard's (first block %s)\n",
			memcmp(out, ref, 32) == 0 ? "agrees" : "differs too");
		return 1;
	}
	printf("brngCTR(iv = ff..ff) agrees with the reference over two blocks\n");
	return 0;
}
