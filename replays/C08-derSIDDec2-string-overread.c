#include <stdio.h>
#include <stdlib.h>
#include <string.h>
#include <bee2/core/der.h>
/* derOIDDec2(der, count, oid) compares a DER-coded OID with the string oid; the string must not be read beyond its
   terminator.  der codes 2.2.2345678, oid = "2.2.2" in an exact-size heap block. */
int main(void)
{
	octet der[32]; size_t c = derOIDEnc(der, "2.2.2345678");
	char* oid = malloc(6); size_t r;
	strcpy(oid, "2.2.2");
	r = derOIDDec2(der, c, oid);
	printf("derOIDDec2 -> %d\n", (int)r);
	free(oid);
	return r != SIZE_MAX;
}
