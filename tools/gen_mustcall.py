#!/usr/bin/env python3
"""listing mode: prints the success-requirement table for the given validators (to be read and frozen by hand)"""
import sys, json, os
sys.path.insert(0, os.path.dirname(os.path.dirname(os.path.abspath(__file__))))
from sa import ir, mustcall
P = ir.Program("w64")
out = {}
for fn in sys.argv[1:]:
    try:
        inter, n, f = mustcall.success_requirements(P, fn)
        out[fn] = {"requires": inter, "n_success_states": n, "file": f.relfile}
    except Exception as e:
        out[fn] = {"error": str(e)}
print(json.dumps(out, indent=1, sort_keys=True))
