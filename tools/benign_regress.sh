#!/bin/sh
# usage: tools/benign_regress.sh [tier]  -- every kept behaviour-preserving patch (benign/*/patch.diff, produced by
# independent sub-agents; each builds and passes the 38 tests) is applied to a scratch copy of /repo and every claimed
# check is run on it: none may exit non-zero.  Prints one line per patch.
cd /verif
fail=0
for d in benign/*/; do
  n=$(basename $d)
  out=$(tools/allchecks_on_patch.sh $d/patch.diff ${1:-quick} 2>&1)
  if echo "$out" | grep -q "all checks exit 0"; then echo "QUIET  $n"; else echo "ALARM  $n"; echo "$out" | head -6 | cut -c1-240; fail=1; fi
done
exit $fail
