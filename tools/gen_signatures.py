#!/usr/bin/env python3
"""Writes tables/signatures.json: for every function defined under src/ on the reference tree, its parameter names by
position.  sa/ir.py uses it to rename parameters back to their reference names when a later tree renames them, so that
rule tables written with the reference names do not depend on a parameter's spelling (only on its position).
Regenerate only when a signature legitimately changes (parameter added/removed) and the rule tables were revised."""
import sys, os, json
sys.path.insert(0, os.path.dirname(os.path.dirname(os.path.abspath(__file__))))
from sa import ir
ir.SIGNATURES = {}          # do not normalise while snapshotting
prog = ir.Program("w64")
out = {}
for f in prog.all_funcs(with_headers=True):
    if f.body is None:
        continue
    key = "%s:%s" % (f.relfile, f.name) if f.static else f.name
    out[key] = [p["n"] for p in f.params]
json.dump(out, open(os.path.join(os.path.dirname(os.path.dirname(os.path.abspath(__file__))), "tables", "signatures.json"), "w"),
          indent=0, sort_keys=True)
print(len(out), "signatures")
