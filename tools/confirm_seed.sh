#!/bin/sh
# usage: tools/confirm_seed.sh <ID> <n>  -- confirms a seeded change in the scratch worktree /tmp/wt/<ID>:
# applies patch, builds, runs the 38 tests, runs the demo (must fail), reverts, runs the demo (must pass).
ID=$1; N=$2; WT=${WT:-/tmp/wt/$ID}; S=${SEEDROOT:-/tmp/seeds}/$ID/$N
LOG=$S/confirm.log; : > $LOG
cd $WT || exit 2
git checkout -q -- . ; git clean -fdq -e _build
git apply $S/patch.diff >>$LOG 2>&1 || { echo "$ID/$N: patch does not apply"; exit 1; }
cmake -G Ninja -B _build -DCMAKE_BUILD_TYPE=Release . >>$LOG 2>&1 && cmake --build _build -j8 >>$LOG 2>&1 || { echo "$ID/$N: build failed"; git checkout -q -- .; exit 1; }
_build/test/testbee2 > $S/tests_with.log 2>&1
OKS=$(grep -c "Test: OK" $S/tests_with.log); ERRS=$(grep -c "Test: Err" $S/tests_with.log)
(cd $S && sh ./run.sh $WT) > $S/demo_with.log 2>&1; RC_WITH=$?
git checkout -q -- .
cmake --build _build -j8 >>$LOG 2>&1
(cd $S && sh ./run.sh $WT) > $S/demo_without.log 2>&1; RC_WITHOUT=$?
echo "$ID/$N: tests OK=$OKS Err=$ERRS demo_with_rc=$RC_WITH demo_without_rc=$RC_WITHOUT"
