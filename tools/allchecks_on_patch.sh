#!/bin/sh
# usage: tools/allchecks_on_patch.sh <patch.diff> [tier]  -- applies the patch to a scratch copy of /repo and runs every
# claimed check on it; prints one line per check that does not exit 0 (a behaviour-preserving patch must print none).
PATCH=$(readlink -f $1); TIER=${2:-quick}
D=$(mktemp -d /var/tmp/bee2all.XXXXXX)
trap 'rm -rf "$D"' EXIT
cp -r /repo/src /repo/include /repo/CMakeLists.txt "$D"/
(cd "$D" && patch -s -p1 < "$PATCH") || { echo "PATCH-FAILED $PATCH"; exit 3; }
cd /verif
IDS=$(python3 -c "import json; print(' '.join(c['property_id'] for c in json.load(open('/verif/MANIFEST.json'))['checks']))")
echo $IDS | tr ' ' '\n' | xargs -P 6 -I{} sh -c "BEE2_REPO=$D VERIF_WORK=$D/.work.{} VERIF_EVIDENCE_DIR=$D/ev VERIF_REPORT_DIR=$D/rep ./check {} --tier $TIER > $D/out.{} 2>&1; echo {} \$? > $D/rc.{}"
bad=0
for p in $IDS; do
  rc=$(cut -d' ' -f2 $D/rc.$p)
  if [ "$rc" != "0" ]; then bad=1; echo "== $p exit=$rc"; grep -v "proved" $D/out.$p | grep -v "^$p " | head -4 | cut -c1-300; fi
done
[ $bad = 0 ] && echo "all checks exit 0"
exit $bad
