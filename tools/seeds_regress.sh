#!/bin/sh
# usage: tools/seeds_regress.sh  -- every kept seeded change that meta.json says is detected must still be detected
# (exit 1 from the named check on a scratch copy of /repo with the patch applied); prints one line per seed.
cd /verif
fail=0
for d in seeded/*/; do
  n=$(basename $d)
  P=$(python3 -c "
import json,re,sys
m=json.load(open('$d/meta.json')); s=m.get('detected_by') or ''
r=re.match(r'\./check (C\d\d)',s); print(r.group(1) if r else '-')")
  [ "$P" = "-" ] && { echo "SKIP   $n (not claimed detected)"; continue; }
  out=$(tools/seedtest.sh $P $d/patch.diff 2>&1 | tail -1)
  if [ "$out" = "exit=1" ]; then echo "CAUGHT $n by $P"; else echo "MISSED $n by $P ($out)"; fail=1; fi
done
exit $fail
