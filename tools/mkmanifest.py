#!/usr/bin/env python3
"""Regenerates /verif/MANIFEST.json from the table below (single source of truth)."""
import json, os
V = os.path.dirname(os.path.dirname(os.path.abspath(__file__)))
props = [json.loads(l) for l in open(os.path.join(V, "properties.jsonl"))]

NA = {
 "C01": "octet-exact agreement with STB 34.101.31 and invertibility are facts about values for all inputs; no sound static rule in reach decides them (the verify-before-release clause is decided under C09)",
 "C03": "permutation constants, sponge padding, counter carries and decimal truncation are values for all inputs; no clause has a structural form that is also a necessary condition",
 "C05": "every clause equates a returned value with a mathematical function of the operands for all operand values; static shape says nothing about it",
 "C13": "correctness of CRT recovery for every subset and order is polynomial arithmetic over values",
}
PENDING = "check not built yet (implementation in progress); the design is in DESIGN.md section 4"

VPNOTE = 'Trusted: clang AST, the path engine, the fact language of sa/vp.py (what counts as a reducing producer / accepted test is listed there), buffer identity by carve expression; frozen per-function tables (point-validation level, accepted alternative forms) carry one reason each. Decides necessary structural conditions, not the numerical statements of the property.'
CHECKS = {
 "C06": dict(level="other",
   text="One clause of the property is decided, and only as a structural necessary condition: the explicit special-case branches the property names (P = Q, P = -Q, O, 2-torsion) are present. For each of the 12 addition/doubling routines of ecp.c/ec2.c (Jacobian, Lopez-Dahab, mixed, affine) all paths are enumerated and the most-tested path must branch on at least as many distinct operand conditions (z = 0, y = 0 / x = 0, H = 0 / B = 0 / equal x, S1 = S2) as the routine has special cases (table with one reason per case, read off the formulas); the five subtraction routines must delegate to the checked additions; ecMulA/ecAddMulA report infinity through the to-affine conversion. That the formulas and the branches compute the group law, scalar-multiplication correctness, on-curve tests and SWU are equations over values and are declined.",
   design="4/C06 (added in implementation, see 9)", technique="all-paths enumeration of branched-on conditions vs a reasoned special-case table (must-test rule) + who-calls delegation rule",
   note="Trusted: clang AST, the path engine and fact language of sa/vp.py; tables/ec_special_cases.json (one reason per special case). A special case counts as handled when its condition is branched on; tests of curve constants are not counted. A rewrite with complete formulas would require revising the table."),
 "C07": dict(level="other",
   text="Resource-bound analysis of the scratch-stack convention the property names first: for each of the ~140 functions with a `stack` parameter and a _deep companion, the octets the body carves by pointer arithmetic plus the largest demand of any callee that receives the remaining stack (recursively; calls through ring/curve descriptors demand that object's ->deep; calls through constant function-pointer tables are followed to every entry; direct indexed accesses through stack pointers count as use; objects built inside the stack contribute their creator's sizes) is compared with the value of F_deep on a grid of dimension tuples; the 8 creators are checked the other way round (every installed function fits into ->deep and the public _deep covers it); blob.c's allocation expression covers header + payload for all sizes 1..4199; only mem.c/blob.c call the allocator. Found and fixed 20 under-declared _deep functions. Absence of every out-of-bounds access for all inputs, region sizes inside a carve and _keep formulas of flexible states are not decided.",
   design="4/C07", technique="resource-bound analysis: size formulas lifted from the AST and compared on a dimension grid",
   note="Trusted: clang AST; the size evaluators of sa/sd.py (integer expressions only; data-dependent sizes replaced by their upper bound); formulas are monotone and piecewise linear with breakpoints inside the grid (n, m in 1..12 incl. 11 quick / up to 40 thorough); three functions are frozen undecided (variadic ecAddMulA, priExtendPrime/2)."),
 "C14": dict(level="other",
   text="Information-flow analysis on the LLVM IR that clang 14 emits from the current tree (quick: -O2; thorough: -O1/-O2/-O3) for all 83 units: no conditional branch, switch or indirect branch condition depends on secret data in (G1) the 33 regular editions (discovered as the functions that also have a _fast twin), (G2) the nine verification steps, which must also compare through the regular memEq/memIsZero, and (G3) the ~75 entry points of the symmetric primitives; secrets are seeded only at entry points and the set of secret state fields (down to array sub-offsets) is inferred by a fixpoint. One compiler-specific finding (clang turns SAFE(memCmp)'s final mask into a branch) is listed as known; one genuine finding (branching carry of the secret CTR counter) was fixed. `SAFE equals FAST for all inputs' is a value statement and is declined.",
   design="4/C14", technique="taint / information-flow analysis on optimised LLVM IR with parametric function summaries",
   note="Trusted: clang's IR at the analysed levels (the x86 backend may still lower a select to a branch; other compilers, e.g. the gcc that built the baseline, are not covered), tools/irdump.cc, the memory abstraction of sa/ct.py (one cell per struct field and sub-offset, flow-insensitive), AST-derived state struct layouts; return values of proved regular editions are declassified; memWipe is opaque (it scans memory it has just overwritten)."),
 "C08": dict(level="other",
   text="Relational abstract interpretation (linear inequalities, Fourier-Motzkin implication, bounded disjunction, template/interval join, widening) of the DER/APDU leaf decoders and of the container parsers built on them (oid.c, bpki.c, btok_cvc.c, bign_params.c, btok_sm.c; 40 functions): every read of the input is proved to lie inside the remaining length on all abstract states, every DER decoder and static container decoder returns SIZE_MAX or a consumed length <= its input (callee contracts used as facts and proved for the callees), the remaining length never wraps, no bool constant travels through the size_t error channel; arithmetic is machine arithmetic (a sum is a fact only when proved <= SIZE_MAX, a difference only when proved >= 0), which is what decides 'lengths near SIZE_MAX'. DB.4: a value decoder copying into a fixed-size object (struct field, local array) writes no more than it holds -- the probe-length-then-copy discipline of btokCVCBodyDec / bignParamsDec_internal. DB.2: typestate over all of src/ that every result of a SIZE_MAX-channel function is examined before use as a length/offset. DB.5: strchr membership tests exclude NUL. Found and fixed derDec (length overflow), derTDec, derTSIZEDec, derTPSTRDec; two further der.c defects (4-octet tags, truncated OID arcs) were found by reading and fixed. Termination, canonicality and encode/decode inversion are not decided.",
   design="4/C08", technique="abstract interpretation (polyhedra-lite domain with wrap obligations) over the CFG + typestate on error-channel results",
   note="Trusted: clang AST, the abstract domain of sa/db.py (64-bit size_t; input octets unconstrained 0..255; a caller-supplied (pointer, length) pair describes one object so length <= PTRDIFF_MAX; a failing der.c decoder writes nothing); destinations that are caller-supplied pointers and the string decoders hex/b64/dec are not covered by DB.1/DB.4."),
 "C11": dict(level="other",
   text="The ordering mechanism behind overlap tolerance is decided on all paths: for each of the ~55 functions whose header remark allows buffers to overlap (instances parsed from belt.h/bash.h/brng.h/der.h/mem.h) and each ordered pair (P writable, Q), once P has been written Q is never read again, and an operation that reads Q and writes P at once is itself tolerant for those parameters (computed recursively from callee bodies with per-parameter read/write summaries; memmove tolerant, memcpy not). Found and fixed six documented-legal placements with wrong results. Output equality for every placement is a value statement; what is decided is the necessary ordering condition.",
   design="4/C11", technique="effect-ordering dataflow on all CFG paths with bottom-up read/write summaries",
   note="Trusted: clang AST, effect summaries (prototype const-ness for bodiless callees), memMove as tolerant primitive; memJoin's case analysis on pointer order is not followed by the general rule (frozen undecided) but each of its moves must be justified by a memIsDisjoint2 guard on its path (R11-guarded-moves); local pointers set through an out-parameter (derDec2(&v, .., der)) alias the call's other buffers; the header remarks are the specification."),
 "C10": dict(level="other",
   text="The relocation clause is decided exactly: a state that belt.h/brng.h/botp.h declare copyable as a memory fragment never stores an address derived from the state itself, a local object or the scratch stack (type inventory of all state structs plus classification of every store into a pointer field by the origin of the stored address). Two structural necessary conditions of the buffering clauses are decided as well: (R10.3) no Get/Verify step -- directly or through a family helper -- writes a scalar state field that another function over the same state reads before writing, which is what `get-then-continue equals never having called it` needs (30 Get steps; generator steps of botp/KRP tabled with reasons); (R10.4) Step functions that implement the same accumulate/complete/loop/tail buffering for different data operations (bashPrg Absorb/Squeeze/Encr/Decr; belt CFB, ECB, BDE E/D) have identical conditions and scalar state updates (sibling cross-check). Equality of chunked and one-shot results is a value statement and is declined.",
   design="4/C10", technique="type inventory + points-to classification of stores; per-path field-use (liveness) analysis; sibling cross-check of control skeletons",
   note="Trusted: clang AST; addresses enter states only through typed pointer fields (no raw copy of an address into state bytes exists in the tree); array fields written by Get steps are not judged (a Get may pad the dead tail of the block buffer); the sibling groups are a frozen table confirmed on the reference tree."),
 "C19": dict(level="other",
   text="Two exact necessary conditions: (1) every one of the ~1290 ASSERT arguments is free of assignments/increments and calls only functions whose bottom-up effect summary is empty (no global write, no write through a parameter, no allocation/lock/unknown indirect call), so assertion-enabled and release builds execute the same state changes; (2) the set of public functions and their prototypes is identical across B_PER_W 64/32, regular/SAFE_FAST builds (modulo _safe/_fast renaming; each of the 33 regular editions has a fast twin of identical type) and the five bash-f platforms. Equality of outputs across configurations for all inputs is a value statement and is declined.",
   design="4/C19", technique="effect analysis (bottom-up summaries over the call graph) + cross-configuration API diff on the type-checked AST",
   note="Trusted: clang AST for each configuration; B_PER_W=32 is parsed with 64-bit size_t (no 32-bit headers in the image); optimisation level is not an axis of these rules."),
 "C12": dict(level="other",
   text="Must-call completeness on all paths: for 18 validators (parameter sets of bign/bign96/g12s/dstu/stb99/pfok, public keys, key pairs, points, curve validity and group safety, bels public keys, field validity) the multiset of sub-checks accepted on the way to every success return is recomputed and must contain the frozen set read off the reference tree (74 obligations incl. MOV thresholds and 'G has order q'); the six YYMMDD octets are digit-tested before arithmetic; priIsPrime's Rabin-Miller iteration count is at least B_PER_IMPOSSIBLE/2. That the primality / irreducibility / next-prime routines compute the right answer is number theory over all inputs and is declined.",
   design="4/C12", technique="must-pass-through (dominance on all CFG paths) against a frozen sub-check table", note=VPNOTE),
 "C17": dict(level="other",
   text="Must-pass-through analysis on all paths of the CV-certificate functions (Val, Val2, Iss, Match, Unwrap, Check, Check2, Wrap): success only after unwrap under the issuer's key, signature verification whenever a key is given or the certificate's own key is requested (discharged with the field postcondition pubkey_len >= 48 that the decoder analysis derives for btokCVCBodyDec), authority == issuer holder, issuer.from <= cert.from <= issuer.until with the right operands, explicit date inside the validity period; secure messaging: the parity test on ctr[0] (truth table over all 256 octet values) refuses exactly one parity before any use of the session keys, Wrap/Unwrap of one direction agree, directions use opposite parities, decryption only after the MAC was accepted; key/share containers release content only after beltKWPUnwrap accepted. Parse-back equality and recovery of APDUs unchanged are value statements and are declined.",
   design="4/C17", technique="must-pass-through dataflow + exhaustive evaluation of the one-octet parity predicate", note=VPNOTE),
 "C04": dict(level="other",
   text="Validation-presence analysis on all paths of every bake (BMQV/BSTS/BPACE) and BAUTH step: received points pass both coordinate reductions and the on-curve test before any EC arithmetic; each verifying step succeeds only after its MAC / point comparison / certificate callback / component range test accepted, under the same kca/kcb flag as the step that produces the tag (checked over all four flag combinations); ephemeral scalars sampled modulo the order; drivers test every step's result; the state keys K0/K1/K2 are derived by an earlier step of the same party in every flag combination in which a later step reads them. Equality of the derived keys and rejection of every tampered run are value statements and are declined.",
   design="4/C04", technique="validation-presence dataflow + writer/reader agreement across protocol steps", note=VPNOTE),
 "C02": dict(level="other",
   text="Validation-presence analysis on every path of the bign signing/verification/key-transport/IBS functions: secret scalars are sampled modulo the group order; a loaded private key passes 0<d<q before any use; every operand of a modular routine whose own ASSERT demands operand<modulus is provably reduced at the call (range test with failing arm leaving, reducing producer, conditional subtraction) -- which is exactly the 'hash values >= q' and 's1 range' clauses; decoded points are validated before EC arithmetic; every success return of a verifier/unwrap is dominated by its accepting comparisons (for bignKeyUnwrap: the comparison selected by the header argument). The numerical clauses (signature equals the standard's value, DH symmetry, round trips) are declined.",
   design="4/C02", technique="validation-presence dataflow (must-pass-through on all CFG paths)", note=VPNOTE),
 "C16": dict(level="other",
   text="Same validation-presence templates as C02 applied to bign96.c, g12s.c, dstu.c, pfok.c: sampling modulus, private-key range before use (pfok's r-bit form accepted), operands of modular routines reduced, public keys reduced/validated, signature components non-zero and below the order, success of each verifier/validator dominated by its accepting comparisons. Completeness of sign-then-verify, compression round trip and key-agreement equality are value statements and are declined.",
   design="4/C16", technique="validation-presence dataflow (must-pass-through on all CFG paths)", note=VPNOTE),
 "C09": dict(level="other",
   text="Path-sensitive typestate analyses on every function of src/: (b) each of the ~117 allocation sites is null-tested before any use, the failure arm returns a failure, nothing stays allocated on any failing return and no block is lost by v = blobResize(v,..); (c) in the eight unwrap / secure-messaging-unwrap functions the caller's output is never left written at an authentication-failure return and every success return that released data passed an accepting verifier on that path; (d) every err_t result is tested or returned (three sites frozen with reasons); (a) scalar preconditions asserted by callees are implied by the public caller's argument checks. These are necessary structural conditions of the error contract, decided on all paths; the mapping of header prose to error codes is not decided.",
   design="4/C09", technique="all-paths typestate / dataflow on the CFG + guard-implies-precondition check",
   note="Trusted: clang AST, path engine, prototype-level may-write effects (non-const pointer parameter = may write); frozen instances are listed in sa/c09.py with one reason each."),
 "C15": dict(level="other",
   text="All-paths typestate analysis: every one of the ~117 blob creation sites in src/ (blobCreate, blobResize, creator wrappers found by summary) is followed on every control-flow path of its function to blobClose (or to its owner), with use-after-close/double-close/overwrite detection; blobClose itself is proved structurally to wipe the whole page-rounded allocation (size expression matched against blobCreate's) before memFree, memWipe is proved to be a volatile store loop in the AST and in clang's optimised IR, and only mem.c/blob.c may touch the allocator. Structural necessary conditions of the property, decided exactly for the code shape; not a claim about which bytes are secret.",
   design="4/C15", technique="all-paths typestate (disjunctive path engine over the CFG) + who-may-call + structural dominance + IR inspection",
   note="Trusted: clang AST/IR, the path engine, free()/realloc() being the only release points; secrets kept in caller memory or fixed-size stack locals are outside the statement (heap blocks). blobResize call sites are an audited list (R15.5)."),
 "C18": dict(level="other",
   text="Lockset analysis over all paths of every function of rng.c/util.c/tm.c: shared file-scope state is accessed only with the unit's mutex held, helper functions that rely on the caller's lock are checked at each call site, every return is reached with the mutex released, no access relies on a test made in an earlier critical section, init-only variables are read only after mtCallOnce; mtCallOnce's protocol shape (initialiser only after a winning CAS, completion published, no return before done was observed, trigger touched only atomically) and the atomic/mutex primitives are checked structurally. Data-race freedom and exactly-once follow from these for the pthread/__sync build; liveness is not decided.",
   design="4/C18", technique="lockset / typestate dataflow on all CFG paths + protocol-shape rules",
   note="Trusted: pthread mutexes and __sync builtins (full barriers), OS_UNIX branch only; once-initialisers and at-exit handlers are exempt from the lockset rule by construction; callers hold a reference between rngCreate and rngClose."),
 "C20": dict(level="model_checking",
   text="Exhaustive: the complete transition table of the password automaton is extracted from the AST of btokPwdTransition (bit-field widths and enum values included) and every clause of the property is checked by breadth-first search on product automata over all states reachable from every persistent PIN state; a violation is reported with the shortest event sequence.",
   design="4/C20", technique="finite-model extraction from the AST + exhaustive graph search",
   note="Trusted: clang's AST, the 200-line whitelisting evaluator in sa/c20.py (any construct outside the whitelist stops the check with exit 2), and that btokPwdTransition is the only writer of the automaton state."),
}

def main():
    checks, na = [], []
    for p in props:
        pid = p["id"]
        if pid in CHECKS:
            c = CHECKS[pid]
            checks.append({
                "property_id": pid,
                "quick_cmd": "./check %s --tier quick" % pid,
                "thorough_cmd": "./check %s --tier thorough" % pid,
                "evidence_file": "evidence/%s.json" % pid,
                "replay_cmd_template": "./check %s --replay {path}" % pid,
                "engine": "sa",
                "level_claimed": {"category": c["level"], "text": c["text"], "design_ref": c["design"]},
                "level_note": c["note"],
                "technique": c["technique"],
            })
        else:
            na.append({"property_id": pid, "reason": NA.get(pid, PENDING)})
    m = {"version": 1,
         "setup_cmd": "make -C /verif/tools",
         "hooks": {"guard": "BEE2_VERIF",
                   "enable": "none needed: the checks read /repo's sources through clang; no hook is compiled into bee2",
                   "baseline_off_cmd": "/verif/tools/baseline.sh", "source_commits": [], "add_only": True},
         "engines": [{"name": "sa", "path": "sa/", "serves_properties": sorted(CHECKS),
                      "kind_free_text": "static analysis: libTooling AST lowering (tools/astdump.cc) + Python path/typestate/dataflow engines; LLVM IR taint for C14"}],
         "checks": checks,
         "notes": "Static analysis only; see DESIGN.md. exit 2 = analysis broken (anchor vanished / floor not met / new undecided construct).",
         "not_applicable": na}
    json.dump(m, open(os.path.join(V, "MANIFEST.json"), "w"), indent=1)
    print("checks:", [c["property_id"] for c in checks])

main()
