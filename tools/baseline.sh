#!/bin/sh
# Runs the repository's own test suite with no verification define (there are no hooks).
set -e
B=$(mktemp -d /var/tmp/bee2base.XXXXXX)
trap 'rm -rf "$B"' EXIT
cmake -G Ninja -S /repo -B "$B" -DCMAKE_BUILD_TYPE=Release >/dev/null
cmake --build "$B" -j16 >/dev/null
ctest --test-dir "$B" -j8 --timeout 900
