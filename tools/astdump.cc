// astdump: lowers one C translation unit (type-checked by clang 14) to a
// compact JSON IR consumed by /verif/sa/*.py.  Nothing is executed; this is a
// front end only.  See DESIGN.md section 3.1.
//
// usage: astdump <unit.c> -o out.json -- <clang flags>
#include "clang/AST/ASTConsumer.h"
#include "clang/AST/ASTContext.h"
#include "clang/AST/Decl.h"
#include "clang/AST/Expr.h"
#include "clang/AST/RecordLayout.h"
#include "clang/AST/Stmt.h"
#include "clang/Frontend/CompilerInstance.h"
#include "clang/Frontend/FrontendAction.h"
#include "clang/Lex/Lexer.h"
#include "clang/Tooling/CommonOptionsParser.h"
#include "clang/Tooling/Tooling.h"
#include "llvm/Support/CommandLine.h"
#include "llvm/Support/JSON.h"
#include "llvm/Support/raw_ostream.h"
#include <map>
#include <set>

using namespace clang;
namespace json = llvm::json;

static llvm::cl::OptionCategory Cat("astdump");
static llvm::cl::opt<std::string> OutFile("o", llvm::cl::desc("output"),
                                          llvm::cl::init("-"),
                                          llvm::cl::cat(Cat));
static llvm::cl::opt<std::string>
    Root("root", llvm::cl::desc("repository root (files below it are dumped)"),
         llvm::cl::init("/repo"), llvm::cl::cat(Cat));

namespace {

class Dumper {
  ASTContext &Ctx;
  SourceManager &SM;
  std::map<const Decl *, int> Ids;
  std::set<const FunctionDecl *> RefFns;
  std::set<const RecordDecl *> RefRecs;
  int NextId = 1;

public:
  explicit Dumper(ASTContext &C) : Ctx(C), SM(C.getSourceManager()) {}

  int id(const Decl *D) {
    D = D->getCanonicalDecl();
    auto It = Ids.find(D);
    if (It != Ids.end())
      return It->second;
    return Ids[D] = NextId++;
  }

  std::string fileOf(SourceLocation L) {
    L = SM.getExpansionLoc(L);
    if (L.isInvalid())
      return "";
    return SM.getFilename(L).str();
  }
  unsigned lineOf(SourceLocation L) {
    L = SM.getExpansionLoc(L);
    if (L.isInvalid())
      return 0;
    return SM.getExpansionLineNumber(L);
  }
  bool inRoot(SourceLocation L) {
    std::string F = fileOf(L);
    return F.rfind(Root, 0) == 0;
  }

  std::string ty(QualType T) { return T.getAsString(); }
  std::string cty(QualType T) { return T.getCanonicalType().getAsString(); }

  void typeInfo(json::Object &O, QualType T) {
    O["t"] = ty(T);
    QualType C = T.getCanonicalType();
    if (C->isPointerType() || C->isArrayType()) {
      O["p"] = 1;
      QualType P = C->isPointerType()
                       ? C->getPointeeType()
                       : Ctx.getAsArrayType(C)->getElementType();
      if (P.isConstQualified())
        O["pc"] = 1;
      if (P->isFunctionType())
        O["pf"] = 1;
    }
  }

  std::string macroName(SourceLocation L) {
    if (!L.isMacroID())
      return "";
    // outermost macro that starts at this token
    SourceLocation Cur = L;
    std::string Name;
    while (Cur.isMacroID()) {
      if (SM.isMacroArgExpansion(Cur)) {
        Cur = SM.getImmediateSpellingLoc(Cur);
        continue;
      }
      Name = Lexer::getImmediateMacroName(Cur, SM, Ctx.getLangOpts()).str();
      Cur = SM.getImmediateExpansionRange(Cur).getBegin();
    }
    return Name;
  }
  // innermost macro whose expansion yields exactly this token start
  std::string macroNameInner(SourceLocation L) {
    if (!L.isMacroID())
      return "";
    SourceLocation Cur = L;
    while (Cur.isMacroID() && SM.isMacroArgExpansion(Cur))
      Cur = SM.getImmediateSpellingLoc(Cur);
    if (!Cur.isMacroID())
      return "";
    return Lexer::getImmediateMacroName(Cur, SM, Ctx.getLangOpts()).str();
  }

  json::Value expr(const Expr *E) {
    if (!E)
      return nullptr;
    // strip wrappers that carry no meaning for the analyses
    if (auto *P = dyn_cast<ParenExpr>(E))
      return expr(P->getSubExpr());
    if (auto *C = dyn_cast<ConstantExpr>(E))
      return expr(C->getSubExpr());
    if (auto *IC = dyn_cast<ImplicitCastExpr>(E))
      return expr(IC->getSubExpr());

    json::Object O;
    O["l"] = (int64_t)lineOf(E->getBeginLoc());

    // constant folding (integers only, no side effects)
    if (!isa<InitListExpr>(E) && E->getType()->isIntegralOrEnumerationType() &&
        !E->isValueDependent()) {
      Expr::EvalResult R;
      if (E->EvaluateAsInt(R, Ctx, Expr::SE_NoSideEffects) &&
          !R.HasSideEffects) {
        O["k"] = "Int";
        llvm::APSInt V = R.Val.getInt();
        if (V.isSigned() ? V.isSignedIntN(63) : V.isIntN(63))
          O["v"] = V.isSigned() ? V.getSExtValue() : (int64_t)V.getZExtValue();
        else
          O["v"] = llvm::toString(V, 10); // big unsigned as string
        O["t"] = ty(E->getType());
        if (auto *DR = dyn_cast<DeclRefExpr>(E->IgnoreParenImpCasts()))
          if (isa<EnumConstantDecl>(DR->getDecl()))
            O["n"] = DR->getDecl()->getNameAsString();
        std::string M = macroName(E->getBeginLoc());
        if (!M.empty())
          O["m"] = M;
        std::string MI = macroNameInner(E->getBeginLoc());
        if (!MI.empty() && MI != M)
          O["mi"] = MI;
        if (isa<UnaryExprOrTypeTraitExpr>(E->IgnoreParenImpCasts()))
          O["so"] = 1;
        return std::move(O);
      }
    }

    if (auto *DR = dyn_cast<DeclRefExpr>(E)) {
      const ValueDecl *D = DR->getDecl();
      O["k"] = "Ref";
      O["n"] = D->getNameAsString();
      O["id"] = id(D);
      typeInfo(O, D->getType());
      if (auto *FD = dyn_cast<FunctionDecl>(D)) {
        O["rk"] = "func";
        RefFns.insert(FD->getCanonicalDecl());
      } else if (isa<ParmVarDecl>(D))
        O["rk"] = "param";
      else if (auto *VD = dyn_cast<VarDecl>(D))
        O["rk"] = VD->hasGlobalStorage()
                      ? (VD->isLocalVarDecl() ? "static_local" : "global")
                      : "local";
      else
        O["rk"] = "other";
      return std::move(O);
    }
    if (auto *IL = dyn_cast<IntegerLiteral>(E)) {
      O["k"] = "Int";
      O["v"] = llvm::toString(IL->getValue(), 10, false);
      return std::move(O);
    }
    if (auto *SL = dyn_cast<StringLiteral>(E)) {
      O["k"] = "Str";
      if (SL->isAscii() || SL->isUTF8())
        O["v"] = SL->getString().str();
      return std::move(O);
    }
    if (isa<FloatingLiteral>(E)) {
      O["k"] = "Float";
      return std::move(O);
    }
    if (auto *ME = dyn_cast<MemberExpr>(E)) {
      O["k"] = "Member";
      O["b"] = expr(ME->getBase());
      O["f"] = ME->getMemberDecl()->getNameAsString();
      O["arrow"] = ME->isArrow();
      typeInfo(O, ME->getType());
      if (auto *FD = dyn_cast<FieldDecl>(ME->getMemberDecl())) {
        const RecordDecl *RD = FD->getParent();
        O["rec"] = recName(RD);
        RefRecs.insert(RD);
      }
      return std::move(O);
    }
    if (auto *AS = dyn_cast<ArraySubscriptExpr>(E)) {
      O["k"] = "Index";
      O["b"] = expr(AS->getBase());
      O["i"] = expr(AS->getIdx());
      typeInfo(O, AS->getType());
      return std::move(O);
    }
    if (auto *CE = dyn_cast<CallExpr>(E)) {
      O["k"] = "Call";
      if (const FunctionDecl *FD = CE->getDirectCallee()) {
        O["callee"] = FD->getNameAsString();
        O["cid"] = id(FD);
        RefFns.insert(FD->getCanonicalDecl());
      } else {
        O["fn"] = expr(CE->getCallee());
      }
      json::Array A;
      for (const Expr *Arg : CE->arguments())
        A.push_back(expr(Arg));
      O["a"] = std::move(A);
      typeInfo(O, CE->getType());
      std::string M = macroName(CE->getBeginLoc());
      if (!M.empty())
        O["m"] = M;
      return std::move(O);
    }
    if (auto *UO = dyn_cast<UnaryOperator>(E)) {
      O["k"] = "Un";
      std::string Op = UnaryOperator::getOpcodeStr(UO->getOpcode()).str();
      if (UO->isPostfix())
        Op = "post" + Op;
      else if (UO->isIncrementDecrementOp())
        Op = "pre" + Op;
      O["op"] = Op;
      O["e"] = expr(UO->getSubExpr());
      typeInfo(O, UO->getType());
      return std::move(O);
    }
    if (auto *BO = dyn_cast<BinaryOperator>(E)) {
      O["k"] = "Bin";
      O["op"] = BO->getOpcodeStr().str();
      O["x"] = expr(BO->getLHS());
      O["y"] = expr(BO->getRHS());
      typeInfo(O, BO->getType());
      return std::move(O);
    }
    if (auto *CO = dyn_cast<ConditionalOperator>(E)) {
      O["k"] = "Cond";
      O["c"] = expr(CO->getCond());
      O["x"] = expr(CO->getTrueExpr());
      O["y"] = expr(CO->getFalseExpr());
      typeInfo(O, CO->getType());
      return std::move(O);
    }
    if (auto *CS = dyn_cast<ExplicitCastExpr>(E)) {
      O["k"] = "Cast";
      typeInfo(O, CS->getType());
      O["e"] = expr(CS->getSubExpr());
      {
        // a cast that is the body of a function-like macro (wordLeq01(a, b) = ((word)wordLeq(a, b))): keep the name
        std::string M = macroNameInner(CS->getBeginLoc());
        if (!M.empty())
          O["m"] = M;
      }
      return std::move(O);
    }
    if (auto *SO = dyn_cast<UnaryExprOrTypeTraitExpr>(E)) {
      O["k"] = "SizeOf"; // non-constant (VLA) only; constants were folded
      return std::move(O);
    }
    if (auto *IL = dyn_cast<InitListExpr>(E)) {
      O["k"] = "InitList";
      json::Array A;
      for (const Expr *I : IL->inits())
        A.push_back(expr(I));
      O["a"] = std::move(A);
      return std::move(O);
    }
    if (auto *CL = dyn_cast<CompoundLiteralExpr>(E)) {
      O["k"] = "CompoundLit";
      O["e"] = expr(CL->getInitializer());
      typeInfo(O, CL->getType());
      return std::move(O);
    }
    if (auto *VA = dyn_cast<VAArgExpr>(E)) {
      O["k"] = "VAArg";
      O["e"] = expr(VA->getSubExpr());
      typeInfo(O, VA->getType());
      return std::move(O);
    }
    if (auto *SE = dyn_cast<StmtExpr>(E)) {
      O["k"] = "StmtExpr";
      O["s"] = stmt(SE->getSubStmt());
      return std::move(O);
    }
    if (isa<CharacterLiteral>(E)) {
      O["k"] = "Int";
      O["v"] = (int64_t)cast<CharacterLiteral>(E)->getValue();
      return std::move(O);
    }
    if (isa<ImplicitValueInitExpr>(E)) {
      O["k"] = "Int";
      O["v"] = 0;
      return std::move(O);
    }
    O["k"] = "Unknown";
    O["cls"] = E->getStmtClassName();
    return std::move(O);
  }

  std::string recName(const RecordDecl *RD) {
    if (RD->getIdentifier())
      return RD->getNameAsString();
    if (const TypedefNameDecl *TD = RD->getTypedefNameForAnonDecl())
      return TD->getNameAsString();
    return "anon@" + fileOf(RD->getLocation()) + ":" +
           std::to_string(lineOf(RD->getLocation()));
  }

  json::Value varDecl(const VarDecl *VD) {
    json::Object O;
    O["k"] = "Decl";
    O["l"] = (int64_t)lineOf(VD->getLocation());
    O["n"] = VD->getNameAsString();
    O["id"] = id(VD);
    typeInfo(O, VD->getType());
    if (VD->isStaticLocal())
      O["static"] = 1;
    if (VD->getType().isConstQualified())
      O["const"] = 1;
    if (VD->getType()->isVariableArrayType())
      O["vla"] = 1;
    if (VD->hasInit())
      O["init"] = expr(VD->getInit());
    return std::move(O);
  }

  json::Value stmt(const Stmt *S) {
    if (!S)
      return nullptr;
    if (auto *E = dyn_cast<Expr>(S))
      return expr(E);
    json::Object O;
    O["l"] = (int64_t)lineOf(S->getBeginLoc());
    if (auto *CS = dyn_cast<CompoundStmt>(S)) {
      O["k"] = "Block";
      json::Array A;
      for (const Stmt *C : CS->body())
        A.push_back(stmt(C));
      O["b"] = std::move(A);
      O["le"] = (int64_t)lineOf(CS->getRBracLoc());
      return std::move(O);
    }
    if (auto *DS = dyn_cast<DeclStmt>(S)) {
      O["k"] = "Decls";
      json::Array A;
      for (const Decl *D : DS->decls())
        if (auto *VD = dyn_cast<VarDecl>(D))
          A.push_back(varDecl(VD));
      O["d"] = std::move(A);
      return std::move(O);
    }
    if (auto *IS = dyn_cast<IfStmt>(S)) {
      O["k"] = "If";
      O["c"] = expr(IS->getCond());
      O["then"] = stmt(IS->getThen());
      O["else"] = stmt(IS->getElse());
      std::string M = macroName(IS->getBeginLoc());
      if (!M.empty())
        O["m"] = M;
      return std::move(O);
    }
    if (auto *WS = dyn_cast<WhileStmt>(S)) {
      O["k"] = "While";
      O["c"] = expr(WS->getCond());
      O["body"] = stmt(WS->getBody());
      return std::move(O);
    }
    if (auto *DS = dyn_cast<DoStmt>(S)) {
      O["k"] = "Do";
      O["c"] = expr(DS->getCond());
      O["body"] = stmt(DS->getBody());
      return std::move(O);
    }
    if (auto *FS = dyn_cast<ForStmt>(S)) {
      O["k"] = "For";
      O["init"] = stmt(FS->getInit());
      O["c"] = expr(FS->getCond());
      O["inc"] = expr(FS->getInc());
      O["body"] = stmt(FS->getBody());
      return std::move(O);
    }
    if (auto *SS = dyn_cast<SwitchStmt>(S)) {
      O["k"] = "Switch";
      O["c"] = expr(SS->getCond());
      O["body"] = stmt(SS->getBody());
      return std::move(O);
    }
    if (auto *CS = dyn_cast<CaseStmt>(S)) {
      O["k"] = "Case";
      O["v"] = expr(CS->getLHS());
      if (CS->getRHS())
        O["v2"] = expr(CS->getRHS());
      O["sub"] = stmt(CS->getSubStmt());
      return std::move(O);
    }
    if (auto *DS = dyn_cast<DefaultStmt>(S)) {
      O["k"] = "Default";
      O["sub"] = stmt(DS->getSubStmt());
      return std::move(O);
    }
    if (isa<BreakStmt>(S)) {
      O["k"] = "Break";
      return std::move(O);
    }
    if (isa<ContinueStmt>(S)) {
      O["k"] = "Continue";
      return std::move(O);
    }
    if (auto *RS = dyn_cast<ReturnStmt>(S)) {
      O["k"] = "Return";
      O["e"] = expr(RS->getRetValue());
      return std::move(O);
    }
    if (auto *GS = dyn_cast<GotoStmt>(S)) {
      O["k"] = "Goto";
      O["label"] = GS->getLabel()->getNameAsString();
      return std::move(O);
    }
    if (auto *LS = dyn_cast<LabelStmt>(S)) {
      O["k"] = "Label";
      O["label"] = LS->getDecl()->getNameAsString();
      O["sub"] = stmt(LS->getSubStmt());
      return std::move(O);
    }
    if (isa<NullStmt>(S)) {
      O["k"] = "Null";
      return std::move(O);
    }
    if (isa<AsmStmt>(S)) {
      O["k"] = "Asm";
      return std::move(O);
    }
    O["k"] = "UnknownStmt";
    O["cls"] = S->getStmtClassName();
    return std::move(O);
  }

  json::Value funcHeader(const FunctionDecl *FD, bool WithBody) {
    json::Object O;
    O["n"] = FD->getNameAsString();
    O["id"] = id(FD);
    O["file"] = fileOf(FD->getLocation());
    O["l"] = (int64_t)lineOf(FD->getLocation());
    O["le"] = (int64_t)lineOf(FD->getEndLoc());
    O["static"] = FD->getStorageClass() == SC_Static;
    O["inline"] = FD->isInlineSpecified();
    O["variadic"] = FD->isVariadic();
    json::Object R;
    typeInfo(R, FD->getReturnType());
    R["ct"] = cty(FD->getReturnType());
    O["ret"] = std::move(R);
    json::Array Ps;
    for (const ParmVarDecl *P : FD->parameters()) {
      json::Object PO;
      PO["n"] = P->getNameAsString();
      PO["id"] = id(P);
      typeInfo(PO, P->getType());
      PO["ot"] = ty(P->getOriginalType());
      PO["ct"] = cty(P->getType());
      Ps.push_back(std::move(PO));
    }
    O["params"] = std::move(Ps);
    // where is it declared (any redeclaration in an include/ directory?)
    json::Array Decls;
    for (const FunctionDecl *RD : FD->redecls())
      Decls.push_back(fileOf(RD->getLocation()) + ":" +
                      std::to_string(lineOf(RD->getLocation())));
    O["decls"] = std::move(Decls);
    if (WithBody && FD->doesThisDeclarationHaveABody())
      O["body"] = stmt(FD->getBody());
    return std::move(O);
  }

  json::Value record(const RecordDecl *RD) {
    json::Object O;
    O["n"] = recName(RD);
    O["file"] = fileOf(RD->getLocation());
    O["l"] = (int64_t)lineOf(RD->getLocation());
    O["union"] = RD->isUnion();
    if (RD->isCompleteDefinition() && !RD->isInvalidDecl()) {
      const ASTRecordLayout &L = Ctx.getASTRecordLayout(RD);
      O["size"] = (int64_t)L.getSize().getQuantity();
      json::Array Fs;
      unsigned I = 0;
      for (const FieldDecl *F : RD->fields()) {
        json::Object FO;
        FO["n"] = F->getNameAsString();
        typeInfo(FO, F->getType());
        FO["ct"] = cty(F->getType());
        FO["off"] = (int64_t)L.getFieldOffset(I);
        if (F->isBitField())
          FO["bits"] = (int64_t)F->getBitWidthValue(Ctx);
        if (!F->getType()->isIncompleteType() &&
            !F->getType()->isVariableArrayType())
          FO["size"] = (int64_t)Ctx.getTypeSizeInChars(F->getType()).getQuantity();
        if (auto *RT = F->getType().getCanonicalType()->getAs<RecordType>())
          FO["rec"] = recName(RT->getDecl());
        else if (auto *AT = Ctx.getAsConstantArrayType(F->getType())) {
          FO["count"] = (int64_t)AT->getSize().getZExtValue();
          if (auto *RT2 = AT->getElementType().getCanonicalType()->getAs<RecordType>())
            FO["rec"] = recName(RT2->getDecl());
        }
        Fs.push_back(std::move(FO));
        ++I;
      }
      O["fields"] = std::move(Fs);
    }
    return std::move(O);
  }

  void run(TranslationUnitDecl *TU) {
    json::Array Fns, Globals, Recs, Enums, Typedefs;
    std::set<const FunctionDecl *> Defined;
    std::vector<const RecordDecl *> AllRecs;
    for (const Decl *D : TU->decls()) {
      if (!inRoot(D->getLocation()))
        continue;
      if (auto *FD = dyn_cast<FunctionDecl>(D)) {
        if (FD->doesThisDeclarationHaveABody()) {
          Fns.push_back(funcHeader(FD, true));
          Defined.insert(FD->getCanonicalDecl());
        }
      } else if (auto *VD = dyn_cast<VarDecl>(D)) {
        json::Object O;
        O["n"] = VD->getNameAsString();
        O["id"] = id(VD);
        O["file"] = fileOf(VD->getLocation());
        O["l"] = (int64_t)lineOf(VD->getLocation());
        typeInfo(O, VD->getType());
        O["static"] = VD->getStorageClass() == SC_Static;
        O["const"] = VD->getType().isConstQualified() ||
                     (VD->getType()->isArrayType() &&
                      Ctx.getAsArrayType(VD->getType())
                          ->getElementType()
                          .isConstQualified());
        O["extern_decl"] = !VD->isThisDeclarationADefinition();
        // scalars, and tables of function pointers (their entries are call targets); other arrays are data
        bool FnTable = false;
        if (VD->getType()->isArrayType()) {
          QualType ET = Ctx.getAsArrayType(VD->getType())->getElementType();
          FnTable = ET->isFunctionPointerType();
        }
        if (VD->hasInit() && (!VD->getType()->isArrayType() || FnTable))
          O["init"] = expr(VD->getInit());
        Globals.push_back(std::move(O));
      } else if (auto *RD = dyn_cast<RecordDecl>(D)) {
        if (RD->isCompleteDefinition())
          AllRecs.push_back(RD);
      } else if (auto *ED = dyn_cast<EnumDecl>(D)) {
        json::Object O;
        std::string N = ED->getNameAsString();
        if (N.empty())
          if (auto *TD = ED->getTypedefNameForAnonDecl())
            N = TD->getNameAsString();
        O["n"] = N;
        json::Array Es;
        for (const EnumConstantDecl *EC : ED->enumerators()) {
          json::Object EO;
          EO["n"] = EC->getNameAsString();
          EO["v"] = EC->getInitVal().getExtValue();
          Es.push_back(std::move(EO));
        }
        O["e"] = std::move(Es);
        Enums.push_back(std::move(O));
      } else if (auto *TD = dyn_cast<TypedefNameDecl>(D)) {
        json::Object O;
        O["n"] = TD->getNameAsString();
        O["t"] = ty(TD->getUnderlyingType());
        O["ct"] = cty(TD->getUnderlyingType());
        if (auto *RT = TD->getUnderlyingType().getCanonicalType()->getAs<RecordType>())
          O["rec"] = recName(RT->getDecl());
        Typedefs.push_back(std::move(O));
      }
    }
    // prototypes of referenced, not-defined-here functions
    json::Array Protos;
    for (const FunctionDecl *FD : RefFns)
      if (!Defined.count(FD))
        Protos.push_back(funcHeader(FD, false));
    for (const RecordDecl *RD : AllRecs)
      Recs.push_back(record(RD));
    json::Object Out;
    Out["functions"] = std::move(Fns);
    Out["protos"] = std::move(Protos);
    Out["globals"] = std::move(Globals);
    Out["records"] = std::move(Recs);
    Out["enums"] = std::move(Enums);
    Out["typedefs"] = std::move(Typedefs);
    Out["main"] = SM.getFileEntryForID(SM.getMainFileID())->getName().str();
    std::error_code EC;
    if (OutFile == "-") {
      llvm::outs() << json::Value(std::move(Out)) << "\n";
    } else {
      llvm::raw_fd_ostream OS(OutFile, EC);
      OS << json::Value(std::move(Out)) << "\n";
    }
  }
};

class Consumer : public ASTConsumer {
public:
  void HandleTranslationUnit(ASTContext &Ctx) override {
    if (Ctx.getDiagnostics().hasErrorOccurred())
      return;
    Dumper D(Ctx);
    D.run(Ctx.getTranslationUnitDecl());
  }
};

class Action : public ASTFrontendAction {
public:
  std::unique_ptr<ASTConsumer> CreateASTConsumer(CompilerInstance &,
                                                 StringRef) override {
    return std::make_unique<Consumer>();
  }
};

} // namespace

int main(int argc, const char **argv) {
  auto Opts = tooling::CommonOptionsParser::create(argc, argv, Cat);
  if (!Opts) {
    llvm::errs() << llvm::toString(Opts.takeError()) << "\n";
    return 2;
  }
  tooling::ClangTool Tool(Opts->getCompilations(), Opts->getSourcePathList());
  return Tool.run(tooling::newFrontendActionFactory<Action>().get()) ? 2 : 0;
}
