#!/usr/bin/env python3
"""usage: tools/keep_seed.py <ID> <n> <name> "<needs>"  -- after tools/confirm_seed.sh succeeded, copies the seeded
change into /verif/seeded/<name>/ (patch.diff, demonstration, meta.json)."""
import sys, os, shutil, json, subprocess
ID, n, name, needs = sys.argv[1:5]
S = "%s/%s/%s" % (os.environ.get("SEEDROOT", "/tmp/seeds"), ID, n)
D = "/verif/seeded/%s" % name
os.makedirs(D, exist_ok=True)
for f in os.listdir(S):
    if f in ("patch.diff", "demo.c", "run.sh", "README.md") or f.endswith(".c") or f.endswith(".sh") or f.endswith(".h"):
        shutil.copy(os.path.join(S, f), D)
def tail(p):
    try: return open(os.path.join(S, p)).read()[-400:]
    except OSError: return ""
tw = open(os.path.join(S, "tests_with.log")).read()
meta = {"property": ID, "needs_to_manifest": needs,
        "confirmed": {"tests_with_change": "%d OK / %d Err of 38 (testbee2)" % (tw.count("Test: OK"), tw.count("Test: Err")),
                      "demo_with_change_tail": tail("demo_with.log"), "demo_without_change_tail": tail("demo_without.log"),
                      "how": "tools/confirm_seed.sh %s %s in a scratch worktree: git apply, cmake+ninja build, _build/test/testbee2, run.sh with and without the change" % (ID, n)},
        "source": "independent sub-agent given only the property text and a scratch worktree",
        "detected_by": None}
json.dump(meta, open(os.path.join(D, "meta.json"), "w"), indent=1)
print("kept", D)
