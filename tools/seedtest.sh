#!/bin/sh
# usage: tools/seedtest.sh <property> <patch.diff> [tier]   -- runs ./check on a scratch copy of /repo with the patch applied
set -e
P=$1; PATCH=$(readlink -f $2); TIER=${3:-quick}
D=$(mktemp -d /var/tmp/bee2seed.XXXXXX)
trap 'rm -rf "$D"' EXIT
cp -r /repo/src /repo/include /repo/CMakeLists.txt "$D"/
(cd "$D" && patch -s -p1 < "$PATCH")
cd /verif
set +e
BEE2_REPO=$D VERIF_WORK=$D/.work VERIF_EVIDENCE_DIR=$D/ev VERIF_REPORT_DIR=$D/rep ./check $P --tier $TIER
echo "exit=$?"
