#!/usr/bin/env python3
"""Mutation self-test of the checkers.
usage: tools/mutate.py [-p C15] [-m mutant_id] [-j N] [--tier quick]
For each mutant (mutants/*.json): copy /repo's sources to a scratch directory under
/var/tmp, apply the textual replacement, make sure the unit still parses, run
./check <property> against the copy and expect exit 1 (optionally naming the
function).  Scratch copies are removed.  Never touches /repo."""
import sys, os, json, glob, subprocess, tempfile, shutil, argparse
from concurrent.futures import ThreadPoolExecutor
V = os.path.dirname(os.path.dirname(os.path.abspath(__file__)))
REPO = "/repo"


def load():
    ms = []
    for p in sorted(glob.glob(os.path.join(V, "mutants", "c[0-9]*.json"))):
        for m in json.load(open(p)):
            ms.append(m)
    return ms


def run_one(m, tier):
    d = tempfile.mkdtemp(prefix="bee2mut.", dir="/var/tmp")
    try:
        for sub in ("src", "include", "CMakeLists.txt"):
            s = os.path.join(REPO, sub)
            if os.path.isdir(s):
                shutil.copytree(s, os.path.join(d, sub))
            else:
                shutil.copy(s, os.path.join(d, sub))
        edits = m.get("edits") or [m]
        for e in edits:
            path = os.path.join(d, e["file"])
            txt = open(path).read()
            if e.get("re"):
                import re
                txt, cnt = re.subn(e["old"], e["new"], txt, count=e.get("count", 1), flags=re.S)
            else:
                cnt = txt.count(e["old"])
                txt = txt.replace(e["old"], e["new"], e.get("count", 1))
            if cnt < 1:
                return (m, "STALE", "pattern not found in %s" % e["file"])
            open(path, "w").write(txt)
            if path.endswith(".c"):
                p = subprocess.run(["clang", "-fsyntax-only", "-I%s/include" % d, "-I%s/src" % d, path],
                                   stdout=subprocess.PIPE, stderr=subprocess.PIPE, text=True)
                if p.returncode != 0:
                    return (m, "NOCOMPILE", p.stderr[-300:])
        env = dict(os.environ, BEE2_REPO=d, VERIF_WORK=os.path.join(d, ".work"), VERIF_EVIDENCE_DIR=os.path.join(d, "ev"),
                   VERIF_REPORT_DIR=os.path.join(d, "rep"))
        out = ""
        for prop in m["property"] if isinstance(m["property"], list) else [m["property"]]:
            p = subprocess.run([os.path.join(V, "check"), prop, "--tier", tier], cwd=V, env=env,
                               stdout=subprocess.PIPE, stderr=subprocess.STDOUT, text=True)
            out = p.stdout
            if p.returncode == 1 and "VIOLATION property=%s" % prop in out:
                want = m.get("expect")
                if want and want not in out:
                    return (m, "WRONG-SITE", out[-600:])
                return (m, "KILLED", [l for l in out.splitlines() if want and want in l][:1] or out.splitlines()[:1])
            if p.returncode == 2:
                return (m, "BROKEN", out[-600:])
        return (m, "SURVIVED", out[-300:])
    finally:
        shutil.rmtree(d, ignore_errors=True)


def main():
    ap = argparse.ArgumentParser()
    ap.add_argument("-p", "--property")
    ap.add_argument("-m", "--mutant")
    ap.add_argument("-j", type=int, default=8)
    ap.add_argument("--tier", default="quick")
    ap.add_argument("-v", action="store_true")
    a = ap.parse_args()
    ms = load()
    if a.property:
        ms = [m for m in ms if a.property in (m["property"] if isinstance(m["property"], list) else [m["property"]])]
    if a.mutant:
        ms = [m for m in ms if m["id"] == a.mutant]
    with ThreadPoolExecutor(max_workers=a.j) as ex:
        results = list(ex.map(lambda m: run_one(m, a.tier), ms))
    bad = 0
    for m, st, info in results:
        print("%-10s %-28s %s" % (st, m["id"], m.get("note", "")))
        if st != "KILLED" or a.v:
            print("      ", info if isinstance(info, str) else info)
        if st != "KILLED":
            bad += 1
    print("%d/%d mutants killed" % (len(results) - bad, len(results)))
    json.dump([{"id": m["id"], "property": m["property"], "status": st} for m, st, _ in results],
              open(os.path.join(V, "mutants", "last_run.txt"), "w"), indent=1)
    return 1 if bad else 0


sys.exit(main())
