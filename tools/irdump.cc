// irdump: reads LLVM IR (.ll / .bc produced by clang 14) and prints a JSON description of every defined function:
// arguments, basic blocks, instructions (opcode, operands as value ids or constants, callee, GEP source type and
// constant indices, volatile flag, debug line).  Front end only; the analyses are in /verif/sa/ct.py.
#include "llvm/IR/LLVMContext.h"
#include "llvm/IR/Module.h"
#include "llvm/IR/Function.h"
#include "llvm/IR/Instructions.h"
#include "llvm/IR/IntrinsicInst.h"
#include "llvm/IR/DebugInfoMetadata.h"
#include "llvm/IR/Operator.h"
#include "llvm/IRReader/IRReader.h"
#include "llvm/Support/JSON.h"
#include "llvm/Support/SourceMgr.h"
#include "llvm/Support/raw_ostream.h"
#include <map>

using namespace llvm;

static std::string typeStr(Type *T) {
  std::string S;
  raw_string_ostream OS(S);
  T->print(OS);
  return OS.str();
}

struct Numberer {
  std::map<const Value *, int> Ids;
  int Next = 0;
  int id(const Value *V) {
    auto It = Ids.find(V);
    if (It != Ids.end())
      return It->second;
    return Ids[V] = Next++;
  }
};

static json::Value operand(const Value *V, Numberer &N) {
  json::Object O;
  if (auto *CI = dyn_cast<ConstantInt>(V)) {
    O["c"] = CI->getValue().isIntN(63) ? (int64_t)CI->getZExtValue() : (int64_t)-1;
    return std::move(O);
  }
  if (isa<ConstantPointerNull>(V) || isa<UndefValue>(V) || isa<ConstantAggregateZero>(V) ||
      isa<ConstantFP>(V) || isa<ConstantDataSequential>(V) || isa<ConstantAggregate>(V)) {
    O["c"] = 0;
    O["k"] = "const";
    return std::move(O);
  }
  if (auto *F = dyn_cast<Function>(V)) {
    O["fn"] = F->getName().str();
    return std::move(O);
  }
  if (auto *G = dyn_cast<GlobalVariable>(V)) {
    O["g"] = G->getName().str();
    O["gconst"] = G->isConstant();
    return std::move(O);
  }
  if (auto *CE = dyn_cast<ConstantExpr>(V)) {
    // constant expression: describe by its base global if any
    O["k"] = "cexpr";
    for (const Use &U : CE->operands()) {
      const Value *B = U.get()->stripPointerCasts();
      if (auto *G = dyn_cast<GlobalVariable>(B)) {
        O["g"] = G->getName().str();
        O["gconst"] = G->isConstant();
        break;
      }
      if (auto *F = dyn_cast<Function>(B)) {
        O["fn"] = F->getName().str();
        break;
      }
    }
    return std::move(O);
  }
  if (isa<BasicBlock>(V)) {
    O["bb"] = N.id(V);
    return std::move(O);
  }
  if (isa<MetadataAsValue>(V) || isa<InlineAsm>(V)) {
    O["k"] = isa<InlineAsm>(V) ? "asm" : "meta";
    return std::move(O);
  }
  O["v"] = N.id(V);
  return std::move(O);
}

int main(int argc, char **argv) {
  if (argc < 2) {
    errs() << "usage: irdump file.ll\n";
    return 2;
  }
  LLVMContext Ctx;
  SMDiagnostic Err;
  std::unique_ptr<Module> M = parseIRFile(argv[1], Err, Ctx);
  if (!M) {
    Err.print(argv[0], errs());
    return 2;
  }
  json::Array Fns;
  for (Function &F : *M) {
    if (F.isDeclaration())
      continue;
    Numberer N;
    json::Object FO;
    FO["name"] = F.getName().str();
    FO["internal"] = F.hasLocalLinkage();
    if (DISubprogram *SP = F.getSubprogram()) {
      FO["file"] = SP->getFilename().str();
      FO["line"] = (int64_t)SP->getLine();
    }
    json::Array Args;
    for (Argument &A : F.args()) {
      json::Object AO;
      AO["id"] = N.id(&A);
      AO["name"] = A.getName().str();
      AO["type"] = typeStr(A.getType());
      AO["ptr"] = A.getType()->isPointerTy();
      Args.push_back(std::move(AO));
    }
    FO["args"] = std::move(Args);
    json::Array Blocks;
    for (BasicBlock &BB : F) {
      json::Object BO;
      BO["id"] = N.id(&BB);
      json::Array Insts;
      for (Instruction &I : BB) {
        if (isa<DbgInfoIntrinsic>(&I))
          continue;
        json::Object IO;
        IO["op"] = I.getOpcodeName();
        if (!I.getType()->isVoidTy()) {
          IO["id"] = N.id(&I);
          IO["type"] = typeStr(I.getType());
        }
        if (const DebugLoc &DL = I.getDebugLoc())
          IO["line"] = (int64_t)DL.getLine();
        json::Array Ops;
        if (auto *CB = dyn_cast<CallBase>(&I)) {
          const Value *Callee = CB->getCalledOperand()->stripPointerCasts();
          if (auto *CF = dyn_cast<Function>(Callee))
            IO["callee"] = CF->getName().str();
          else if (isa<InlineAsm>(Callee))
            IO["callee"] = "<asm>";
          else {
            IO["callee"] = "<indirect>";
            IO["calleev"] = operand(Callee, N);
          }
          for (const Use &U : CB->args())
            Ops.push_back(operand(U.get(), N));
        } else if (auto *PN = dyn_cast<PHINode>(&I)) {
          for (unsigned i = 0; i < PN->getNumIncomingValues(); ++i)
            Ops.push_back(operand(PN->getIncomingValue(i), N));
          json::Array Inc;
          for (unsigned i = 0; i < PN->getNumIncomingValues(); ++i)
            Inc.push_back(N.id(PN->getIncomingBlock(i)));
          IO["incoming"] = std::move(Inc);
        } else {
          for (const Use &U : I.operands())
            Ops.push_back(operand(U.get(), N));
        }
        IO["ops"] = std::move(Ops);
        if (auto *GEP = dyn_cast<GetElementPtrInst>(&I)) {
          IO["srcty"] = typeStr(GEP->getSourceElementType());
          json::Array Idx;
          for (auto It = GEP->idx_begin(); It != GEP->idx_end(); ++It) {
            if (auto *CI = dyn_cast<ConstantInt>(It->get()))
              Idx.push_back((int64_t)CI->getSExtValue());
            else
              Idx.push_back(nullptr);
          }
          IO["idx"] = std::move(Idx);
        }
        if (auto *LI = dyn_cast<LoadInst>(&I))
          IO["volatile"] = LI->isVolatile();
        if (auto *SI = dyn_cast<StoreInst>(&I))
          IO["volatile"] = SI->isVolatile();
        if (auto *CI = dyn_cast<CmpInst>(&I))
          IO["pred"] = CmpInst::getPredicateName(CI->getPredicate()).str();
        if (auto *AI = dyn_cast<AllocaInst>(&I))
          IO["allocty"] = typeStr(AI->getAllocatedType());
        if (auto *Cast = dyn_cast<CastInst>(&I))
          IO["srcty"] = typeStr(Cast->getSrcTy());
        Insts.push_back(std::move(IO));
      }
      BO["insts"] = std::move(Insts);
      Blocks.push_back(std::move(BO));
    }
    FO["blocks"] = std::move(Blocks);
    Fns.push_back(std::move(FO));
  }
  json::Object Out;
  Out["functions"] = std::move(Fns);
  outs() << json::Value(std::move(Out)) << "\n";
  return 0;
}
